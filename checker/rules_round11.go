package main

import (
	"fmt"
	"go/ast"
	"go/constant"
	"go/token"
	"go/types"
	"sort"
	"strings"
	"unicode"

	"golang.org/x/tools/go/ssa"
)

// Round 11: rules written for the round-11 mutants that arrived undetected (the rules for the defects found in
// round 11, D97..D107, are in rules_round10.go).

// c03r13: the ASCII / Latin-1 class table is filled from the constant whiteChars, while non-ASCII characters
// (and trimming) ask unicode.IsSpace. Below U+0100 the two have to name the same characters (round-11 mutant
// C03c11 dropped \v and \f from whiteChars: a word after a form feed scored 80 instead of 88).
func c03r13(c *Ctx, r *Report) {
	l := c.L
	r.rule("C03-R13", "E (whiteChars <-> unicode.IsSpace below U+0100)", "P1",
		"the bytes of the constant algo.whiteChars are exactly the code points below U+0100 for which unicode.IsSpace is true",
		"a form feed, vertical tab, NEL or NBSP is classified as a non-word character by the table and as white space elsewhere: the bonus of the word after it is not the documented one")
	k := l.Const("algo", "whiteChars")
	if k == nil {
		r.unest("anchors", token.NoPos, nil, "anchor algo.whiteChars", "cannot resolve")
		return
	}
	s := constantString(k)
	have := map[rune]bool{}
	for i := 0; i < len(s); i++ {
		have[rune(s[i])] = true
	}
	var missing, extra []string
	for cp := rune(0); cp < 0x100; cp++ {
		if unicode.IsSpace(cp) && !have[cp] {
			missing = append(missing, fmt.Sprintf("U+%04X", cp))
		}
		if !unicode.IsSpace(cp) && have[cp] {
			extra = append(extra, fmt.Sprintf("U+%04X", cp))
		}
	}
	r.check(len(missing) == 0 && len(extra) == 0, "algo.whiteChars:same set as unicode.IsSpace below U+0100", k.Pos(), nil,
		fmt.Sprintf("%d characters, all white space, none missing", len(have)),
		fmt.Sprintf("whiteChars lacks %v and has %v in excess of unicode.IsSpace", missing, extra))
	r.floor("characters in whiteChars", len(have), 4)
}

// c05r18: the text of a --with-nth / --nth range that spans several fields is joined in a buffer; the tokens
// made from it keep pointing into that buffer for as long as the item lives (ASCII text is not copied by
// util.ToChars). The buffer is therefore private to the call (round-11 mutant C05c11 took it from a sync.Pool:
// the remembered tokens of earlier lines were overwritten by later lines from the second query on).
func c05r18(c *Ctx, r *Report) {
	l := c.L
	r.rule("C05-R18", "B (the join buffer is private to the call)", "P1",
		"in Transform and JoinTokens, every bytes.Buffer / strings.Builder whose String or Bytes result is returned inside tokens is a variable allocated in the call (not taken from a pool, a package-level variable or a parameter)",
		"the searchable text of an item changes when later items are transformed: the result depends on the order in which items were processed")
	n := 0
	for _, name := range []string{"Transform", "JoinTokens"} {
		fn := l.Fn("fzf", name)
		if fn == nil {
			r.unest("anchors", token.NoPos, nil, "anchor "+name, "cannot resolve")
			continue
		}
		eachInstr(fn, func(in ssa.Instruction) {
			call, ok := in.(*ssa.Call)
			if !ok {
				return
			}
			nm := calleeName(call.Common())
			if nm != "(*bytes.Buffer).String" && nm != "(*bytes.Buffer).Bytes" && nm != "(*strings.Builder).String" {
				return
			}
			n++
			_, isAlloc := call.Call.Args[0].(*ssa.Alloc)
			r.check(isAlloc, fmt.Sprintf("%s:join buffer #%d is a local variable", relName(fn), n), call.Pos(), fn,
				"allocated in the call", "the buffer is "+describe(call.Call.Args[0])+": its storage is shared with other calls, and ASCII tokens keep pointing into it")
		})
	}
	r.floor("join buffers read in Transform / JoinTokens", n, 2)
}

// c06r17: $FZF_DEFAULT_COMMAND replaces the built-in walker; both are for the case that there is no input on
// standard input. When standard input is a pipe or a file, it is the input (round-11 mutant C06c11 flattened the
// decision: with the variable set, `producer | fzf` ran the default command and never read the producer).
func c06r17(c *Ctx, r *Report) {
	l := c.L
	r.rule("C06-R17", "A (the default command only when stdin is a terminal)", "P1",
		"in Reader.ReadSource, every call of readFromCommand whose command comes from os.Getenv is reached only on paths where util.IsTty(os.Stdin) was true, and readFromStdin only where it was false",
		"with FZF_DEFAULT_COMMAND set, piped input is ignored: the list is the output of the default command, not the records of the input stream")
	fn := l.Fn("fzf", "(*Reader).ReadSource")
	rfc := l.Fn("fzf", "(*Reader).readFromCommand")
	rfs := l.Fn("fzf", "(*Reader).readFromStdin")
	if fn == nil || rfc == nil || rfs == nil {
		r.unest("anchors", token.NoPos, nil, "anchors Reader.ReadSource / readFromCommand / readFromStdin", "cannot resolve")
		return
	}
	pc := pathConds(fn)
	tty := func(want bool) func(lits []Lit) bool {
		return func(lits []Lit) bool {
			for _, lt := range lits {
				if call, ok := lt.Atom.(*ssa.Call); ok && calleeName(call.Common()) == pkgAlias["util"]+".IsTty" && lt.Val == want {
					return true
				}
			}
			return false
		}
	}
	n := 0
	eachInstr(fn, func(in ssa.Instruction) {
		call, ok := in.(*ssa.Call)
		if !ok {
			return
		}
		switch call.Common().StaticCallee() {
		case rfc:
			fromEnv := false
			for v := range backwardSlice(call.Call.Args[1], func(*ssa.CallCommon) bool { return true }, nil) {
				if c2, ok := v.(*ssa.Call); ok && calleeName(c2.Common()) == "os.Getenv" {
					fromEnv = true
				}
			}
			if !fromEnv {
				return
			}
			n++
			holds, reach := pc.Implies(call.Block(), tty(true))
			r.check(holds && reach, fmt.Sprintf("%s:default command #%d runs only when stdin is a terminal", relName(fn), n), call.Pos(), fn,
				"under IsTty(os.Stdin)", "the command from the environment is started on a path that has not found standard input to be a terminal")
		case rfs:
			n++
			holds, reach := pc.Implies(call.Block(), tty(false))
			r.check(holds && reach, fmt.Sprintf("%s:standard input is read when it is not a terminal (#%d)", relName(fn), n), call.Pos(), fn,
				"under !IsTty(os.Stdin)", "standard input is read on a path that has not found it to be a pipe or file")
		}
	})
	r.floor("input sources chosen by ReadSource from the environment / stdin", n, 2)
}

// c07r13: Merger.final tells the coordinator (--select-1 / --exit-0) and the terminal (load, one, zero) that the
// merger is the result for the complete input. A merger taken from the matcher's cache was stamped for an
// earlier request, so the stamp is renewed for every merger that is posted (round-11 mutant C07b11 stamped only
// freshly scanned mergers and dropped the `final` test of the cache lookup: `(echo only; sleep 1) | fzf -1`
// never printed).
func c07r13(c *Ctx, r *Report) {
	l := c.L
	r.rule("C07-R13", "A (must-pass-through: every posted merger is stamped)", "P1",
		"in Matcher.Loop, every path from the lookup in mergerCache to the post of EvtSearchFin passes a store into Merger.final",
		"a cached result goes out with the final flag of an earlier request: --select-1 / --exit-0 never fire (fzf waits for ever with a deferred interface) or fire on a partial list")
	fn := l.Fn("fzf", "(*Matcher).Loop")
	fFinal := l.Field("fzf", "Merger", "final")
	fCache := l.Field("fzf", "Matcher", "mergerCache")
	set := l.Fn("util", "(*EventBox).Set")
	kFin := l.Const("fzf", "EvtSearchFin")
	if fn == nil || fFinal == nil || fCache == nil || set == nil || kFin == nil {
		r.unest("anchors", token.NoPos, nil, "anchors Matcher.Loop / Merger.final / mergerCache / EvtSearchFin", "cannot resolve")
		return
	}
	vFin, _ := constantInt64(kFin)
	isStamp := func(in ssa.Instruction) bool {
		st, ok := in.(*ssa.Store)
		if !ok {
			return false
		}
		f, _ := fieldOf(st.Addr)
		return f == fFinal
	}
	isPost := func(in ssa.Instruction) bool {
		call, ok := in.(*ssa.Call)
		return ok && call.Common().StaticCallee() == set && len(call.Call.Args) >= 2 && isConstInt(call.Call.Args[1], vFin)
	}
	n := 0
	eachInstr(fn, func(in ssa.Instruction) {
		lk, ok := in.(*ssa.Lookup)
		if !ok {
			return
		}
		if f, _ := loadedField(lk.X); f != fCache {
			return
		}
		n++
		hit := pathAvoiding(lk, isPost, isStamp, func(from, to *ssa.BasicBlock) bool { return !to.Dominates(from) })
		r.check(hit == nil, fmt.Sprintf("%s:merger looked up in the cache (#%d) is stamped before it is posted", relName(fn), n), lk.Pos(), fn,
			"Merger.final is stored on every path to the post", "a merger taken from the cache reaches EvtSearchFin without a store into Merger.final")
	})
	r.floor("lookups in Matcher.mergerCache", n, 1)
}

// c07r14: awkTokenizer computes byte offsets (begin, end = idx+1) and slices the input with them, so it walks
// the string byte by byte (round-11 mutant C07c11 changed the loop to `for idx, r := range input`: idx+1 then
// points into the middle of a multi-byte last character and --accept-nth printed `caf\xef\xbf\xbd`).
func c07r14(c *Ctx, r *Report) {
	l := c.L
	r.rule("C07-R14", "C (byte offsets come from a byte loop)", "P1",
		"awkTokenizer reads its input by indexing (input[idx]) and never iterates it with range (which advances by whole characters while the token ends are computed as idx+1)",
		"the last field of a line ending in a non-ASCII character is cut inside that character: the printed field is not a field of the line")
	fn := l.Fn("fzf", "awkTokenizer")
	if fn == nil || len(fn.Params) == 0 {
		r.unest("anchors", token.NoPos, nil, "anchor awkTokenizer", "cannot resolve")
		return
	}
	idx, rng := 0, 0
	eachInstr(fn, func(in ssa.Instruction) {
		switch x := in.(type) {
		case *ssa.Index:
			if x.X == ssa.Value(fn.Params[0]) {
				idx++
			}
		case *ssa.Lookup:
			if x.X == ssa.Value(fn.Params[0]) {
				idx++
			}
		case *ssa.Range:
			if x.X == ssa.Value(fn.Params[0]) {
				rng++
				r.bad(relName(fn)+":range over the input", x.Pos(), fn, "byte-wise loop", "the input is iterated with range: the loop variable jumps over the continuation bytes while token ends are idx+1")
			}
		}
	})
	if rng == 0 {
		r.ok(relName(fn)+":byte-wise loop", fn.Pos(), fn, "the input is read by index only")
	}
	r.floor("indexed reads of the input in awkTokenizer", idx, 1)
}

// c08r30: Pattern.AsString is the key of the matcher's merger cache (and, for --no-extended, of the chunk cache):
// two queries share a cached result exactly when it returns the same string, so it returns the query text itself
// (round-11 mutant C08c11 trimmed it: `foo` and `foo ` — and in extended mode `foo\` and `foo\ ` — collided, the
// newer query showed the older one's results).
func c08r30(c *Ctx, r *Report) {
	l := c.L
	r.rule("C08-R30", "D (the cache key is the query text)", "P1",
		"Pattern.AsString returns the conversion of Pattern.text to a string, with no call in between",
		"two different queries map to one cache key: the list shown for the newer query is the cached result of the older one")
	fn := l.Fn("fzf", "(*Pattern).AsString")
	fText := l.Field("fzf", "Pattern", "text")
	if fn == nil || fText == nil {
		r.unest("anchors", token.NoPos, nil, "anchors Pattern.AsString / Pattern.text", "cannot resolve")
		return
	}
	n := 0
	eachInstr(fn, func(in ssa.Instruction) {
		ret, ok := in.(*ssa.Return)
		if !ok || len(ret.Results) != 1 {
			return
		}
		n++
		good := false
		if cv, ok := ret.Results[0].(*ssa.Convert); ok {
			if f, _ := loadedField(cv.X); f == fText {
				good = true
			}
		}
		r.check(good, fmt.Sprintf("%s:return #%d is string(p.text)", relName(fn), n), ret.Pos(), fn,
			"the text itself", "AsString returns "+describe(ret.Results[0])+", not the unmodified query text")
	})
	r.floor("returns of Pattern.AsString", n, 1)
}

// c01r16: in an extended query a backslash escapes a SPACE and nothing else: `\ ` is a literal space of the term,
// every other backslash is a character of the term (a Windows path, `\$`, a regex-looking term). splitTerms
// and the trailing-blank trim of BuildPattern (C01-R15) have to agree on that (round-11 mutant C01a11 made the
// backslash escape any character: `'C:\Users` searched for `C:Users`).
func c01r16(c *Ctx, r *Report) {
	l := c.L
	r.rule("C01-R16", "D (a backslash escapes a space only)", "P1",
		"in splitTerms, every byte written to the current term is either the byte at the loop index (str[i]) or a constant written under the test that the byte after a backslash is a space",
		"a backslash that is not followed by a space disappears from the term, together with the meaning of the character after it: the query searches for another string than the one typed")
	fn := l.Fn("fzf", "splitTerms")
	if fn == nil || len(fn.Params) == 0 {
		r.unest("anchors", token.NoPos, nil, "anchor splitTerms", "cannot resolve")
		return
	}
	str := fn.Params[0]
	pc := pathConds(fn)
	n := 0
	eachInstr(fn, func(in ssa.Instruction) {
		call, ok := in.(*ssa.Call)
		if !ok {
			return
		}
		switch calleeName(call.Common()) {
		case "(*strings.Builder).WriteByte", "(*strings.Builder).WriteRune", "(*strings.Builder).WriteString":
		default:
			return
		}
		n++
		arg := call.Call.Args[1]
		if str1, ok := constString(arg); ok && len(str1) == 1 {
			// WriteString(" ") is WriteByte(' ')
			arg = ssa.NewConst(constant.MakeInt64(int64(str1[0])), types.Typ[types.Uint8])
		}
		good := false
		why := describe(arg)
		if idx, ok := arg.(*ssa.Index); ok && idx.X == ssa.Value(str) {
			// the byte at the loop index itself
			if _, isPhi := idx.Index.(*ssa.Phi); isPhi {
				good = true
			} else {
				why = "the byte behind the backslash, whatever it is"
			}
		} else if lk, ok := arg.(*ssa.Lookup); ok && lk.X == ssa.Value(str) {
			if _, isPhi := lk.Index.(*ssa.Phi); isPhi {
				good = true
			} else {
				why = "the byte behind the backslash, whatever it is"
			}
		} else if k, ok := constIntVal(arg); ok {
			// a constant: under str[i+1] == that constant
			holds, reach := pc.Implies(call.Block(), func(lits []Lit) bool {
				for _, lt := range lits {
					x, op, kk, ok := cmpInt(lt.Atom)
					if !ok || kk != k || !((op == token.EQL && lt.Val) || (op == token.NEQ && !lt.Val)) {
						continue
					}
					switch y := x.(type) {
					case *ssa.Index:
						if y.X == ssa.Value(str) {
							return true
						}
					case *ssa.Lookup:
						if y.X == ssa.Value(str) {
							return true
						}
					}
				}
				return false
			})
			good = holds && reach
		}
		r.check(good, fmt.Sprintf("%s:byte #%d written to the term", relName(fn), n), call.Pos(), fn,
			"str[i], or the escaped space under its test", "the term receives "+why)
	})
	r.floor("bytes written to a term in splitTerms", n, 2)
}

// c01r17: bonusFor gives a word character that follows white space, a delimiter or a non-word character a
// boundary bonus (>= bonusBoundary) whatever kind of word character it is; the camelCase / letter-to-digit
// bonus (7) is for positions inside a word. The boundary matcher (`'word'`) requires bonus >= bonusBoundary, so
// the order of the two tests is part of the matching (round-11 mutant C01b11 tested camel123 first: a digit
// after a space got 7 and `'123'` only matched at column 0).
func c01r17(c *Ctx, r *Report) {
	l := c.L
	r.rule("C01-R17", "A (the boundary test precedes the in-word bonus)", "P1",
		"in bonusFor, every return of bonusCamel123 is dominated by the comparison `class > charNonWord` that opens the boundary cases",
		"a digit or capital at the start of a word gets the in-word bonus: boundary terms no longer match there and exact matches rank below in-word ones")
	fn := l.Fn("algo", "bonusFor")
	kc := l.Const("algo", "bonusCamel123")
	kNW := l.Const("algo", "charNonWord")
	if fn == nil || kc == nil || kNW == nil || len(fn.Params) < 2 {
		r.unest("anchors", token.NoPos, nil, "anchors bonusFor / bonusCamel123 / charNonWord", "cannot resolve")
		return
	}
	vNW, _ := constantInt64(kNW)
	vc, _ := constantInt64(kc)
	// the constant must be told apart from the other bonuses by its value
	for _, other := range []string{"bonusNonWord", "bonusBoundary", "bonusConsecutive"} {
		if ko := l.Const("algo", other); ko != nil {
			if vo, _ := constantInt64(ko); vo == vc {
				r.unest(relName(fn)+":bonusCamel123 is distinguishable", fn.Pos(), fn, "bonusCamel123 differs in value from "+other, "same value: the returns cannot be told apart")
				return
			}
		}
	}
	var tests []ssa.Instruction
	eachInstr(fn, func(in ssa.Instruction) {
		bo, ok := in.(*ssa.BinOp)
		// class > charNonWord, or the same test spelled class >= charNonWord+1
		if ok && bo.X == ssa.Value(fn.Params[1]) && (bo.Op == token.GTR && isConstInt(bo.Y, vNW) || bo.Op == token.GEQ && isConstInt(bo.Y, vNW+1)) {
			tests = append(tests, bo)
		}
	})
	n := 0
	eachInstr(fn, func(in ssa.Instruction) {
		u, ok := in.(*ssa.Return)
		if !ok || len(u.Results) != 1 || !isConstInt(u.Results[0], vc) {
			return
		}
		n++
		dom := false
		for _, t := range tests {
			if dominates(t, u) {
				dom = true
			}
		}
		r.check(dom, fmt.Sprintf("%s:return #%d of bonusCamel123 comes after the boundary cases", relName(fn), n), u.Pos(), fn,
			"dominated by `class > charNonWord`", "the in-word bonus is returned before the boundary cases have been looked at")
	})
	r.floor("returns of bonusCamel123 in bonusFor", n, 1)
}

// kebabToAct: "deselect-all" -> "actDeselectAll"
func kebabToAct(name string) string {
	out := "act"
	for _, part := range strings.Split(name, "-") {
		if part == "" {
			continue
		}
		out += strings.ToUpper(part[:1]) + part[1:]
	}
	return out
}

// c09r26: parseActionList maps an action name to its constant in a long switch. The names and the constants
// follow one convention (kebab-case name -> act + CamelCase); checked as a convention like C04-R16 (round-11
// mutant C09a11 folded "deselect-all" into the case of "clear-selection": deselect-all wiped selected items that
// the current query hides).
func c09r26(c *Ctx, r *Report) {
	l := c.L
	r.rule("C09-R26", "E (action name <-> action constant, by name)", "P1",
		"in parseActionList, a case clause whose labels are action names and whose body is a single appendAction(actX) appends the constant that is the CamelCase form of one of ITS labels; the documented aliases are listed in the checker",
		"an action bound by name performs another action (deselect-all clears the whole selection, also of lines that are not in the current result)")
	fd := fzfFuncDecl(l, "fzf", "parseActionList")
	fn := l.Fn("fzf", "parseActionList")
	if fd == nil {
		r.unest("anchors", token.NoPos, nil, "syntax of parseActionList", "cannot resolve")
		return
	}
	// aliases and historical spellings: label -> constant, each confirmed by reading the man page
	alias := map[string]string{
		"previous-history": "actPrevHistory", "prev-history": "actPrevHistory",
		"page-up": "actPageUp", "page-down": "actPageDown",
		"up": "actUp", "down": "actDown",
		"end-of-line": "actEndOfLine", "beginning-of-line": "actBeginningOfLine",
		"unix-line-discard": "actUnixLineDiscard", "unix-word-rubout": "actUnixWordRubout",
		"top": "actFirst", // `top` is the old name of `first`
		"toggle+up": "actToggleUp", "toggle+down": "actToggleDown", "toggle-in": "actToggleIn", "toggle-out": "actToggleOut",
		"print-query": "actPrintQuery",
		"offset-up": "actOffsetUp", "offset-down": "actOffsetDown", "offset-middle": "actOffsetMiddle",
		"toggle-multi-line": "actToggleMultiLine", "toggle-hscroll": "actToggleHscroll",
		"backward-delete-char/eof": "actBackwardDeleteCharEof", "delete-char/eof": "actDeleteCharEof", // `/` in the name
		"line-discard": "actUnixLineDiscard", "word-rubout": "actUnixWordRubout", // short forms of unix-line-discard / unix-word-rubout
		"track": "actTrackCurrent", // `track` is the old name of `track-current`
	}
	n := 0
	ast.Inspect(fd.Body, func(nd ast.Node) bool {
		cc, ok := nd.(*ast.CaseClause)
		if !ok || len(cc.Body) != 1 {
			return true
		}
		es, ok := cc.Body[0].(*ast.ExprStmt)
		if !ok {
			return true
		}
		call, ok := es.X.(*ast.CallExpr)
		if !ok || len(call.Args) != 1 {
			return true
		}
		if id, ok := call.Fun.(*ast.Ident); !ok || id.Name != "appendAction" {
			return true
		}
		arg, ok := call.Args[0].(*ast.Ident)
		if !ok || !strings.HasPrefix(arg.Name, "act") {
			return true
		}
		var labels []string
		for _, e := range cc.List {
			if lit, ok := e.(*ast.BasicLit); ok && lit.Kind == token.STRING {
				labels = append(labels, strings.Trim(lit.Value, "\"`"))
			}
		}
		if len(labels) == 0 {
			return true
		}
		for _, lb := range labels {
			n++
			want := kebabToAct(lb)
			if a, ok := alias[lb]; ok {
				want = a
			}
			r.check(arg.Name == want, "fzf.parseActionList:action name "+lb, cc.Pos(), fn,
				"appends "+want, "the name \""+lb+"\" appends "+arg.Name+", not "+want)
		}
		return true
	})
	r.floor("action names with a plain appendAction in parseActionList", n, 60)
}

// c10r15: when a search request replaces one the coordinator has not taken yet, the newer one inherits the field
// list (--nth) of the pending one unless it brings its own — whether or not it also brings a command
// (round-11 mutant C10b11 moved the inheritance under `r.command == nil`: a change-nth still waiting was lost
// when a reload replaced it; the terminal showed nth=2 while the matcher searched with nth=1).
func c10r15(c *Ctx, r *Report) {
	l := c.L
	r.rule("C10-R15", "D (what is inherited does not depend on unrelated fields)", "P1",
		"in searchRequest.merge, the store of the pending request's nth into the result is control dependent on nil tests of the nth field only",
		"a pending change-nth is dropped when a reload is requested before the coordinator has taken it: the search runs on other fields than the ones shown")
	fn := l.Fn("fzf", "(searchRequest).merge")
	if fn == nil {
		fn = l.Fn("fzf", "searchRequest.merge")
	}
	fNth := l.Field("fzf", "searchRequest", "nth")
	if fn == nil || fNth == nil {
		r.unest("anchors", token.NoPos, nil, "anchors searchRequest.merge / searchRequest.nth", "cannot resolve")
		return
	}
	cc := cdCache{}
	n := 0
	eachInstr(fn, func(in ssa.Instruction) {
		st, ok := in.(*ssa.Store)
		if !ok {
			return
		}
		if f, _ := fieldOf(st.Addr); f != fNth {
			return
		}
		if f, _ := loadedField(st.Val); f != fNth {
			return // not the inheritance
		}
		n++
		good := true
		why := ""
		for cond := range cc.of(st) {
			onNth := false
			if bo, ok := cond.(*ssa.BinOp); ok && (bo.Op == token.EQL || bo.Op == token.NEQ) {
				for _, side := range []ssa.Value{bo.X, bo.Y} {
					if f, _ := loadedField(side); f == fNth {
						onNth = true
					}
				}
			}
			if !onNth {
				good = false
				why = describe(cond)
			}
		}
		r.check(good, fmt.Sprintf("%s:inheritance #%d of nth depends on nth only", relName(fn), n), st.Pos(), fn,
			"under `r.nth == nil` only", "the pending field list is inherited only under "+why)
	})
	r.floor("inheritances of nth in searchRequest.merge", n, 1)
}

// c10r16: the three spellings of the option (-d X, -dX, --delimiter=X) hand the argument to delimiterRegexp, which
// decides between a literal string and a regular expression (round-11 mutant C10c11 built a literal Delimiter for
// the attached short form: -d'[,;]' and -d'\t' no longer split).
func c10r16(c *Ctx, r *Report) {
	l := c.L
	r.rule("C10-R16", "E (sibling spellings of one option agree)", "P1",
		"in parseOptions, every value stored into Options.Delimiter is the result of a call of delimiterRegexp",
		"one spelling of --delimiter treats a regular expression (or \\t) as a literal string: the fields are not the documented ones")
	fn := l.Fn("fzf", "parseOptions")
	dr := l.Fn("fzf", "delimiterRegexp")
	fD := l.Field("fzf", "Options", "Delimiter")
	if fn == nil || dr == nil || fD == nil {
		r.unest("anchors", token.NoPos, nil, "anchors parseOptions / delimiterRegexp / Options.Delimiter", "cannot resolve")
		return
	}
	n := 0
	eachInstr(fn, func(in ssa.Instruction) {
		st, ok := in.(*ssa.Store)
		if !ok {
			return
		}
		if f, _ := fieldOf(st.Addr); f != fD {
			return
		}
		n++
		call, ok := st.Val.(*ssa.Call)
		r.check(ok && call.Common().StaticCallee() == dr, fmt.Sprintf("%s:delimiter spelling #%d goes through delimiterRegexp", relName(fn), n), st.Pos(), fn,
			"delimiterRegexp(value)", "Options.Delimiter is set to "+describe(st.Val)+" without asking delimiterRegexp")
	})
	r.floor("stores into Options.Delimiter in parseOptions", n, 2)
}

// c11r26: Terminal.ansi says whether item text carries escape sequences that have to be stripped when the item
// is printed, substituted into a command or reported to a listener. That is a property of the input (--ansi),
// the same flag the reader side in core.go uses; it does not depend on whether colours are shown (round-11 mutant
// C11b11 stored opts.Ansi && opts.Theme.Colored: with --color=bw / NO_COLOR accept printed the raw sequences).
func c11r26(c *Ctx, r *Report) {
	l := c.L
	r.rule("C11-R26", "E (one flag for both ends)", "P1",
		"in NewTerminal, Terminal.ansi is stored directly from Options.Ansi (no operator, no other option)",
		"with --ansi and colours off, the printed line / {} placeholder / listener state contains the escape sequences that --filter mode strips")
	fn := l.Fn("fzf", "NewTerminal")
	fT := l.Field("fzf", "Terminal", "ansi")
	fO := l.Field("fzf", "Options", "Ansi")
	if fn == nil || fT == nil || fO == nil {
		r.unest("anchors", token.NoPos, nil, "anchors NewTerminal / Terminal.ansi / Options.Ansi", "cannot resolve")
		return
	}
	n := 0
	eachInstr(fn, func(in ssa.Instruction) {
		st, ok := in.(*ssa.Store)
		if !ok {
			return
		}
		if f, _ := fieldOf(st.Addr); f != fT {
			return
		}
		n++
		f, _ := loadedField(st.Val)
		r.check(f == fO, fmt.Sprintf("%s:Terminal.ansi #%d = Options.Ansi", relName(fn), n), st.Pos(), fn,
			"the option itself", "Terminal.ansi is computed as "+describe(st.Val)+": it no longer agrees with the flag the reader side uses")
	})
	r.floor("stores into Terminal.ansi", n, 1)
}

// c11r27: util.Chars keeps its text either as bytes or — reinterpreted through unsafe — as runes in the same
// slice header. Code that reads Chars.slice as BYTES is therefore only correct on paths that know the text is
// held as bytes (round-11 mutant C11c11 "simplified" Chars.Prepend to append the raw slice to the prefix: for a
// non-ASCII field the rune memory was read as bytes and the searchable text became garbage).
func c11r27(c *Ctx, r *Report) {
	l := c.L
	r.rule("C11-R27", "C (rune memory is not read as bytes)", "P1",
		"in Chars.Prepend, every read of Chars.slice that is passed on as a byte slice (to append, a conversion or a call) lies on a path where optionalRunes() returned nil or inBytes was tested true",
		"the colour prefix put in front of a non-ASCII --with-nth field turns the field into garbage: it cannot be searched and is drawn wrong")
	fn := l.Fn("util", "(*Chars).Prepend")
	fS := l.Field("util", "Chars", "slice")
	fB := l.Field("util", "Chars", "inBytes")
	opt := l.Fn("util", "(*Chars).optionalRunes")
	if fn == nil || fS == nil || fB == nil || opt == nil {
		r.unest("anchors", token.NoPos, nil, "anchors Chars.Prepend / slice / inBytes / optionalRunes", "cannot resolve")
		return
	}
	pc := pathConds(fn)
	n := 0
	eachInstr(fn, func(in ssa.Instruction) {
		u, ok := in.(*ssa.UnOp)
		if !ok || u.Op != token.MUL {
			return
		}
		if f, _ := fieldOf(u.X); f != fS {
			return
		}
		// used as bytes: an operand of append / a call argument / a conversion (not merely len or a store back)
		used := false
		for _, ref := range *u.Referrers() {
			switch x := ref.(type) {
			case *ssa.Call:
				if bi, ok := x.Call.Value.(*ssa.Builtin); ok && (bi.Name() == "len" || bi.Name() == "cap") {
					continue
				}
				used = true
			case *ssa.Convert, *ssa.Slice, *ssa.Index, *ssa.IndexAddr:
				used = true
			}
		}
		if !used {
			return
		}
		n++
		holds, reach := pc.Implies(u.Block(), func(lits []Lit) bool {
			for _, lt := range lits {
				// runes != nil false / runes == nil true, runes being the result of optionalRunes
				if bo, ok := lt.Atom.(*ssa.BinOp); ok && (bo.Op == token.NEQ || bo.Op == token.EQL) {
					fromOpt := false
					for v := range backwardSlice(bo.X, nil, nil) { // `runes` may live in a cell (its address is taken)
						if call, ok := v.(*ssa.Call); ok && call.Common().StaticCallee() == opt {
							fromOpt = true
						}
					}
					if k, ok := bo.Y.(*ssa.Const); fromOpt && ok && k.Value == nil && (bo.Op == token.NEQ) != lt.Val {
						return true
					}
				}
				if f, _ := loadedField(lt.Atom); f == fB && lt.Val {
					return true
				}
			}
			return false
		})
		r.check(holds && reach, fmt.Sprintf("%s:byte read #%d of Chars.slice", relName(fn), n), u.Pos(), fn,
			"only when the text is held as bytes", "Chars.slice is read as bytes on a path that has not established that the text is held as bytes")
	})
	r.floor("byte reads of Chars.slice in Prepend", n, 1)
}

// c14r23: a reload command that is replaced before the coordinator has started it will never run, so nobody
// else removes the temporary files made for its {f} placeholders: searchRequest.merge does (round-11 mutant
// C14b11 dropped that branch: a burst of reloads left fzf-temp-* files behind after exit).
func c14r23(c *Ctx, r *Report) {
	l := c.L
	r.rule("C14-R23", "B (the temp files of a superseded command are removed where it is superseded)", "P1",
		"searchRequest.merge calls removeFiles with the tempFiles of the pending request's command, under nil tests of the two commands only",
		"temporary files of reload commands that were never started are left in $TMPDIR after fzf has exited")
	fn := l.Fn("fzf", "(searchRequest).merge")
	if fn == nil {
		fn = l.Fn("fzf", "searchRequest.merge")
	}
	rm := l.Fn("fzf", "removeFiles")
	fTmp := l.Field("fzf", "commandSpec", "tempFiles")
	fCmd := l.Field("fzf", "searchRequest", "command")
	if fn == nil || rm == nil || fTmp == nil || fCmd == nil || len(fn.Params) < 2 {
		r.unest("anchors", token.NoPos, nil, "anchors searchRequest.merge / removeFiles / commandSpec.tempFiles / searchRequest.command", "cannot resolve")
		return
	}
	cc := cdCache{}
	n := 0
	eachInstr(fn, func(in ssa.Instruction) {
		call, ok := in.(*ssa.Call)
		if !ok || call.Common().StaticCallee() != rm {
			return
		}
		if f, _ := loadedField(call.Call.Args[0]); f != fTmp {
			return
		}
		n++
		good := true
		for cond := range cc.of(call) {
			onCmd := false
			if bo, ok := cond.(*ssa.BinOp); ok && (bo.Op == token.EQL || bo.Op == token.NEQ) {
				for _, side := range []ssa.Value{bo.X, bo.Y} {
					if f, _ := loadedField(side); f == fCmd {
						onCmd = true
					}
				}
			}
			if !onCmd {
				good = false
			}
		}
		r.check(good, fmt.Sprintf("%s:removal #%d of the superseded command's files", relName(fn), n), call.Pos(), fn,
			"whenever both requests carry a command", "the files are removed only under a further condition")
	})
	r.check(n >= 1, relName(fn)+":superseded temp files are removed", fn.Pos(), fn, "removeFiles(pending.command.tempFiles) is called", "merge no longer removes the temporary files of the command it discards")
}

// c14r24: the terminal state that is restored on exit is the one saved by initPlatform when the renderer is
// initialised. Pause/Resume around execute(...) re-enter raw mode through setupTerminal, which must not save
// again — the child may have left the tty changed (round-11 mutant C14c11 made setupTerminal call initPlatform:
// after `execute(stty -echo)` fzf restored a terminal without echo on exit). A who-may-call rule.
func c14r24(c *Ctx, r *Report) {
	l := c.L
	r.rule("C14-R24", "B (who may call: the terminal state is saved once)", "P1",
		"LightRenderer.initPlatform is called from LightRenderer.Init only (call graph of the resolved program)",
		"the saved terminal state is overwritten after a child process has changed the tty: on exit fzf restores that state instead of the user's")
	ip := l.Fn("tui", "(*LightRenderer).initPlatform")
	init := l.Fn("tui", "(*LightRenderer).Init")
	if ip == nil || init == nil {
		r.unest("anchors", token.NoPos, nil, "anchors LightRenderer.initPlatform / Init", "cannot resolve")
		return
	}
	n := 0
	for _, fn := range l.funcs {
		eachInstr(fn, func(in ssa.Instruction) {
			if staticCallee(in) != ip {
				return
			}
			n++
			r.check(rootFn(fn) == init, fmt.Sprintf("tui.LightRenderer.initPlatform:caller %s", relName(rootFn(fn))), in.Pos(), fn,
				"called while the renderer is initialised", "initPlatform (which saves the terminal state) is called from "+relName(rootFn(fn))+", i.e. possibly after a child has changed the tty")
		})
	}
	r.floor("callers of LightRenderer.initPlatform", n, 1)
}

// c15r28: postProcessOptions pads the pointer / marker strings so that all of them have the same width; a padded
// string that is computed has to be stored where the terminal reads it (round-11 mutant C15a11 padded the loop
// variable of a range-by-value loop: the multi-line markers stayed one column short and the rows of a selected
// multi-row item shifted left).
func c15r28(c *Ctx, r *Report) {
	l := c.L
	r.rule("C15-R28", "D (a computed padding is stored)", "P1",
		"in postProcessOptions, every string concatenation whose operand is a strings.Repeat result is stored through a pointer (into Options or into a variable whose address is stored there)",
		"markers of different widths: the rows of a multi-line item are indented differently from what the line accounting assumes")
	fn := l.Fn("fzf", "postProcessOptions")
	if fn == nil {
		r.unest("anchors", token.NoPos, nil, "anchor postProcessOptions", "cannot resolve")
		return
	}
	n := 0
	eachInstr(fn, func(in ssa.Instruction) {
		bo, ok := in.(*ssa.BinOp)
		if !ok || bo.Op != token.ADD {
			return
		}
		rep := false
		for _, side := range []ssa.Value{bo.X, bo.Y} {
			if call, ok := side.(*ssa.Call); ok && calleeName(call.Common()) == "strings.Repeat" {
				rep = true
			}
		}
		if !rep {
			return
		}
		n++
		stored := false
		for _, ref := range *bo.Referrers() {
			if st, ok := ref.(*ssa.Store); ok && st.Val == ssa.Value(bo) {
				stored = true
			}
		}
		r.check(stored, fmt.Sprintf("%s:padded string #%d is stored", relName(fn), n), bo.Pos(), fn,
			"stored through a pointer", "the padded string is computed and dropped (assigned to a copy): the option keeps its unpadded value")
	})
	r.floor("padded strings in postProcessOptions", n, 2)
}

// c15r29: printPrompt clears its line before it draws; with --info=inline the counter shares that line, so on a
// full redraw the info has to be printed after the prompt (round-11 mutant C15b11 swapped the two calls in
// printAll: after a resize / clear-screen the inline counter was gone).
func c15r29(c *Ctx, r *Report) {
	l := c.L
	r.rule("C15-R29", "A (ordering: prompt before info)", "P1",
		"in Terminal.printAll, the call of printPrompt dominates the call of printInfo",
		"with --info=inline(-right) a full redraw wipes the match counter from the prompt line")
	fn := l.Fn("fzf", "(*Terminal).printAll")
	pp := l.Fn("fzf", "(*Terminal).printPrompt")
	pi := l.Fn("fzf", "(*Terminal).printInfo")
	if fn == nil || pp == nil || pi == nil {
		r.unest("anchors", token.NoPos, nil, "anchors Terminal.printAll / printPrompt / printInfo", "cannot resolve")
		return
	}
	var prompts, infos []ssa.Instruction
	eachInstr(fn, func(in ssa.Instruction) {
		switch staticCallee(in) {
		case pp:
			prompts = append(prompts, in)
		case pi:
			infos = append(infos, in)
		}
	})
	for i, inf := range infos {
		dom := false
		for _, p := range prompts {
			if dominates(p, inf) {
				dom = true
			}
		}
		r.check(dom, fmt.Sprintf("%s:printInfo #%d comes after printPrompt", relName(fn), i+1), inf.Pos(), fn,
			"printPrompt dominates printInfo", "the info line is printed before the prompt, whose line-clear wipes an inline counter")
	}
	r.floor("printInfo calls in printAll", len(infos), 1)
}

// c15r30: promptLines (rows the prompt and info take at the bottom/top of the list window) and
// visibleInputLinesInList (the same number as seen by Terminal.move in reverse-list) are two functions for one
// quantity; both are 0 when the input is hidden (round-11 mutant C15c11 dropped `|| t.inputless` from one of them:
// with --layout=reverse-list --no-input the first list row was mirrored to the bottom).
func c15r30(c *Ctx, r *Report) {
	l := c.L
	r.rule("C15-R30", "E (sibling functions agree on the hidden input)", "P1",
		"in promptLines and visibleInputLinesInList, every return of a value other than the constant 0 is reached only on paths where Terminal.inputless was read as false",
		"with a hidden input section in --layout=reverse-list, rows are placed as if the prompt were there: the list is shifted and one row is mirrored to the other end")
	fLess := l.Field("fzf", "Terminal", "inputless")
	if fLess == nil {
		r.unest("anchors", token.NoPos, nil, "anchor Terminal.inputless", "cannot resolve")
		return
	}
	n := 0
	for _, name := range []string{"(*Terminal).promptLines", "(*Terminal).visibleInputLinesInList"} {
		fn := l.Fn("fzf", name)
		if fn == nil {
			r.unest("anchors", token.NoPos, nil, "anchor "+name, "cannot resolve")
			continue
		}
		pc := pathConds(fn)
		eachInstr(fn, func(in ssa.Instruction) {
			ret, ok := in.(*ssa.Return)
			if !ok || len(ret.Results) != 1 || isConstInt(ret.Results[0], 0) {
				return
			}
			n++
			holds, reach := pc.Implies(ret.Block(), func(lits []Lit) bool {
				for _, lt := range lits {
					if f, _ := loadedField(lt.Atom); f == fLess && !lt.Val {
						return true
					}
				}
				return false
			})
			r.check(holds && reach, fmt.Sprintf("%s:non-zero return #%d only with the input shown", relName(fn), n), ret.Pos(), fn,
				"under !t.inputless", "rows are reserved for the prompt although the input may be hidden")
		})
	}
	r.floor("non-zero returns of promptLines / visibleInputLinesInList", n, 4)
}

// c17r30: maskActionContents finds the end of an action argument with a pattern that starts at the opening
// delimiter (`^<open>.*?(<close>[+,]|<close>$)`); parseActionList then cuts the argument out by offsets that
// assume exactly that shape. Both delimiters are quoted for the pattern (round-11 mutant C17a11 dropped the opening
// delimiter from the pattern: `execute~+x~` and an unterminated `execute~` made parseActionList slice out of range —
// a Go panic instead of a configuration or a message).
func c17r30(c *Ctx, r *Report) {
	l := c.L
	r.rule("C17-R30", "E (the end-of-argument pattern is anchored at the opening delimiter)", "P1",
		"in maskActionContents, the pattern compiled from fmt.Sprintf has a constant format that begins with `(?s)^%s`, and every argument of that Sprintf is a result of regexp.QuoteMeta",
		"an action argument that starts with + or , or has no closing delimiter makes the option parser panic")
	fn := l.Fn("fzf", "maskActionContents")
	if fn == nil {
		r.unest("anchors", token.NoPos, nil, "anchor maskActionContents", "cannot resolve")
		return
	}
	n := 0
	eachInstr(fn, func(in ssa.Instruction) {
		call, ok := in.(*ssa.Call)
		if !ok || calleeName(call.Common()) != "fmt.Sprintf" || len(call.Call.Args) != 2 {
			return
		}
		// only the Sprintf whose result is compiled
		compiled := false
		for _, ref := range *call.Referrers() {
			if c2, ok := ref.(*ssa.Call); ok && strings.HasPrefix(calleeName(c2.Common()), "regexp.") {
				compiled = true
			}
		}
		if !compiled {
			return
		}
		n++
		format, _ := constString(call.Call.Args[0])
		r.check(strings.HasPrefix(format, "(?s)^%s"), fmt.Sprintf("%s:pattern #%d starts at the opening delimiter", relName(fn), n), call.Pos(), fn,
			"format begins with (?s)^%s", "the pattern "+format+" is not anchored at the opening delimiter: the offsets parseActionList relies on are off")
		sl, ok := call.Call.Args[1].(*ssa.Slice)
		if !ok {
			return
		}
		k := 0
		eachInstr(fn, func(in2 ssa.Instruction) {
			st, ok := in2.(*ssa.Store)
			if !ok {
				return
			}
			ia, ok := st.Addr.(*ssa.IndexAddr)
			if !ok || ia.X != sl.X {
				return
			}
			k++
			quoted := false
			for v := range backwardSlice(stripConv(st.Val), nil, nil) {
				if c2, ok := v.(*ssa.Call); ok && calleeName(c2.Common()) == "regexp.QuoteMeta" {
					quoted = true
				}
			}
			r.check(quoted, fmt.Sprintf("%s:pattern #%d argument %d is quoted", relName(fn), n, k), st.Pos(), fn,
				"regexp.QuoteMeta(...)", "a delimiter is pasted into the pattern unquoted")
		})
	})
	r.floor("patterns built from the delimiters in maskActionContents", n, 1)
}

// c19r18: a root may be spelled with any number of leading "./" ("././a", ".//./a"); trimPath removes them all,
// so the stripping is a loop (round-11 mutant C19a11 turned the `for` into an `if`: with such a root every path
// was listed with a leading "./").
func c19r18(c *Ctx, r *Report) {
	l := c.L
	r.rule("C19-R18", "C (every leading ./ is removed)", "P1",
		"in trimPath, the slice expression that drops the leading \"./\" (bytes[2:]) lies in a loop",
		"a root spelled ././dir lists its files as ./dir/file: the same file has two spellings depending on how the root was written")
	fn := l.Fn("fzf", "trimPath")
	if fn == nil {
		r.unest("anchors", token.NoPos, nil, "anchor trimPath", "cannot resolve")
		return
	}
	n := 0
	eachInstr(fn, func(in ssa.Instruction) {
		sl, ok := in.(*ssa.Slice)
		if !ok || sl.Low == nil || !isConstInt(sl.Low, 2) || sl.High != nil {
			return
		}
		n++
		r.check(inLoop(sl.Block()), fmt.Sprintf("%s:removal #%d of a leading ./ is repeated", relName(fn), n), sl.Pos(), fn,
			"inside a loop", "only one leading ./ is removed")
	})
	r.floor("removals of a leading ./ in trimPath", n, 1)
}

// c19r19: whether an argument of `--walker-root DIR [DIR...]` is a root is decided by isDir; the walker itself
// (fastwalk.Walk) stats the root with os.Stat, i.e. follows a symbolic link. The two have to agree (round-11 mutant
// C19b11 used os.Lstat: a root that is a symlink to a directory was rejected in the space-separated form only).
func c19r19(c *Ctx, r *Report) {
	l := c.L
	r.rule("C19-R19", "E (the root test follows symbolic links like the walker)", "P1",
		"isDir decides with os.Stat (never os.Lstat)",
		"`--walker-root link-to-dir` is rejected or taken for another option while `--walker-root=link-to-dir` works")
	fn := l.Fn("fzf", "isDir")
	if fn == nil {
		r.unest("anchors", token.NoPos, nil, "anchor isDir", "cannot resolve")
		return
	}
	stat, lstat := 0, 0
	eachInstr(fn, func(in ssa.Instruction) {
		call, ok := in.(*ssa.Call)
		if !ok {
			return
		}
		switch calleeName(call.Common()) {
		case "os.Stat":
			stat++
		case "os.Lstat":
			lstat++
			r.bad(relName(fn)+":os.Lstat", call.Pos(), fn, "os.Stat", "isDir does not follow a symbolic link, the walker does")
		}
	})
	if lstat == 0 {
		r.ok(relName(fn)+":follows links", fn.Pos(), fn, "isDir uses os.Stat")
	}
	r.floor("os.Stat calls in isDir", stat, 1)
}

// c20r19: cancelPreview tells the watcher of the running preview command to kill it. Whether there is a command
// to kill does not depend on whether a preview WINDOW exists at that moment (--preview-window 0, a hidden pane:
// canPreview() can be true without a window; and hide-preview cancels after the window is gone) (round-11 mutant
// C20b11 returned early without a window: the superseded command was never killed).
func c20r19(c *Ctx, r *Report) {
	l := c.L
	r.rule("C20-R19", "A (the cancellation is unconditional)", "P1",
		"in Terminal.cancelPreview, the select that sends on Terminal.killChan is not control dependent on any condition",
		"a preview command is left running after its line lost the focus or the pane was hidden")
	fn := l.Fn("fzf", "(*Terminal).cancelPreview")
	if fn == nil {
		r.unest("anchors", token.NoPos, nil, "anchor Terminal.cancelPreview", "cannot resolve")
		return
	}
	cc := cdCache{}
	n := 0
	eachInstr(fn, func(in ssa.Instruction) {
		sel, ok := in.(*ssa.Select)
		if !ok {
			return
		}
		n++
		r.check(len(cc.of(sel)) == 0, fmt.Sprintf("%s:send #%d on killChan is unconditional", relName(fn), n), sel.Pos(), fn,
			"no condition in front of the select", "the cancellation is sent only under a condition")
	})
	r.floor("selects in cancelPreview", n, 1)
}

// c04r18: with --nth the matchers see one token at a time and report offsets relative to it; Pattern.iter makes
// them relative to the line by adding the token's prefixLength. The begin / end tie-break keys are computed from
// these offsets whether or not match positions were requested (round-11 mutant C04c11 applied the shift only
// under withPos: --nth 2 --tiebreak=begin ranked by field-relative offsets).
func c04r18(c *Ctx, r *Report) {
	l := c.L
	r.rule("C04-R18", "D (offsets are line-relative on every path)", "P1",
		"in Pattern.iter, both components of the Offset that is returned for a match are sums with Token.prefixLength, computed unconditionally (not merged from branches)",
		"the begin / end tie-break compares offsets inside different fields as if they were offsets in the line: equal scores come out in the wrong order")
	fn := l.Fn("fzf", "(*Pattern).iter")
	fPre := l.Field("fzf", "Token", "prefixLength")
	if fn == nil || fPre == nil {
		r.unest("anchors", token.NoPos, nil, "anchors Pattern.iter / Token.prefixLength", "cannot resolve")
		return
	}
	n := 0
	eachInstr(fn, func(in ssa.Instruction) {
		st, ok := in.(*ssa.Store)
		if !ok {
			return
		}
		ia, ok := st.Addr.(*ssa.IndexAddr)
		if !ok {
			return
		}
		al, ok := ia.X.(*ssa.Alloc)
		if !ok {
			return
		}
		if nt, ok := deref(al.Type()).(*types.Named); !ok || nt.Obj().Name() != "Offset" {
			return
		}
		if k, ok := st.Val.(*ssa.Const); ok && k != nil {
			return // the `no match` offset
		}
		n++
		good := false
		if bo, ok := st.Val.(*ssa.BinOp); ok && bo.Op == token.ADD {
			for _, side := range []ssa.Value{bo.X, bo.Y} {
				if f, _ := loadedField(side); f == fPre {
					good = true
				}
			}
		}
		r.check(good, fmt.Sprintf("%s:offset component #%d includes the token's prefix length", relName(fn), n), st.Pos(), fn,
			"res.Start/End + part.prefixLength", "the component is "+describe(st.Val)+": on some path the offset stays relative to the field")
	})
	r.floor("components of the match offset in Pattern.iter", n, 2)
}

// c09r27: the query is limited to maxPatternLength runes by Terminal.truncateQuery, which Terminal.Loop calls after
// the actions of a key. Actions bound to events (change, backward-eof, jump, jump-cancel) run later in the same
// iteration and can set the query as well, so the limit is applied again behind them (D108: it was not:
// `change:change-query(<1200 characters>)` left a 1200-rune query for good, and after a jump-bound change-query the
// next unrelated action cut the query — and changed the result list).
func c09r27(c *Ctx, r *Report) {
	l := c.L
	r.rule("C09-R27", "A (must-pass-through: the length limit follows every action list)", "P1",
		"in Terminal.Loop, every path from a call of doActions / doAction to the read of `changed` that decides about the search request passes a call of Terminal.truncateQuery, except paths on which Terminal.inputless was read as true (the query is put back there)",
		"a query set by an event-bound action exceeds the limit until some unrelated action cuts it: a navigation key changes the query and the list")
	loop := l.Fn("fzf", "(*Terminal).Loop")
	trunc := l.Fn("fzf", "(*Terminal).truncateQuery")
	fLess := l.Field("fzf", "Terminal", "inputless")
	if loop == nil || trunc == nil || fLess == nil {
		r.unest("anchors", token.NoPos, nil, "anchors Terminal.Loop / truncateQuery / inputless", "cannot resolve")
		return
	}
	cellNamed := func(v ssa.Value, name string) bool {
		u, ok := v.(*ssa.UnOp)
		if !ok || u.Op != token.MUL {
			return false
		}
		al, ok := u.X.(*ssa.Alloc)
		return ok && al.Comment == name
	}
	var reads []ssa.Instruction
	eachInstr(loop, func(in ssa.Instruction) {
		if u, ok := in.(*ssa.UnOp); ok && cellNamed(u, "changed") {
			reads = append(reads, u)
		}
	})
	if len(reads) == 0 {
		r.unest(relName(loop)+":read of changed", loop.Pos(), loop, "the read of `changed` at the end of the iteration", "not found")
		return
	}
	sort.Slice(reads, func(i, j int) bool { return reads[i].Pos() < reads[j].Pos() })
	final := reads[len(reads)-1]
	isTrunc := func(in ssa.Instruction) bool { return staticCallee(in) == trunc }
	edgeOK := func(from, to *ssa.BasicBlock) bool {
		if to.Dominates(from) {
			return false
		}
		iff, ok := from.Instrs[len(from.Instrs)-1].(*ssa.If)
		if !ok {
			return true
		}
		if f, _ := loadedField(iff.Cond); f == fLess {
			return to != from.Succs[0] // the inputless edge
		}
		return true
	}
	n := 0
	eachInstr(loop, func(in ssa.Instruction) {
		call, ok := in.(*ssa.Call)
		if !ok {
			return
		}
		if !cellNamed(call.Call.Value, "doActions") && !cellNamed(call.Call.Value, "doAction") {
			return
		}
		n++
		hit := pathAvoiding(call, func(x ssa.Instruction) bool { return x == final }, isTrunc, edgeOK)
		r.check(hit == nil, fmt.Sprintf("%s:action list #%d is followed by truncateQuery", relName(loop), n), call.Pos(), loop,
			"the length limit is applied before the query is compared and searched", "a path from this action list reaches the decision about the search request without truncateQuery")
	})
	r.floor("action lists dispatched by Terminal.Loop", n, 5)
}

// c16r22: an action argument in brackets ends where maskActionContents found its closing delimiter — followed by
// `+`, `,` or the end. In --bind a `,` starts the next binding, so the closing delimiter is always the last
// character of an action spec there. A POST body (and the output of transform) is a single action list: a `,` and
// text behind the closing delimiter is garbage, and parseActionList — which cuts the argument as
// spec[offset+1 : len(spec)-1] — has to notice it from the masked copy (D109: it did not: POST
// `change-query(x),y` was answered 200 and set the query to `x),`; with execute(...) the mangled text went to the shell).
func c16r22(c *Ctx, r *Report) {
	l := c.L
	r.rule("C16-R22", "C (the closing delimiter is the last character of the spec)", "P1",
		"in parseActionList, the slice expression that cuts a bracketed argument up to len(spec)-1 is control dependent on a test of the corresponding element of the masked copy (strings.Split(masked, \"+\"))",
		"a malformed action list that --bind rejects is accepted from the listener (or from transform) and something other than what was written is executed")
	fn := l.Fn("fzf", "parseActionList")
	if fn == nil || len(fn.Params) < 1 {
		r.unest("anchors", token.NoPos, nil, "anchor parseActionList", "cannot resolve")
		return
	}
	masked := fn.Params[0]
	// the split of the masked copy
	var split ssa.Value
	eachInstr(fn, func(in ssa.Instruction) {
		if call, ok := in.(*ssa.Call); ok && calleeName(call.Common()) == "strings.Split" && call.Call.Args[0] == ssa.Value(masked) {
			split = call
		}
	})
	if split == nil {
		r.unest(relName(fn)+":split of the masked copy", fn.Pos(), fn, "strings.Split(masked, \"+\")", "not found")
		return
	}
	cc := cdCache{}
	n := 0
	eachInstr(fn, func(in ssa.Instruction) {
		sl, ok := in.(*ssa.Slice)
		if !ok || sl.High == nil || sl.Low == nil {
			return
		}
		if bt, ok := sl.X.Type().Underlying().(*types.Basic); !ok || bt.Info()&types.IsString == 0 {
			return
		}
		// High = len(x) - 1, Low = something + 1
		hb, ok := sl.High.(*ssa.BinOp)
		if !ok || hb.Op != token.SUB || !isConstInt(hb.Y, 1) {
			return
		}
		lb, ok := sl.Low.(*ssa.BinOp)
		if !ok || lb.Op != token.ADD || !isConstInt(lb.Y, 1) {
			return
		}
		n++
		good := false
		for cond := range cc.of(sl) {
			for v := range backwardSlice(cond, func(*ssa.CallCommon) bool { return true }, nil) {
				if ia, ok := v.(*ssa.IndexAddr); ok && ia.X == split {
					good = true
				}
				if ix, ok := v.(*ssa.Index); ok && ix.X == split {
					good = true
				}
			}
		}
		r.check(good, fmt.Sprintf("%s:bracketed argument #%d ends at the end of the spec", relName(fn), n), sl.Pos(), fn,
			"the masked copy has been looked at", "the argument is cut at len(spec)-1 without checking that the closing delimiter is the last character")
	})
	r.floor("bracketed arguments cut in parseActionList", n, 1)
}

// c10r17: $FZF_NTH (and what change-nth cycles through) is RangesToString of the parsed ranges; fed back into
// --nth / change-nth it has to select the same fields. The only abbreviation it may make is `-1..` -> `-1`; the end
// of a range is printed whatever its begin is (D110: `..end` was dropped for every range that begins at -1:
// --nth=-1..-2, which selects nothing, was exported as FZF_NTH=-1, the last field).
func c10r17(c *Ctx, r *Report) {
	l := c.L
	r.rule("C10-R17", "E (writer/reader agreement of the range syntax)", "P1",
		"in RangesToString, the conversion of Range.end to text is not limited to ranges with a particular begin: its path conditions do not imply a comparison of Range.begin with a non-zero constant",
		"a script that feeds $FZF_NTH back into change-nth / transform-nth selects other fields than the running fzf does")
	fn := l.Fn("fzf", "RangesToString")
	fB := l.Field("fzf", "Range", "begin")
	fE := l.Field("fzf", "Range", "end")
	if fn == nil || fB == nil || fE == nil {
		r.unest("anchors", token.NoPos, nil, "anchors RangesToString / Range.begin / Range.end", "cannot resolve")
		return
	}
	pc := pathConds(fn)
	n := 0
	eachInstr(fn, func(in ssa.Instruction) {
		call, ok := in.(*ssa.Call)
		if !ok || calleeName(call.Common()) != "strconv.Itoa" {
			return
		}
		if f, _ := loadedField(call.Call.Args[0]); f != fE {
			return
		}
		// limited = every path has found Range.begin (un)equal to one non-zero constant, with one and the same outcome
		limited, reach := false, true
		for _, wantNE := range []bool{true, false} {
			h, rc := pc.Implies(call.Block(), func(lits []Lit) bool {
				for _, lt := range lits {
					x, op, k, ok := cmpInt(lt.Atom)
					if !ok || k == 0 || (op != token.EQL && op != token.NEQ) {
						continue
					}
					if f, _ := loadedField(x); f != fB {
						continue
					}
					if ((op == token.NEQ) == lt.Val) == wantNE {
						return true
					}
				}
				return false
			})
			reach = rc
			if h && rc {
				limited = true
			}
		}
		if !reach {
			return
		}
		// the plain `begin == end` case prints one number; it is not the range form
		n++
		r.check(!limited, fmt.Sprintf("%s:end of a range #%d is printed for every begin", relName(fn), n), call.Pos(), fn,
			"no restriction on Range.begin", "the end of a range is printed only for some values of its begin: the text does not parse back to the same range")
	})
	r.floor("places where RangesToString prints Range.end", n, 1)
}

// c15r31: what printPrompt writes behind the prompt is limited to the width of the input area: the query by
// updatePromptOffset, and the ghost text shown in place of an empty query by trimRight (D111: the ghost was
// printed whole: in a list window narrower than the ghost it ran over the border and the preview window, and its
// tail stayed there after typing).
func c15r31(c *Ctx, r *Report) {
	l := c.L
	r.rule("C15-R31", "C (the ghost text is clipped to the input area)", "P1",
		"in Terminal.printPrompt, every text printed that derives from Terminal.ghost has passed through Terminal.trimRight or Terminal.trimMessage",
		"a --ghost text wider than the input area is drawn over the border and the neighbouring window, and is not erased when the query is typed")
	fn := l.Fn("fzf", "(*Terminal).printPrompt")
	fG := l.Field("fzf", "Terminal", "ghost")
	if fn == nil || fG == nil {
		r.unest("anchors", token.NoPos, nil, "anchors Terminal.printPrompt / Terminal.ghost", "cannot resolve")
		return
	}
	n := 0
	eachInstr(fn, func(in ssa.Instruction) {
		call, ok := in.(*ssa.Call)
		if !ok || !call.Common().IsInvoke() || !strings.HasSuffix(call.Common().Method.Name(), "Print") {
			return
		}
		var text ssa.Value
		if len(call.Call.Args) > 0 {
			text = call.Call.Args[len(call.Call.Args)-1]
		}
		if text == nil {
			return
		}
		fromGhost, clipped := false, false
		for v := range backwardSlice(text, func(*ssa.CallCommon) bool { return true }, nil) {
			if f, _ := loadedField(v); f == fG {
				fromGhost = true
			}
			if c2, ok := v.(*ssa.Call); ok {
				if sc := c2.Common().StaticCallee(); sc != nil && (sc.Name() == "trimRight" || sc.Name() == "trimMessage") {
					clipped = true
				}
			}
		}
		if !fromGhost {
			return
		}
		n++
		r.check(clipped, fmt.Sprintf("%s:ghost text #%d is clipped", relName(fn), n), call.Pos(), fn,
			"through trimRight / trimMessage", "the ghost text is printed at its full length, whatever the width of the input area")
	})
	r.floor("prints of the ghost text in printPrompt", n, 1)
}

// c20r20: the watcher of a preview command posts reqPreviewDelayed when the command has shown nothing for 500 ms,
// and the render loop then paints "Loading ..". The final result of the same command can be posted just before
// (the watcher is told to stop only after cmd.Wait); for a command without output nothing repaints the pane
// afterwards. The render loop therefore remembers that the result on display is final and ignores a late
// "delayed" notice for it (D112: previewer.final existed but was never written or read: `--preview 'sleep 0.497'`
// left "Loading .." on the pane for good in 5 of 80 tries).
func c20r20(c *Ctx, r *Report) {
	l := c.L
	r.rule("C20-R20", "A (a late `delayed` notice does not replace a final result)", "P1",
		"in the render loop of Terminal.Loop, previewer.final is stored from the spinner of the result being displayed, and the call of printPreviewDelayed is control dependent on a read of previewer.final",
		"the preview pane says \"Loading ..\" although the command has ended and its (empty) output was already displayed")
	loop := l.Fn("fzf", "(*Terminal).Loop")
	ppd := l.Fn("fzf", "(*Terminal).printPreviewDelayed")
	fFinal := l.Field("fzf", "previewer", "final")
	fSpin := l.Field("fzf", "previewResult", "spinner")
	if loop == nil || ppd == nil || fFinal == nil || fSpin == nil {
		r.unest("anchors", token.NoPos, nil, "anchors Terminal.Loop / printPreviewDelayed / previewer.final / previewResult.spinner", "cannot resolve")
		return
	}
	cc := cdCache{}
	stores, calls := 0, 0
	for _, fn := range withClosures(loop) {
		eachInstr(fn, func(in ssa.Instruction) {
			if st, ok := in.(*ssa.Store); ok {
				if f, _ := fieldOf(st.Addr); f == fFinal {
					fromSpinner := false
					for v := range backwardSlice(st.Val, func(*ssa.CallCommon) bool { return true }, nil) {
						if f2, _ := loadedField(v); f2 == fSpin {
							fromSpinner = true
						}
						if fl, ok := v.(*ssa.Field); ok {
							if f3, _ := fieldOf(fl); f3 == fSpin {
								fromSpinner = true
							}
						}
					}
					if fromSpinner {
						stores++
					}
				}
			}
			if staticCallee(in) == ppd {
				calls++
				guarded := false
				for cond := range cc.of(in) {
					for v := range backwardSlice(cond, nil, nil) {
						if f, _ := loadedField(v); f == fFinal {
							guarded = true
						}
					}
				}
				r.check(guarded, fmt.Sprintf("%s:printPreviewDelayed call #%d looks at previewer.final", relName(loop), calls), in.Pos(), fn,
					"under a test of previewer.final", "\"Loading ..\" is painted for every delayed notice, also one that arrives after the final result of the same command")
			}
		})
	}
	r.check(stores >= 1, relName(loop)+":previewer.final follows the displayed result", loop.Pos(), loop,
		"stored from previewResult.spinner", "previewer.final is never set from the result that is displayed")
	r.floor("calls of printPreviewDelayed in the render loop", calls, 1)
}

// c17r31: the numeric options with an optional value (--gap[=N], --multi[=MAX], --sort[=N]) are counts; their
// siblings with a mandatory value (--tabstop, --scroll-off, --min-height, --header-lines, --tail …) reject a
// negative number with a message, and so does this helper (D113: it passed any integer through: `--sort=-1`
// silently switched sorting off, `--multi=-3` silently switched multi-selection off, `--gap=-5` meant 0).
func c17r31(c *Ctx, r *Report) {
	l := c.L
	r.rule("C17-R31", "C (an optional numeric value is range-checked like the mandatory ones)", "P1",
		"in the closure of parseOptions that converts an optional numeric value with atoi, every return of the converted number is control dependent on a comparison of that number with a constant",
		"a negative count is accepted without a message and means something else than what was written (--sort=-1 disables sorting, --multi=-3 disables multi-selection)")
	fn := l.Fn("fzf", "parseOptions")
	atoi := l.Fn("fzf", "atoi")
	if fn == nil || atoi == nil {
		r.unest("anchors", token.NoPos, nil, "anchors parseOptions / atoi", "cannot resolve")
		return
	}
	cc := cdCache{}
	n := 0
	for _, g := range withClosures(fn) {
		if g == fn {
			continue
		}
		var nums []ssa.Value
		eachInstr(g, func(in ssa.Instruction) {
			if ex, ok := in.(*ssa.Extract); ok && ex.Index == 0 {
				if call, ok := ex.Tuple.(*ssa.Call); ok && call.Common().StaticCallee() == atoi {
					nums = append(nums, ex)
				}
			}
		})
		if len(nums) == 0 {
			continue
		}
		// only the helper of the optional form: its one parameter is the default NUMBER (the helper for a mandatory
		// value takes the error message, and its callers check the sign themselves, each with its own message)
		if len(g.Params) != 1 {
			continue
		}
		if bt, ok := g.Params[0].Type().Underlying().(*types.Basic); !ok || bt.Info()&types.IsInteger == 0 {
			continue
		}
		eachInstr(g, func(in ssa.Instruction) {
			// returns are spilled because of the deferred reset of val: look at the stores of the number into the result cell
			var val ssa.Value
			var at ssa.Instruction
			switch x := in.(type) {
			case *ssa.Store:
				val, at = x.Val, x
			case *ssa.Return:
				if len(x.Results) > 0 {
					val, at = x.Results[0], x
				}
			}
			isNum := false
			for _, nv := range nums {
				if val == nv {
					isNum = true
				}
			}
			if !isNum {
				return
			}
			n++
			checked := false
			for cond := range cc.of(at) {
				if x, _, _, ok := cmpInt(cond); ok {
					for _, nv := range nums {
						if x == nv {
							checked = true
						}
					}
				}
			}
			r.check(checked, fmt.Sprintf("%s:optional numeric value #%d is range-checked", relName(fn), n), at.Pos(), g,
				"under a comparison of the number with a constant", "the converted number is returned whatever its sign")
		})
	}
	r.floor("returns of an optional numeric value", n, 1)
	// the attached short form (-mN) converts the number itself: the same check applies (D114: D113 had left it out)
	optsT := l.Named("fzf", "Options")
	m := 0
	eachInstr(fn, func(in ssa.Instruction) {
		st, ok := in.(*ssa.Store)
		if !ok {
			return
		}
		f, root := fieldOf(st.Addr)
		if f == nil || root == nil || !isPtrToNamed(root.Type(), optsT) {
			return
		}
		ex, ok := st.Val.(*ssa.Extract)
		if !ok || ex.Index != 0 {
			return
		}
		call, ok := ex.Tuple.(*ssa.Call)
		if !ok || call.Common().StaticCallee() != atoi {
			return
		}
		m++
		checked := false
		eachInstr(fn, func(in2 ssa.Instruction) {
			bo, ok := in2.(*ssa.BinOp)
			if !ok {
				return
			}
			switch bo.Op {
			case token.LSS, token.LEQ, token.GTR, token.GEQ:
			default:
				return
			}
			if _, isK := constIntVal(bo.Y); !isK {
				return
			}
			if bo.X == ssa.Value(ex) {
				checked = true
			}
			if g, _ := loadedField(bo.X); g == f {
				checked = true
			}
		})
		r.check(checked, fmt.Sprintf("%s:Options.%s converted in place (#%d) is range-checked", relName(fn), f.Name(), m), st.Pos(), fn,
			"compared with a constant", "Options."+f.Name()+" takes whatever atoi produced, negative numbers included")
	})
}

func round11(c *Ctx, r *Report, prop string) {
	defer round12(c, r, prop)
	switch prop {
	case "C01":
		c03r10(c, r) // word boundaries are decided by the class of the neighbouring character
		c01r16(c, r)
		c01r17(c, r)
	case "C02":
		c03r10(c, r)
	case "C03":
		c03r13(c, r)
		c01r17(c, r)
	case "C04":
		c04r18(c, r)
	case "C05":
		c05r18(c, r)
	case "C06":
		c06r17(c, r)
		c13r12(c, r) // the records of the end of the stream are searched: the newest request wins
	case "C07":
		c07r13(c, r)
		c07r14(c, r)
	case "C08":
		c08r30(c, r)
	case "C09":
		c09r26(c, r)
		c09r27(c, r)
		c08r23(c, r) // the selection is dropped when the list is replaced: mergers carry the revision they were made for
	case "C10":
		c10r15(c, r)
		c10r16(c, r)
		c10r17(c, r)
	case "C11":
		c11r26(c, r)
		c11r27(c, r)
	case "C14":
		c14r23(c, r)
		c14r24(c, r)
	case "C15":
		c15r28(c, r)
		c15r29(c, r)
		c15r30(c, r)
		c15r31(c, r)
	case "C16":
		c16r22(c, r)
	case "C17":
		c17r30(c, r)
		c17r31(c, r)
		c16r22(c, r) // an argument vector with trailing garbage behind an action argument is rejected
	case "C19":
		c19r18(c, r)
		c19r19(c, r)
	case "C20":
		c20r19(c, r)
		c20r20(c, r)
	}
}

var _ = ast.Inspect
var _ = types.Typ
var _ = sort.Strings
var _ = strings.Contains
