package main

import (
	"fmt"
	"go/token"
	"go/types"

	"golang.org/x/tools/go/ssa"
)

// C14-R5: abstract interpretation of a lower bound of len(r.buffer) along the CFG of the key decoder.
// State: L = proven lower bound of len(LightRenderer.buffer) at a program point (join = min).
// Refinement on branches `len(r.buffer) OP k`; a store `r.buffer = r.buffer[c:]` lowers L by c, any other
// store or a call that may store to the field resets L to 0. Every constant index k into r.buffer needs L > k.

func c14r5(c *Ctx, r *Report) {
	l := c.L
	r.rule("C14-R5", "abstract interpretation (interval lower bound of len(r.buffer)) on the CFG", "P1",
		"in the light renderer's key decoder every constant index r.buffer[k] and every constant reslice r.buffer[c:] is reached only with len(r.buffer) proven > k (>= c) by the dominating length tests, taking in-place shifts of the buffer into account",
		"a truncated escape sequence (split by a slow link / tmux) panics with index out of range and leaves the terminal in raw mode")
	fBuf := l.Field("tui", "LightRenderer", "buffer")
	if fBuf == nil {
		r.unest("anchors", token.NoPos, nil, "anchor LightRenderer.buffer", "cannot resolve")
		return
	}
	// functions that may store to the field (transitively)
	stores := map[*ssa.Function]bool{}
	for _, f := range l.AllFuncs() {
		eachInstr(f, func(in ssa.Instruction) {
			if st, ok := in.(*ssa.Store); ok {
				if fld, _ := fieldOf(st.Addr); fld == fBuf {
					stores[f] = true
				}
			}
		})
	}
	for changed := true; changed; {
		changed = false
		for _, f := range l.AllFuncs() {
			if stores[f] {
				continue
			}
			eachInstr(f, func(in ssa.Instruction) {
				ci, ok := in.(ssa.CallInstruction)
				if !ok {
					return
				}
				if _, isDefer := in.(*ssa.Defer); isDefer {
					return
				}
				fs, _ := calleesOf(ci.Common())
				for _, g := range fs {
					if stores[g] && !stores[f] {
						stores[f] = true
						changed = true
					}
				}
			})
		}
	}
	isBufLoad := func(v ssa.Value) *ssa.UnOp {
		u, ok := v.(*ssa.UnOp)
		if !ok || u.Op != token.MUL {
			return nil
		}
		if fld, _ := fieldOf(u.X); fld == fBuf {
			return u
		}
		return nil
	}
	// fresh: the load is valid at instruction `at` = same block, and no store to the field / storing call between
	fresh := func(ld *ssa.UnOp, at ssa.Instruction) bool {
		if ld.Block() != at.Block() {
			return false
		}
		i0, i1 := instrIndex(ld), instrIndex(at)
		if i0 > i1 {
			return false
		}
		for _, in := range ld.Block().Instrs[i0:i1] {
			if st, ok := in.(*ssa.Store); ok {
				if fld, _ := fieldOf(st.Addr); fld == fBuf {
					return false
				}
			}
			if ci, ok := in.(*ssa.Call); ok {
				fs, _ := calleesOf(ci.Common())
				for _, g := range fs {
					if stores[g] {
						return false
					}
				}
			}
		}
		return true
	}
	nIdx, nFns := 0, 0
	for _, f := range l.AllFuncs() {
		// does f index the buffer with a constant?
		has := false
		eachInstr(f, func(in ssa.Instruction) {
			switch x := in.(type) {
			case *ssa.IndexAddr:
				if isBufLoad(x.X) != nil {
					if _, ok := constIntVal(x.Index); ok {
						has = true
					}
				}
			}
		})
		if !has {
			continue
		}
		nFns++
		r.analysed(f)
		const top = 1 << 30
		in := map[*ssa.BasicBlock]int{}
		visited := map[*ssa.BasicBlock]bool{}
		// refine(L, edge p->s)
		refine := func(L int, p, s *ssa.BasicBlock) int {
			ifi, ok := p.Instrs[len(p.Instrs)-1].(*ssa.If)
			if !ok || p.Succs[0] == p.Succs[1] {
				return L
			}
			atom, neg := normCond(ifi.Cond)
			truth := (s == p.Succs[0]) != neg
			x, op, k, ok := cmpInt(atom)
			if !ok {
				return L
			}
			call, ok := x.(*ssa.Call)
			if !ok || calleeName(call.Common()) != "builtin.len" {
				return L
			}
			ld := isBufLoad(call.Call.Args[0])
			if ld == nil || !fresh(ld, ifi) {
				return L
			}
			lb := -1
			switch op {
			case token.LSS: // len < k
				if !truth {
					lb = int(k)
				}
			case token.LEQ:
				if !truth {
					lb = int(k) + 1
				}
			case token.GTR:
				if truth {
					lb = int(k) + 1
				}
			case token.GEQ:
				if truth {
					lb = int(k)
				}
			case token.EQL:
				if truth {
					lb = int(k)
				} else if k == 0 {
					lb = 1
				}
			case token.NEQ:
				if !truth {
					lb = int(k)
				} else if k == 0 {
					lb = 1
				}
			}
			if lb > L {
				return lb
			}
			return L
		}
		type viol struct {
			in   ssa.Instruction
			need int
			have int
			what string
		}
		var final []viol
		var finalOK []viol
		for iter := 0; iter < 200; iter++ {
			changed := false
			final, finalOK = nil, nil
			for _, b := range f.Blocks {
				L := top
				if b == f.Blocks[0] {
					L = 0
				} else {
					any := false
					for _, p := range b.Preds {
						if !visited[p] {
							continue
						}
						any = true
						o := refine(outOf(p, in, f, fBuf, stores, isBufLoad, fresh), p, b)
						if o < L {
							L = o
						}
					}
					if !any {
						continue
					}
				}
				if !visited[b] || in[b] != L {
					visited[b] = true
					in[b] = L
					changed = true
				}
				// walk the block for checks
				cur := L
				for _, ins := range b.Instrs {
					switch x := ins.(type) {
					case *ssa.IndexAddr:
						if ld := isBufLoad(x.X); ld != nil {
							if k, ok := constIntVal(x.Index); ok {
								have := cur
								if !fresh(ld, ins) {
									have = 0
								}
								v := viol{ins, int(k) + 1, have, fmt.Sprintf("r.buffer[%d]", k)}
								if have >= int(k)+1 {
									finalOK = append(finalOK, v)
								} else {
									final = append(final, v)
								}
							}
						}
					case *ssa.Slice:
						if ld := isBufLoad(x.X); ld != nil && x.Low != nil {
							if k, ok := constIntVal(x.Low); ok && k > 0 {
								have := cur
								if !fresh(ld, ins) {
									have = 0
								}
								v := viol{ins, int(k), have, fmt.Sprintf("r.buffer[%d:]", k)}
								if have >= int(k) {
									finalOK = append(finalOK, v)
								} else {
									final = append(final, v)
								}
							}
						}
					}
					cur = stepLen(cur, ins, fBuf, stores, isBufLoad, fresh)
				}
			}
			if !changed {
				break
			}
		}
		for _, v := range finalOK {
			nIdx++
			r.ok(fmt.Sprintf("%s:%s", relName(f), v.what), v.in.Pos(), f, fmt.Sprintf("%s with len(r.buffer) >= %d proven (needs >= %d)", v.what, v.have, v.need))
		}
		for _, v := range final {
			nIdx++
			r.bad(fmt.Sprintf("%s:%s", relName(f), v.what), v.in.Pos(), f, v.what, fmt.Sprintf("only len(r.buffer) >= %d is established here, %d needed", v.have, v.need))
		}
	}
	r.floor("constant indexes into r.buffer", nIdx, 25)
	r.floor("decoder functions analysed", nFns, 2)
	_ = types.Typ
}

// stepLen: effect of one instruction on the lower bound.
func stepLen(cur int, ins ssa.Instruction, fBuf *types.Var, stores map[*ssa.Function]bool, isBufLoad func(ssa.Value) *ssa.UnOp, fresh func(*ssa.UnOp, ssa.Instruction) bool) int {
	switch x := ins.(type) {
	case *ssa.Store:
		if fld, _ := fieldOf(x.Addr); fld == fBuf {
			if sl, ok := x.Val.(*ssa.Slice); ok && sl.High == nil && sl.Max == nil {
				if ld := isBufLoad(sl.X); ld != nil && fresh(ld, sl) {
					if k, ok := constIntVal(sl.Low); ok {
						n := cur - int(k)
						if n < 0 {
							n = 0
						}
						return n
					}
				}
			}
			return 0
		}
	case *ssa.Call:
		fs, _ := calleesOf(x.Common())
		for _, g := range fs {
			if stores[g] {
				return 0
			}
		}
	}
	return cur
}

func outOf(p *ssa.BasicBlock, in map[*ssa.BasicBlock]int, f *ssa.Function, fBuf *types.Var, stores map[*ssa.Function]bool, isBufLoad func(ssa.Value) *ssa.UnOp, fresh func(*ssa.UnOp, ssa.Instruction) bool) int {
	cur := in[p]
	for _, ins := range p.Instrs {
		cur = stepLen(cur, ins, fBuf, stores, isBufLoad, fresh)
	}
	return cur
}
