package main

// Rules added after the sixth round of independent mutants.

import (
	"fmt"
	"go/token"
	"go/types"
	"regexp/syntax"
	"sort"
	"strings"

	"golang.org/x/tools/go/ssa"
)

// c05r11: every scratch slab is made the same way.
func c05r11(c *Ctx, r *Report) {
	l := c.L
	r.rule("C05-R11", "E (sibling agreement of constructor calls) + D (parameter roles)", "P1",
		"util.MakeSlab sizes the int16 arena from its first and the int32 arena from its second parameter, and every call of MakeSlab in the module passes the same two constants: FuzzyMatchV2 chooses between the optimal and the greedy algorithm by cap(slab.I16), so ranking (matcher slabs) and highlighting (the terminal's slab) must not differ in it",
		"a line is ranked with one alignment and highlighted with another, or long lines silently fall back to the greedy score")
	ms := l.Fn("util", "MakeSlab")
	f16 := l.Field("util", "Slab", "I16")
	f32 := l.Field("util", "Slab", "I32")
	if ms == nil || f16 == nil || f32 == nil {
		r.unest("anchors", token.NoPos, nil, "anchors util.MakeSlab / Slab.I16 / Slab.I32", "cannot resolve")
		return
	}
	role := map[*types.Var]int{f16: 0, f32: 1}
	nSt := 0
	eachInstr(ms, func(in ssa.Instruction) {
		st, ok := in.(*ssa.Store)
		if !ok {
			return
		}
		f, _ := fieldOf(st.Addr)
		want, ok := role[f]
		if !ok {
			return
		}
		nSt++
		mk, isMake := st.Val.(*ssa.MakeSlice)
		r.check(isMake && mk.Len == ssa.Value(ms.Params[want]), "util.MakeSlab:"+f.Name()+" sized by parameter "+ms.Params[want].Name(), st.Pos(), ms, f.Name()+" = make(.., "+ms.Params[want].Name()+")", "the arena is sized by the other parameter")
	})
	r.floor("arena stores in MakeSlab", nSt, 2)
	type site struct {
		a, b string
		in   ssa.Instruction
		fn   *ssa.Function
	}
	var sites []site
	for _, fn := range l.AllFuncs() {
		if fn.Pkg == nil || !isModulePkg(fn.Pkg.Pkg) {
			continue
		}
		eachInstr(fn, func(in ssa.Instruction) {
			call, ok := in.(*ssa.Call)
			if !ok || call.Common().StaticCallee() != ms {
				return
			}
			d := func(v ssa.Value) string {
				if k, isc := constIntVal(v); isc {
					return fmt.Sprint(k)
				}
				return "non-constant " + v.Name()
			}
			sites = append(sites, site{d(call.Call.Args[0]), d(call.Call.Args[1]), in, fn})
		})
	}
	r.floor("MakeSlab call sites", len(sites), 3)
	for i, s := range sites {
		r.check(s.a == sites[0].a && s.b == sites[0].b, fmt.Sprintf("%s:MakeSlab #%d sizes", relName(s.fn), i), s.in.Pos(), s.fn, fmt.Sprintf("MakeSlab(%s, %s) like every other slab", s.a, s.b), fmt.Sprintf("MakeSlab(%s, %s), elsewhere MakeSlab(%s, %s)", s.a, s.b, sites[0].a, sites[0].b))
	}
}

// c04r11: the term loop of BuildPattern stops early only once a positive term was seen.
func c04r11(c *Ctx, r *Report) {
	l := c.L
	r.rule("C04-R11", "A (path condition of the early exits)", "P1",
		"Pattern.sortable is true iff the query has a term that is not negated; BuildPattern may leave its loop over the terms before the end only on paths where `sortable` has already been set: every jump out of the term loops that is not the loops' own exhaustion happens under sortable == true",
		"a query that starts with a negated term and continues with a positive one is treated as unsortable: matches come out in input order instead of rank order")
	bp := l.Fn("fzf", "BuildPattern")
	fSortable := l.Field("fzf", "Pattern", "sortable")
	if bp == nil || fSortable == nil {
		r.unest("anchors", token.NoPos, nil, "anchors BuildPattern / Pattern.sortable", "cannot resolve")
		return
	}
	// the local that ends up in Pattern.sortable
	var sortableVal ssa.Value
	eachInstr(bp, func(in ssa.Instruction) {
		if st, ok := in.(*ssa.Store); ok {
			if f, _ := fieldOf(st.Addr); f == fSortable {
				sortableVal = st.Val
			}
		}
	})
	if sortableVal == nil {
		r.unest("fzf.BuildPattern:sortable", bp.Pos(), bp, "the value stored into Pattern.sortable", "not found")
		return
	}
	web := map[ssa.Value]bool{}
	var grow func(v ssa.Value)
	grow = func(v ssa.Value) {
		if web[v] {
			return
		}
		web[v] = true
		if p, ok := v.(*ssa.Phi); ok {
			for _, e := range p.Edges {
				grow(e)
			}
		}
	}
	grow(sortableVal)
	// natural loops: header h with a back edge p->h (h dominates p); body = blocks dominated by h that reach p
	pc := pathConds(bp)
	type loop struct {
		hdr  *ssa.BasicBlock
		body map[*ssa.BasicBlock]bool
	}
	var loops []loop
	for _, h := range bp.Blocks {
		body := map[*ssa.BasicBlock]bool{}
		for _, p := range h.Preds {
			if !h.Dominates(p) {
				continue
			}
			// backwards from p up to h
			work := []*ssa.BasicBlock{p}
			body[h] = true
			for len(work) > 0 {
				x := work[len(work)-1]
				work = work[:len(work)-1]
				if body[x] {
					continue
				}
				body[x] = true
				work = append(work, x.Preds...)
			}
		}
		if len(body) > 0 {
			loops = append(loops, loop{h, body})
		}
	}
	// the loops in which `sortable` is carried
	isHeader := map[*ssa.BasicBlock]bool{}
	for _, lp := range loops {
		isHeader[lp.hdr] = true
	}
	n := 0
	for _, lp := range loops {
		carries := false
		for v := range web {
			if p, ok := v.(*ssa.Phi); ok && p.Block() == lp.hdr {
				carries = true
			}
		}
		if !carries {
			continue
		}
		for b := range lp.body {
			if isHeader[b] {
				continue // exhaustion of this or an inner loop
			}
			for _, t := range b.Succs {
				if lp.body[t] {
					continue
				}
				n++
				holds := false
				for d := b; d != nil && !holds; d = d.Idom() {
					ok, _ := pc.Implies(d, func(lits []Lit) bool {
						return hasLit(lits, func(a ssa.Value, v bool) bool { return web[a] && v })
					})
					if ok {
						holds = true
					}
				}
				if !holds {
					// the edge itself may carry the fact (if sortable { break })
					if ok, _ := pc.ImpliesEdge(b, t, func(lits []Lit) bool {
						return hasLit(lits, func(a ssa.Value, v bool) bool { return web[a] && v })
					}); ok {
						holds = true
					}
				}
				r.check(holds, fmt.Sprintf("fzf.BuildPattern:early exit #%d under sortable", n), b.Instrs[len(b.Instrs)-1].Pos(), bp, "the loop over the terms is left early only after a positive term was seen", "the loop can be left before any positive term was looked at: sortable stays false")
			}
		}
	}
	r.floor("early exits of the term loops in BuildPattern", n, 1)
}

// c04r12: every request to the matcher carries the live sort switch.
func c04r12(c *Ctx, r *Report) {
	l := c.L
	r.rule("C04-R12", "E (sibling agreement of call sites)", "P1",
		"all calls of Matcher.Reset in Run pass, as the sort argument, a load of one and the same variable — the one toggle-sort updates — and not a value recomputed from the start-up options",
		"after toggle-sort the next batch of input flips the list back to the start-up sort mode")
	run := l.Fn("fzf", "Run")
	reset := l.Fn("fzf", "(*Matcher).Reset")
	if run == nil || reset == nil {
		r.unest("anchors", token.NoPos, nil, "anchors Run / Matcher.Reset", "cannot resolve")
		return
	}
	sortIdx := -1
	for i, p := range reset.Params {
		if p.Name() == "sort" {
			sortIdx = i
		}
	}
	if sortIdx < 0 {
		r.unest("fzf.Matcher.Reset:sort", reset.Pos(), reset, "parameter `sort`", "not found")
		return
	}
	var cells []ssa.Value
	var at []ssa.Instruction
	var fns []*ssa.Function
	for _, fn := range withClosures(run) {
		eachInstr(fn, func(in ssa.Instruction) {
			call, ok := in.(*ssa.Call)
			if !ok || !callIs(call.Common(), reset) {
				return
			}
			arg := callArgs(call.Common())[sortIdx]
			var cell ssa.Value
			if u, ok := arg.(*ssa.UnOp); ok && u.Op == token.MUL {
				cell = cellRoot(u.X)
			}
			cells = append(cells, cell)
			at = append(at, in)
			fns = append(fns, fn)
		})
	}
	r.floor("Matcher.Reset call sites in Run", len(cells), 2)
	for i := range cells {
		r.check(cells[i] != nil && cells[i] == cells[0], fmt.Sprintf("%s:Reset #%d sort argument", relName(fns[i]), i), at[i].Pos(), fns[i], "the sort argument is a load of the shared `sort` variable", "this call passes something else than the variable the other calls pass")
	}
}

// c06r7: both readers split records the same way.
func c06r7(c *Ctx, r *Report) {
	l := c.L
	r.rule("C06-R7", "E (sibling agreement of constructor calls by parameter role)", "P1",
		"every call of NewReader passes Options.ReadZero for the parameter that selects NUL-delimited records (delimNil)",
		"--read0 is ignored on one input path (the streaming filter): records are cut at newlines and NUL bytes stay inside items")
	nr := l.Fn("fzf", "NewReader")
	fRZ := l.Field("fzf", "Options", "ReadZero")
	if nr == nil || fRZ == nil {
		r.unest("anchors", token.NoPos, nil, "anchors NewReader / Options.ReadZero", "cannot resolve")
		return
	}
	idx := -1
	for i, p := range nr.Params {
		if p.Name() == "delimNil" {
			idx = i
		}
	}
	if idx < 0 {
		r.unest("fzf.NewReader:delimNil", nr.Pos(), nr, "parameter `delimNil`", "not found")
		return
	}
	n := 0
	for _, fn := range l.AllFuncs() {
		if fn.Pkg != l.pkg("fzf") {
			continue
		}
		eachInstr(fn, func(in ssa.Instruction) {
			call, ok := in.(*ssa.Call)
			if !ok || call.Common().StaticCallee() != nr {
				return
			}
			n++
			f, _ := loadedField(call.Call.Args[idx])
			r.check(f == fRZ, fmt.Sprintf("%s:NewReader #%d delimNil", relName(fn), n), in.Pos(), fn, "delimNil = opts.ReadZero", "delimNil is not opts.ReadZero at this call site")
		})
	}
	r.floor("NewReader call sites", n, 2)
}

// c02r7: the saturating length memo is a rank key, nothing else.
func c02r7(c *Ctx, r *Report) {
	l := c.L
	r.rule("C02-R7", "B (reader census)", "P1",
		"Chars.trimLength — a 16-bit memo that saturates at 65535 — is read only by Chars.TrimLength, and TrimLength is called only to build rank keys (buildResult, via Item.TrimLength): no offset or whitespace count is derived from it",
		"on lines longer than 65535 characters that were ranked once, suffix / whole-line terms are answered from the saturated memo: false non-matches and matches at offset 65535")
	fTL := l.Field("util", "Chars", "trimLength")
	tl := l.Fn("util", "(*Chars).TrimLength")
	itl := l.Fn("fzf", "(*Item).TrimLength")
	br := l.Fn("fzf", "buildResult")
	if fTL == nil || tl == nil || itl == nil || br == nil {
		r.unest("anchors", token.NoPos, nil, "anchors Chars.trimLength / TrimLength / Item.TrimLength / buildResult", "cannot resolve")
		return
	}
	n := 0
	for _, fn := range l.AllFuncs() {
		if fn.Pkg == nil || !isModulePkg(fn.Pkg.Pkg) {
			continue
		}
		eachInstr(fn, func(in ssa.Instruction) {
			if u, ok := in.(*ssa.UnOp); ok && u.Op == token.MUL {
				if f, _ := fieldOf(u.X); f == fTL {
					n++
					isString := fn.Name() == "String"
					r.check(fn == tl || isString, relName(fn)+":reads Chars.trimLength", u.Pos(), fn, "the memo is read by TrimLength (and the debug String method) only", "the saturating memo is used outside TrimLength")
				}
			}
			if call, ok := in.(*ssa.Call); ok {
				if call.Common().StaticCallee() == tl {
					r.check(fn == itl, relName(fn)+":calls Chars.TrimLength", call.Pos(), fn, "Chars.TrimLength is reached through Item.TrimLength only", "Chars.TrimLength is used directly")
				}
				if call.Common().StaticCallee() == itl {
					r.check(fn == br, relName(fn)+":calls Item.TrimLength", call.Pos(), fn, "Item.TrimLength is called by buildResult only (rank keys)", "the trim length memo is used outside the ranking code")
				}
			}
		})
	}
	r.floor("reads of Chars.trimLength", n, 1)
}

// c09r8: the terminal adopts the revision of the list it shows.
func c09r8(c *Ctx, r *Report) {
	l := c.L
	r.rule("C09-R8", "P (must-pass-through)", "P1",
		"in Terminal.UpdateList, on every path on which the new merger's revision differs from Terminal.revision, the new revision is stored into Terminal.revision before the function returns",
		"after one reload every later update looks like another reload: the selection is wiped on each query change and tracking stops")
	ul := l.Fn("fzf", "(*Terminal).UpdateList")
	fRev := l.Field("fzf", "Terminal", "revision")
	if ul == nil || fRev == nil {
		r.unest("anchors", token.NoPos, nil, "anchors UpdateList / Terminal.revision", "cannot resolve")
		return
	}
	n := 0
	eachInstr(ul, func(in ssa.Instruction) {
		iff, ok := in.(*ssa.If)
		if !ok {
			return
		}
		b, ok := iff.Cond.(*ssa.BinOp)
		if !ok || (b.Op != token.NEQ && b.Op != token.EQL) {
			return
		}
		f1, _ := loadedField(b.X)
		f2, _ := loadedField(b.Y)
		if f1 != fRev && f2 != fRev {
			return
		}
		n++
		differ := iff.Block().Succs[0]
		if b.Op == token.EQL {
			differ = iff.Block().Succs[1]
		}
		isStore := func(i2 ssa.Instruction) bool {
			st, ok := i2.(*ssa.Store)
			if !ok {
				return false
			}
			f, _ := fieldOf(st.Addr)
			return f == fRev
		}
		var bad ssa.Instruction
		if !isStore(differ.Instrs[0]) {
			bad = pathAvoiding(differ.Instrs[0], isReturn, isStore, nil)
		}
		r.check(bad == nil, "fzf.UpdateList:new revision adopted", iff.Pos(), ul, "every path through the `revision differs` branch stores the new revision", "a path leaves UpdateList with the old revision although the list was replaced")
	})
	r.floor("revision comparisons in UpdateList", n, 1)
}

// c07r6: nothing runs after the action that ends the session.
func c07r6(c *Ctx, r *Report) {
	l := c.L
	r.rule("C07-R6", "P (must-pass-through between consecutive actions)", "P1",
		"in the event loop, between one call of the action interpreter and the next one of the same action list, the `looping` flag — cleared by accept/abort/close — is tested: no action of a list is interpreted after the one that ended the session",
		"accept+up prints the neighbouring item, accept+clear-query prints an empty query, abort+accept exits 0 with output")
	loop := l.Fn("fzf", "(*Terminal).Loop")
	if loop == nil {
		r.unest("anchors", token.NoPos, nil, "anchor Terminal.Loop", "cannot resolve")
		return
	}
	// `looping`: the captured bool that some closure stores false into under a comparison with reqClose / reqQuit
	cClose, cQuit := l.Const("fzf", "reqClose"), l.Const("fzf", "reqQuit")
	var looping ssa.Value
	for _, fn := range withClosures(loop) {
		pc := pathConds(fn)
		eachInstr(fn, func(in ssa.Instruction) {
			st, ok := in.(*ssa.Store)
			if !ok {
				return
			}
			if bv, isb := constBool(st.Val); !isb || bv {
				return
			}
			cell := cellRoot(st.Addr)
			if cell == nil {
				return
			}
			for _, dj := range pc.At(st.Block()) {
				if hasLit(dj, func(a ssa.Value, v bool) bool {
					_, op, k, ok := cmpInt(a)
					if !ok || op != token.EQL || !v {
						return false
					}
					k1, _ := constInt(cClose)
					k2, _ := constInt(cQuit)
					return k == k1 || k == k2
				}) {
					looping = cell
				}
			}
		})
	}
	if looping == nil || cClose == nil || cQuit == nil {
		r.unest("fzf.Loop:looping", loop.Pos(), loop, "the flag cleared when reqClose/reqQuit is requested", "not found")
		return
	}
	n := 0
	for _, fn := range withClosures(loop) {
		// calls through a local closure variable `doAction`: calls whose callee is a closure of Loop taking *action
		var calls []ssa.Instruction
		eachInstr(fn, func(in ssa.Instruction) {
			call, ok := in.(*ssa.Call)
			if !ok {
				return
			}
			fns, ok := calleesOf(call.Common())
			if !ok || len(fns) != 1 || fns[0].Parent() == nil || rootFn(fns[0]) != loop {
				return
			}
			sig := fns[0].Signature
			if sig.Params().Len() != 1 || sig.Results().Len() != 1 {
				return
			}
			if p, ok := sig.Params().At(0).Type().(*types.Pointer); !ok || p.Elem().String() != modPath+"/src.action" {
				return
			}
			calls = append(calls, in)
		})
		for _, cl := range calls {
			// only calls inside a loop: can reach themselves
			if !canReachSelf(cl) {
				continue
			}
			n++
			isTest := func(in ssa.Instruction) bool {
				iff, ok := in.(*ssa.If)
				if !ok {
					return false
				}
				for v := range backwardSlice(iff.Cond, nil, nil) {
					if u, ok := v.(*ssa.UnOp); ok && u.Op == token.MUL && cellRoot(u.X) == looping {
						return true
					}
				}
				return false
			}
			bad := pathAvoiding(cl, func(in ssa.Instruction) bool { return in == cl }, isTest, nil)
			r.check(bad == nil, fmt.Sprintf("%s:`looping` tested between two actions", relName(fn)), cl.Pos(), fn, "the next action of the list is interpreted only after `looping` was tested", "the next action runs although the previous one may have ended the session")
		}
	}
	r.floor("action-interpreter calls inside a loop", n, 1)
}

func canReachSelf(in ssa.Instruction) bool {
	b := in.Block()
	seen := map[*ssa.BasicBlock]bool{}
	work := append([]*ssa.BasicBlock{}, b.Succs...)
	for len(work) > 0 {
		x := work[len(work)-1]
		work = work[:len(work)-1]
		if x == b {
			return true
		}
		if seen[x] {
			continue
		}
		seen[x] = true
		work = append(work, x.Succs...)
	}
	return false
}

// oneSlabPerWorkerShared: C05-R1 run for another property.
func oneSlabPerWorkerShared(c *Ctx, r *Report) {
	r.rule("C05-R1", "B", "P1",
		"one slab per worker goroutine; Matcher.slab accessed only by scan and the constructor; the streaming filter's slab only under its mutex",
		"two goroutines scribble on one scratch matrix: results depend on scheduling")
	oneSlabPerWorker(c, r)
}

// c06r8: item counts computed from the chunk size account for a partial chunk at both ends.
func c06r8(c *Ctx, r *Report) {
	l := c.L
	r.rule("C06-R8", "D (shape of the closed formula)", "P1",
		"wherever the number of items of a chunk list is computed with the chunk size as a factor (instead of summing the chunks' counts), the sum also contains the count of the first chunk and the count of the last chunk: --tail trimming leaves a partial FIRST chunk, appending a partial LAST one",
		"the list length is too large after a --tail trim: phantom empty entries at the end, everything shifted under --tac, or an index out of range")
	cs := l.Const("fzf", "chunkSize")
	fCount := l.Field("fzf", "Chunk", "count")
	if cs == nil || fCount == nil {
		r.unest("anchors", token.NoPos, nil, "anchors chunkSize / Chunk.count", "cannot resolve")
		return
	}
	size, _ := constInt(cs)
	n := 0
	for _, fn := range l.AllFuncs() {
		if fn.Pkg != l.pkg("fzf") {
			continue
		}
		eachInstr(fn, func(in ssa.Instruction) {
			m, ok := in.(*ssa.BinOp)
			if !ok || m.Op != token.MUL {
				return
			}
			var other ssa.Value
			if isConstInt(m.X, size) {
				other = m.Y
			} else if isConstInt(m.Y, size) {
				other = m.X
			} else {
				return
			}
			// the other factor counts chunks: derives from len(<slice of *Chunk>)
			fromLen := false
			for v := range backwardSlice(other, nil, nil) {
				if call, ok := v.(*ssa.Call); ok && calleeName(call.Common()) == "builtin.len" {
					if sl, ok := call.Call.Args[0].Type().Underlying().(*types.Slice); ok && types.TypeString(sl.Elem(), nil) == "*"+modPath+"/src.Chunk" {
						fromLen = true
					}
				}
			}
			if !fromLen {
				return
			}
			n++
			// the sum the product is part of
			terms := map[ssa.Value]bool{}
			var up func(v ssa.Value)
			top := ssa.Value(m)
			up = func(v ssa.Value) {
				if v.Referrers() == nil {
					return
				}
				for _, ref := range *v.Referrers() {
					if b, ok := ref.(*ssa.BinOp); ok && b.Op == token.ADD {
						top = b
						up(b)
					}
				}
			}
			up(m)
			var down func(v ssa.Value)
			down = func(v ssa.Value) {
				if b, ok := v.(*ssa.BinOp); ok && b.Op == token.ADD {
					down(b.X)
					down(b.Y)
					return
				}
				terms[v] = true
			}
			down(top)
			first, last := false, false
			for t := range terms {
				f, base := loadedField(t)
				if f != fCount || base == nil {
					continue
				}
				// base: *(&chunks[i])
				if u, ok := base.(*ssa.UnOp); ok {
					if ia, ok := u.X.(*ssa.IndexAddr); ok {
						if isConstInt(ia.Index, 0) {
							first = true
						} else if b, ok := ia.Index.(*ssa.BinOp); ok && b.Op == token.SUB && isConstInt(b.Y, 1) {
							last = true
						}
					}
				}
			}
			r.check(first && last, fmt.Sprintf("%s:count formula with chunkSize", relName(fn)), m.Pos(), fn, "first.count + chunkSize*k + last.count", fmt.Sprintf("the formula has first.count=%v last.count=%v: a partial chunk at the other end is counted as full", first, last))
		})
	}
	r.floor("count formulas with chunkSize as a factor", n, 1)
}

// c12r7: the flags gathered over all placeholders of a template only ever turn on.
func c12r7(c *Ctx, r *Report) {
	l := c.L
	r.rule("C12-R7", "A (monotone accumulation over a loop)", "P1",
		"hasPreviewFlags accumulates its boolean results over all placeholders of the template: each result is a loop-carried value whose new value on every iteration is either the old one or the constant true",
		"the last placeholder decides: `{+} {}` no longer counts as using the selection, so {+} expands to the cursor item")
	f := l.Fn("fzf", "hasPreviewFlags")
	if f == nil {
		r.unest("anchors", token.NoPos, nil, "anchor hasPreviewFlags", "cannot resolve")
		return
	}
	n := 0
	for _, b := range f.Blocks {
		ret, ok := b.Instrs[len(b.Instrs)-1].(*ssa.Return)
		if !ok {
			continue
		}
		for i := range ret.Results {
			res := retResult(ret, i)
			phi, ok := res.(*ssa.Phi)
			if !ok {
				continue
			}
			n++
			okMono := true
			seen := map[ssa.Value]bool{}
			pcf := pathConds(f)
			var walk func(v ssa.Value)
			walk = func(v ssa.Value) {
				if seen[v] {
					return
				}
				seen[v] = true
				switch x := v.(type) {
				case *ssa.Phi:
					for j, e := range x.Edges {
						if _, isPhi := e.(*ssa.Phi); isPhi {
							walk(e)
							continue
						}
						if _, isConst := e.(*ssa.Const); isConst {
							continue // initial false or accumulated true
						}
						// `old || x`: the non-constant operand is taken only where the old value is false
						underOldFalse := false
						for _, dj := range pcf.At(x.Block().Preds[j]) {
							if hasLit(dj, func(a ssa.Value, v bool) bool {
								_, isP := a.(*ssa.Phi)
								return isP && !v && isBoolType(a)
							}) {
								underOldFalse = true
							} else {
								underOldFalse = false
								break
							}
						}
						if !underOldFalse {
							okMono = false
						}
					}
				case *ssa.Const:
				default:
					okMono = false
				}
			}
			walk(phi)
			r.check(okMono, fmt.Sprintf("fzf.hasPreviewFlags:result %d only turns on", i), ret.Pos(), f, "the flag is the OR over all placeholders", "the flag is overwritten by a later placeholder")
		}
	}
	r.floor("accumulated flags of hasPreviewFlags", n, 2)
}

// c14r9: the flags that guard the mode switches are settled before the modes are switched on.
func c14r9(c *Ctx, r *Report) {
	l := c.L
	r.rule("C14-R9", "P (ordering of flag writes and mode switches)", "P1",
		"the fields of LightRenderer that enableModes/disableModes test (mouse reporting etc.) are not written — directly or in a callee — after enableModes was called in Init: what is switched off at exit is decided by the same flag values that decided what was switched on",
		"a flag is cleared after the mode was switched on (no answer to the cursor query): exit skips the matching off-sequence and mouse reporting stays on in the user's shell")
	en := l.Fn("tui", "(*LightRenderer).enableModes")
	dis := l.Fn("tui", "(*LightRenderer).disableModes")
	init := l.Fn("tui", "(*LightRenderer).Init")
	if en == nil || dis == nil || init == nil {
		r.unest("anchors", token.NoPos, nil, "anchors LightRenderer.enableModes / disableModes / Init", "cannot resolve")
		return
	}
	flags := map[*types.Var]bool{}
	for _, fn := range []*ssa.Function{en, dis} {
		eachInstr(fn, func(in ssa.Instruction) {
			iff, ok := in.(*ssa.If)
			if !ok {
				return
			}
			for v := range backwardSlice(iff.Cond, nil, nil) {
				if f, _ := loadedField(v); f != nil {
					flags[f] = true
				}
			}
		})
	}
	r.floor("flags tested by enableModes/disableModes", len(flags), 1)
	writes := func(fn *ssa.Function) []*types.Var {
		var out []*types.Var
		for g := range reachableFns(fn) {
			eachInstr(g, func(in ssa.Instruction) {
				if st, ok := in.(*ssa.Store); ok {
					if f, _ := fieldOf(st.Addr); f != nil && flags[f] {
						out = append(out, f)
					}
				}
			})
		}
		return out
	}
	var enCall ssa.Instruction
	eachInstr(init, func(in ssa.Instruction) {
		if call, ok := in.(*ssa.Call); ok && callIs(call.Common(), en) {
			enCall = in
		}
	})
	if enCall == nil {
		r.unest("tui.Init:enableModes", init.Pos(), init, "call of enableModes in Init", "not found")
		return
	}
	n := 0
	eachInstr(init, func(in ssa.Instruction) {
		if in == enCall || !canReach(enCall, in) {
			return
		}
		if st, ok := in.(*ssa.Store); ok {
			if f, _ := fieldOf(st.Addr); f != nil && flags[f] {
				n++
				r.bad("tui.Init:"+f.Name()+" written after enableModes", st.Pos(), init, "mode flags are final when the modes are switched on", f.Name()+" is changed after the modes were switched on")
			}
		}
		if call, ok := in.(*ssa.Call); ok {
			if callee := call.Common().StaticCallee(); callee != nil && callee.Blocks != nil && callee != en {
				for _, f := range writes(callee) {
					n++
					r.bad("tui.Init:"+f.Name()+" written by "+callee.Name()+" after enableModes", call.Pos(), init, "mode flags are final when the modes are switched on", callee.Name()+" can change "+f.Name()+" after the modes were switched on")
				}
			}
		}
	})
	if n == 0 {
		r.ok("tui.Init:mode flags final before enableModes", enCall.Pos(), init, "nothing reachable after enableModes writes a flag that enableModes/disableModes test")
	}
}

// c15r8: the row that is marked is the row that was moved to; heights are cached only when complete.
func c15r8(c *Ctx, r *Report) {
	l := c.L
	r.rule("C15-R8", "E (argument agreement of sibling calls) + A", "P1",
		"where a function moves to a row (Terminal.move) and marks a row in the cache (markOtherLine / markEmptyLine) in the same block, both calls get the same row value; the per-item height is stored into numLinesCache only under !overflow (it was computed completely)",
		"another row than the painted one is marked: the painted row keeps a stale item record; or a truncated height is cached and the next item is painted over the rest of a multi-line item")
	mv := l.Fn("fzf", "(*Terminal).move")
	mo := l.Fn("fzf", "(*Terminal).markOtherLine")
	me := l.Fn("fzf", "(*Terminal).markEmptyLine")
	fCache := l.Field("fzf", "Terminal", "numLinesCache")
	nil_ := l.Fn("fzf", "(*Terminal).numItemLines")
	if mv == nil || mo == nil || me == nil || fCache == nil || nil_ == nil {
		r.unest("anchors", token.NoPos, nil, "anchors Terminal.move / markOtherLine / markEmptyLine / numLinesCache / numItemLines", "cannot resolve")
		return
	}
	n := 0
	for _, fn := range l.AllFuncs() {
		if fn.Pkg != l.pkg("fzf") {
			continue
		}
		for _, b := range fn.Blocks {
			var moved ssa.Value
			for _, in := range b.Instrs {
				call, ok := in.(*ssa.Call)
				if !ok {
					continue
				}
				if callIs(call.Common(), mv) {
					moved = callArgs(call.Common())[1]
					continue
				}
				if (callIs(call.Common(), mo) || callIs(call.Common(), me)) && moved != nil {
					n++
					row := callArgs(call.Common())[1]
					r.check(row == moved, fmt.Sprintf("%s:marked row = row moved to", relName(fn)), in.Pos(), fn, "move(y, ..) and mark(y) use the same row", "the row that is marked differs from the row that was moved to and painted")
				}
			}
		}
	}
	r.floor("move+mark pairs", n, 2)
	pc := pathConds(nil_)
	ns := 0
	eachInstr(nil_, func(in ssa.Instruction) {
		mu, ok := in.(*ssa.MapUpdate)
		if !ok {
			return
		}
		if f, _ := loadedField(mu.Map); f != fCache {
			return
		}
		ns++
		// `overflow`: the boolean that the computation of the lines reports (second result of
		// Chars.NumLines / Chars.Lines) and that the function itself returns
		over := map[ssa.Value]bool{}
		eachInstr(nil_, func(i2 ssa.Instruction) {
			switch x := i2.(type) {
			case *ssa.Extract:
				if isBoolType(x) {
					over[x] = true
				}
			case *ssa.Phi:
				if !isBoolType(x) {
					return
				}
				for _, e := range x.Edges {
					if ex, ok := e.(*ssa.Extract); ok && isBoolType(ex) {
						over[x] = true
					}
				}
			}
		})
		okGuard := false
		for d := in.Block(); d != nil && !okGuard; d = d.Idom() {
			ok, _ := pc.Implies(d, func(lits []Lit) bool {
				return hasLit(lits, func(a ssa.Value, v bool) bool { return !v && over[a] })
			})
			if ok {
				okGuard = true
			}
		}
		r.check(okGuard, "fzf.numItemLines:height cached only when complete", in.Pos(), nil_, "the store into numLinesCache is under a negated condition (!overflow)", "the height is cached unconditionally, also when the item was cut by the window edge")
	})
	r.floor("stores into numLinesCache", ns, 1)
}

// c20r12: only escaped placeholders are skipped when the flags of a template are gathered.
func c20r12(c *Ctx, r *Report) {
	l := c.L
	r.rule("C20-R12", "A (path condition of the loop's skip edge)", "P1",
		"in hasPreviewFlags an iteration ends without looking at the placeholder's flags only when parsePlaceholder reported it as escaped — under no weaker condition",
		"a class of placeholders ({fzf:query}, the alias of {q}) no longer marks the preview as depending on the query: it is not re-run after a query edit")
	f := l.Fn("fzf", "hasPreviewFlags")
	pp := l.Fn("fzf", "parsePlaceholder")
	if f == nil || pp == nil {
		r.unest("anchors", token.NoPos, nil, "anchors hasPreviewFlags / parsePlaceholder", "cannot resolve")
		return
	}
	var escaped, flags ssa.Value
	eachInstr(f, func(in ssa.Instruction) {
		ex, ok := in.(*ssa.Extract)
		if !ok {
			return
		}
		if call, ok := ex.Tuple.(*ssa.Call); ok && call.Common().StaticCallee() == pp {
			if ex.Index == 0 {
				escaped = ex
			}
			if ex.Index == 2 {
				flags = ex
			}
		}
	})
	if escaped == nil || flags == nil {
		r.unest("fzf.hasPreviewFlags:results of parsePlaceholder", f.Pos(), f, "escaped / flags results", "not found")
		return
	}
	// blocks that read the flags
	reads := map[*ssa.BasicBlock]bool{}
	if flags.Referrers() != nil {
		for _, ref := range *flags.Referrers() {
			switch x := ref.(type) {
			case *ssa.Store:
				// spilled into a local: its field reads are the reads
				if a, ok := x.Addr.(*ssa.Alloc); ok && a.Referrers() != nil {
					for _, r2 := range *a.Referrers() {
						if fa, ok := r2.(*ssa.FieldAddr); ok {
							reads[fa.Block()] = true
						}
					}
				}
			case *ssa.Field:
				reads[x.Block()] = true
			}
		}
	}
	pc := pathConds(f)
	n := 0
	doneHdr := map[*ssa.BasicBlock]bool{}
	for _, h := range f.Blocks {
		for _, p := range h.Preds {
			if !h.Dominates(p) || p == h {
				continue
			}
			// does some path from the parse call to p avoid all flag reads? judge the skip edges: predecessors of
			// the latch (or the latch itself) reached without passing a flag-reading block
			var skipFrom []*ssa.BasicBlock
			var call ssa.Instruction = escaped.(*ssa.Extract).Tuple.(*ssa.Call)
			seen := map[*ssa.BasicBlock]bool{}
			var walk func(b *ssa.BasicBlock)
			walk = func(b *ssa.BasicBlock) {
				if seen[b] || reads[b] {
					return
				}
				seen[b] = true
				for _, s := range b.Succs {
					if s == h {
						skipFrom = append(skipFrom, b)
						continue
					}
					if h.Dominates(s) {
						walk(s)
					}
				}
			}
			walk(call.Block())
			if doneHdr[h] {
				continue
			}
			doneHdr[h] = true
			for _, b := range skipFrom {
				n++
				holds := false
				// the skip edge itself: `if escaped goto header` (facts about values of the iteration are
				// dropped when the header is re-entered, so the branch instruction is inspected directly)
				if iff, ok := b.Instrs[len(b.Instrs)-1].(*ssa.If); ok {
					if iff.Cond == escaped && b.Succs[0] == h {
						holds = true
					}
					if u, ok := iff.Cond.(*ssa.UnOp); ok && u.Op == token.NOT && u.X == escaped && b.Succs[1] == h {
						holds = true
					}
				}
				for d := b; d != nil && !holds; d = d.Idom() {
					ok, _ := pc.Implies(d, func(lits []Lit) bool {
						return hasLit(lits, func(a ssa.Value, v bool) bool { return a == escaped && v })
					})
					if ok {
						holds = true
					}
				}
				r.check(holds, fmt.Sprintf("fzf.hasPreviewFlags:skip #%d only for escaped placeholders", n), b.Instrs[len(b.Instrs)-1].Pos(), f, "an iteration skips the flags only under escaped == true", "placeholders are skipped under a weaker condition than `escaped`")
			}
			_ = p
		}
	}
	r.floor("skip edges in hasPreviewFlags", n, 1)
}

// c08r13: the matcher scans under the revision of the request it scans.
func c08r13(c *Ctx, r *Report) {
	l := c.L
	r.rule("C08-R13", "P (must-pass-through up to the scan)", "P1",
		"in Matcher.Loop every path from taking a request out of the mailbox to scan(request) either stores request.revision into Matcher.revision (together with the cache resets of C04-R9 / C08-R12) or runs over the `equal` edge of a comparison of the two revisions — a weaker test such as compatible() does not count",
		"a minor revision bump (change-nth, exclude, a --tail rotation) is not adopted: merger and chunk caches of the previous revision keep answering")
	loop := l.Fn("fzf", "(*Matcher).Loop")
	scan := l.Fn("fzf", "(*Matcher).scan")
	fRev := l.Field("fzf", "Matcher", "revision")
	if loop == nil || scan == nil || fRev == nil {
		r.unest("anchors", token.NoPos, nil, "anchors Matcher.Loop / scan / Matcher.revision", "cannot resolve")
		return
	}
	var wait ssa.Instruction
	eachInstr(loop, func(in ssa.Instruction) {
		if _, ok := isCall(in, "(*"+modPath+"/src/util.EventBox).Wait"); ok {
			wait = in
		}
	})
	if wait == nil {
		r.unest("fzf.Matcher.Loop:Wait", loop.Pos(), loop, "the mailbox Wait", "not found")
		return
	}
	isRevCmp := func(v ssa.Value) (neq bool, ok bool) {
		b, ok2 := v.(*ssa.BinOp)
		if !ok2 || (b.Op != token.NEQ && b.Op != token.EQL) {
			return false, false
		}
		f1, _ := loadedField(b.X)
		f2, _ := loadedField(b.Y)
		if f1 != fRev && f2 != fRev {
			return false, false
		}
		return b.Op == token.NEQ, true
	}
	bad := pathAvoiding(wait, func(in ssa.Instruction) bool {
		call, ok := in.(*ssa.Call)
		return ok && callIs(call.Common(), scan)
	}, func(in ssa.Instruction) bool {
		st, ok := in.(*ssa.Store)
		if !ok {
			return false
		}
		f, _ := fieldOf(st.Addr)
		return f == fRev
	}, func(from, to *ssa.BasicBlock) bool {
		iff, ok := from.Instrs[len(from.Instrs)-1].(*ssa.If)
		if !ok {
			return true
		}
		neq, ok := isRevCmp(iff.Cond)
		if !ok {
			return true
		}
		equalEdge := (neq && to == from.Succs[1]) || (!neq && to == from.Succs[0])
		return !equalEdge
	})
	if bad != nil {
		r.bad("fzf.Matcher.Loop:revision adopted before scan", bad.Pos(), loop, "scan runs with Matcher.revision == request.revision", "a path reaches scan(request) without adopting the request's revision and without having found the two equal")
	} else {
		r.ok("fzf.Matcher.Loop:revision adopted before scan", loop.Pos(), loop, "every path to scan stores the request's revision or passes the equal edge of a revision comparison")
	}
}

// c17r12: every escape placeholder that the masking introduces is undone at every un-escape site.
func c17r12(c *Ctx, r *Report) {
	l := c.L
	r.rule("C17-R12", "E (vocabulary agreement between the masker and the un-escape sites)", "P1",
		"the placeholder runes that stand for an escaped `:` `,` `+` in a masked --bind specification form one vocabulary (the constants escaped*); wherever a key name is compared with two or more of them, it is compared with all of them",
		"`--bind 'alt-+:...'` (or `,` / `:`) is accepted but bound to an untypable key: the binding silently does nothing")
	sp := l.pkg("fzf")
	vocab := map[int64]string{}
	for _, name := range sp.Pkg.Scope().Names() {
		cst, ok := sp.Pkg.Scope().Lookup(name).(*types.Const)
		if !ok || len(name) < 8 || name[:7] != "escaped" {
			continue
		}
		if k, ok := constInt(cst); ok {
			vocab[k] = name
		}
	}
	r.floor("escape placeholder constants", len(vocab), 3)
	n := 0
	for _, fn := range l.AllFuncs() {
		if fn.Pkg != sp {
			continue
		}
		type cmp struct {
			x ssa.Value
			k int64
			b *ssa.BinOp
		}
		var cmps []cmp
		eachInstr(fn, func(in ssa.Instruction) {
			b, ok := in.(*ssa.BinOp)
			if !ok || b.Op != token.EQL {
				return
			}
			bt, ok := b.X.Type().Underlying().(*types.Basic)
			if !ok || (bt.Kind() != types.Int32 && bt.Kind() != types.Uint8) {
				return
			}
			k, isc := constIntVal(b.Y)
			if !isc {
				return
			}
			if _, inV := vocab[k]; !inV {
				return
			}
			cmps = append(cmps, cmp{b.X, k, b})
		})
		// group by compared value (structurally: element reads are not CSE'd)
		same := func(a, b ssa.Value) bool {
			if a == b {
				return true
			}
			la, ok1 := a.(*ssa.Index)
			lb, ok2 := b.(*ssa.Index)
			if ok1 && ok2 && la.X == lb.X && sameExpr(la.Index, lb.Index, 0) {
				return true
			}
			ua, ok1 := a.(*ssa.UnOp)
			ub, ok2 := b.(*ssa.UnOp)
			if ok1 && ok2 {
				ia, ok3 := ua.X.(*ssa.IndexAddr)
				ib, ok4 := ub.X.(*ssa.IndexAddr)
				return ok3 && ok4 && ia.X == ib.X && sameExpr(ia.Index, ib.Index, 0)
			}
			return false
		}
		used := make([]bool, len(cmps))
		for i := range cmps {
			if used[i] {
				continue
			}
			grp := map[int64]bool{cmps[i].k: true}
			used[i] = true
			for j := i + 1; j < len(cmps); j++ {
				if !used[j] && same(cmps[i].x, cmps[j].x) {
					grp[cmps[j].k] = true
					used[j] = true
				}
			}
			if len(grp) < 2 {
				continue // a lone comparison with 0/1/2 is something else
			}
			n++
			var missing []string
			for k, name := range vocab {
				if !grp[k] {
					missing = append(missing, name)
				}
			}
			sort.Strings(missing)
			r.check(len(missing) == 0, fmt.Sprintf("%s:un-escape site #%d", relName(fn), n), cmps[i].b.Pos(), fn, "all escape placeholders are recognised here", "not recognised here: "+strings.Join(missing, ", "))
		}
	}
	r.floor("un-escape sites", n, 2)
}

// c16r10: sizes and timeouts of the request handler.
func c16r10(c *Ctx, r *Report) {
	l := c.L
	r.rule("C16-R10", "D (provenance) + B (census)", "P1",
		"in the GET handler every slice length computed from the request parameters is clamped at zero (util.Max(0, ..)) before make; handleHttpRequest sets the read deadline outside its line loop (an absolute limit per request, not an idle limit); a POST body is parsed with `put` without argument disallowed (there is no key that triggered it)",
		"GET /?limit=2&offset=4 on a shorter list: makeslice panics and fzf dies; a client that sends one header line every few seconds holds the single-threaded listener for ever; POST `put` inserts a NUL rune")
	ds := l.Fn("fzf", "(*Terminal).dumpStatus")
	h := l.Fn("fzf", "(*httpServer).handleHttpRequest")
	psl := l.Fn("fzf", "parseSingleActionList")
	pal := l.Fn("fzf", "parseActionList")
	if ds == nil || h == nil || psl == nil || pal == nil {
		r.unest("anchors", token.NoPos, nil, "anchors dumpStatus / handleHttpRequest / parseSingleActionList / parseActionList", "cannot resolve")
		return
	}
	n := 0
	eachInstr(ds, func(in ssa.Instruction) {
		mk, ok := in.(*ssa.MakeSlice)
		if !ok {
			return
		}
		fromParams := false
		for v := range backwardSlice(mk.Len, func(*ssa.CallCommon) bool { return true }, nil) {
			if v == ssa.Value(ds.Params[1]) {
				fromParams = true
			}
			if fa, ok := v.(*ssa.FieldAddr); ok {
				if a, ok := fa.X.(*ssa.Alloc); ok && a.Comment == "params" {
					fromParams = true
				}
			}
		}
		if !fromParams {
			return
		}
		n++
		clamped := false
		if call, ok := mk.Len.(*ssa.Call); ok && calleeName(call.Common()) == modPath+"/src/util.Max" {
			if isConstInt(call.Call.Args[0], 0) || isConstInt(call.Call.Args[1], 0) {
				clamped = true
			}
		}
		r.check(clamped, fmt.Sprintf("fzf.dumpStatus:slice length #%d clamped", n), mk.Pos(), ds, "make(.., util.Max(0, ..))", "a length that depends on limit/offset reaches make without a lower clamp")
	})
	r.floor("parameter-dependent slice lengths in dumpStatus", n, 2)
	nd := 0
	eachInstr(h, func(in ssa.Instruction) {
		call, ok := in.(*ssa.Call)
		if !ok || !call.Common().IsInvoke() || call.Common().Method.Name() != "SetReadDeadline" {
			return
		}
		nd++
		r.check(!canReachSelf(in), "fzf.handleHttpRequest:read deadline set once", in.Pos(), h, "SetReadDeadline is outside the line loop", "the deadline is re-armed inside the loop: a slow client is never cut off")
	})
	r.floor("SetReadDeadline calls in handleHttpRequest", nd, 1)
	np := 0
	eachInstr(psl, func(in ssa.Instruction) {
		call, ok := in.(*ssa.Call)
		if !ok || call.Common().StaticCallee() != pal {
			return
		}
		np++
		idx := -1
		for i, p := range pal.Params {
			if p.Name() == "putAllowed" {
				idx = i
			}
		}
		okArg := false
		if idx >= 0 {
			if bv, isb := constBool(call.Call.Args[idx]); isb && !bv {
				okArg = true
			}
		}
		r.check(okArg, "fzf.parseSingleActionList:put without argument disallowed", in.Pos(), psl, "putAllowed = false", "a key-less action list may contain a bare `put`")
	})
	r.floor("parseActionList calls in parseSingleActionList", np, 1)
}

// c08r14: every way of matching a chunk asks for positions alike.
func c08r14(c *Ctx, r *Report) {
	l := c.L
	r.rule("C08-R14", "E (sibling agreement of call sites)", "P1",
		"all calls of Pattern.MatchItem inside Pattern.matchChunk — full scan and narrowing of a cached result, with and without exclusion list — pass Pattern.withPos as the position request: rank keys that need exact positions do not depend on whether the result was obtained by narrowing",
		"after typing one more character the ranking differs from a fresh search (and the differing ranks are stored in the cache)")
	mc := l.Fn("fzf", "(*Pattern).matchChunk")
	mi := l.Fn("fzf", "(*Pattern).MatchItem")
	fWP := l.Field("fzf", "Pattern", "withPos")
	if mc == nil || mi == nil || fWP == nil {
		r.unest("anchors", token.NoPos, nil, "anchors Pattern.matchChunk / MatchItem / withPos", "cannot resolve")
		return
	}
	n := 0
	eachInstr(mc, func(in ssa.Instruction) {
		call, ok := in.(*ssa.Call)
		if !ok || !callIs(call.Common(), mi) {
			return
		}
		n++
		f, _ := loadedField(callArgs(call.Common())[2])
		r.check(f == fWP, fmt.Sprintf("fzf.matchChunk:MatchItem #%d position request", n), in.Pos(), mc, "withPos argument = p.withPos", "this loop asks for positions differently from its siblings")
	})
	r.floor("MatchItem calls in matchChunk", n, 3)
}

// c12r8: escaping applies to every form of placeholder.
func c12r8(c *Ctx, r *Report) {
	l := c.L
	r.rule("C12-R8", "E (structure of a constant regular expression)", "P1",
		"the placeholder pattern is one optional backslash followed by one group that contains ALL placeholder forms: parsed with regexp/syntax it is a concatenation whose first element is `\\\\?`, with no alternative outside that concatenation",
		"an escaped placeholder of the form left outside (`\\{q:1}`) is expanded: the query text lands outside the shell quoting and is executed")
	g := l.Global("fzf", "placeholder")
	if g == nil {
		r.unest("anchors", token.NoPos, nil, "anchor var placeholder", "cannot resolve")
		return
	}
	var pat string
	found := false
	for _, fn := range l.AllFuncs() {
		if fn.Pkg != l.pkg("fzf") {
			continue
		}
		eachInstr(fn, func(in ssa.Instruction) {
			st, ok := in.(*ssa.Store)
			if !ok || st.Addr != ssa.Value(g) {
				return
			}
			if call, ok := st.Val.(*ssa.Call); ok && calleeName(call.Common()) == "regexp.MustCompile" {
				if s, isc := constString(call.Call.Args[0]); isc {
					pat, found = s, true
				}
			}
		})
	}
	if !found {
		r.unest("fzf.placeholder:pattern", g.Pos(), nil, "placeholder = regexp.MustCompile(<constant>)", "not found")
		return
	}
	re, err := syntax.Parse(pat, syntax.Perl)
	if err != nil {
		r.unest("fzf.placeholder:pattern", g.Pos(), nil, "the pattern parses", err.Error())
		return
	}
	okShape := re.Op == syntax.OpConcat && len(re.Sub) >= 2 && re.Sub[0].Op == syntax.OpQuest && re.Sub[0].Sub[0].Op == syntax.OpLiteral && string(re.Sub[0].Sub[0].Rune) == "\\"
	r.check(okShape, "fzf.placeholder:optional backslash covers every form", g.Pos(), nil, "`\\\\?(?: all forms )`", "the pattern is an alternation at top level (or does not start with the optional backslash): some form cannot be escaped")
}

// c19r6: a failing entry does not end the walk.
func c19r6(c *Ctx, r *Report) {
	l := c.L
	r.rule("C19-R6", "A (path condition of the error branch)", "P1",
		"in the walk callback of readFiles every return reached with a non-nil entry error returns nil: an unreadable directory is skipped, the walk (and the remaining roots) go on",
		"one directory without read permission makes fastwalk abort: the rest of the tree and every further --walker-root are missing from the list")
	rf := l.Fn("fzf", "(*Reader).readFiles")
	if rf == nil {
		r.unest("anchors", token.NoPos, nil, "anchor Reader.readFiles", "cannot resolve")
		return
	}
	n := 0
	for _, fn := range withClosures(rf) {
		if fn == rf {
			continue
		}
		// the callback: func(path string, de os.DirEntry, err error[, ...]) error — the entry's error is the
		// parameter of type error, wherever it stands (the callback may be wrapped and take further arguments)
		var errParam *ssa.Parameter
		for _, p := range fn.Params {
			if p.Type().String() == "error" {
				errParam = p
			}
		}
		if errParam == nil {
			continue
		}
		pc := pathConds(fn)
		for _, b := range fn.Blocks {
			ret, ok := b.Instrs[len(b.Instrs)-1].(*ssa.Return)
			if !ok {
				continue
			}
			under, reachable := pc.Implies(b, func(lits []Lit) bool {
				return hasLit(lits, func(a ssa.Value, v bool) bool {
					bo, ok := a.(*ssa.BinOp)
					if !ok || bo.X != ssa.Value(errParam) {
						return false
					}
					return (bo.Op == token.NEQ && v) || (bo.Op == token.EQL && !v)
				})
			})
			if !under || !reachable {
				continue // (the synthetic recover block of a function with defers is not reachable)
			}
			n++
			cst, isc := retResult(ret, 0).(*ssa.Const)
			r.check(isc && cst.IsNil(), fmt.Sprintf("%s:entry error is skipped", relName(fn)), ret.Pos(), fn, "return nil under err != nil", "the entry's error is returned to fastwalk, which aborts the walk")
		}
	}
	r.floor("returns of the walk callback under err != nil", n, 1)
}
