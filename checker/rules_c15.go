package main

import (
	"fmt"
	"go/token"
	"go/types"
	"sort"
	"strings"

	"golang.org/x/tools/go/ssa"
)

func init() {
	register(&propDef{
		id:  "C15",
		run: runC15,
		explanation: "Structural clauses of 'the screen shows the state' (NOT the geometry, truncation or text of what is drawn): " +
			"(R1) the row cache of the incremental redraw is keyed completely: printItem returns without repainting a row only when every input of the drawing that it records for the row (first line, number of lines, current, selected, label, result, query length) equals what was recorded when the row was last painted; " +
			"(R2) every request kind has a consumer, each redraw request reaches its printer (prompt, list, header, info, preview, labels, full redraw) and printAll repaints all four regions; " +
			"(R3) every pass of the render loop that does not exit ends with flush(); " +
			"(R4) the row cache is reset whenever the geometry is recomputed, before anything is printed, and every erasure of the screen is followed by a full redraw or a request for one; " +
			"(R5) the marker of a row comes from membership of that row's own item in the selection, and the pointer from comparing the same list index that fetched the item with cy; " +
			"(R6) every row painted in the list window is recorded in the row cache (item record via postTask, or marked other/empty); " +
			"(R7) per-index state (selection, cached heights) is dropped when a reload reassigns the indices.",
		notDecided: "what is drawn: layout arithmetic of resizeWindows, truncation/ellipsis/width of printHighlighted, wrap and multi-line bookkeeping (prevLines width), cursor tracking of the light renderer; the three independently seeded C15 changes are all of that kind and are not detected",
	})
}

func runC15(c *Ctx, r *Report) {
	defer round8(c, r, "C15")
	c15r1(c, r)
	c15r2(c, r)
	c15r4(c, r)
	c15r5(c, r)
	c15r6(c, r)
	c15r7(c, r)
	c15r9(c, r)
	c15r10(c, r)
	c15r11(c, r)
	c15r12(c, r)
	c15r8(c, r)
}

// loadOfField: v is *(&base.F) — returns F and base.
func loadOfField(v ssa.Value) (*types.Var, ssa.Value) {
	u, ok := v.(*ssa.UnOp)
	if !ok || u.Op != token.MUL {
		return nil, nil
	}
	fa, ok := u.X.(*ssa.FieldAddr)
	if !ok {
		return nil, nil
	}
	st, ok := deref(fa.X.Type()).Underlying().(*types.Struct)
	if !ok {
		return nil, nil
	}
	return st.Field(fa.Field), fa.X
}

func c15r1(c *Ctx, r *Report) {
	l := c.L
	r.rule("C15-R1", "F (cache-key completeness: path condition of the no-repaint return)", "P1",
		"in printItem every field of the row record that is filled from a non-constant input of the drawing is compared with the previous record of the row on the path that returns without repainting (exempt, with reason: cy, width, hasBar)",
		"a row whose marker, pointer, label, text or height changed is deemed unchanged and keeps showing the old state")
	pi := l.Fn("fzf", "(*Terminal).printItem")
	tLine := l.Named("fzf", "itemLine")
	fPrev := l.Field("fzf", "Terminal", "prevLines")
	if pi == nil || tLine == nil || fPrev == nil {
		r.unest("anchors", token.NoPos, nil, "anchors Terminal.printItem / itemLine / Terminal.prevLines", "cannot resolve")
		return
	}
	var prevA, newA *ssa.Alloc
	stored := map[string]ssa.Value{}
	eachInstr(pi, func(in ssa.Instruction) {
		st, ok := in.(*ssa.Store)
		if !ok {
			return
		}
		if a, ok := st.Addr.(*ssa.Alloc); ok && types.Identical(deref(a.Type()), tLine) {
			// prevLine := t.prevLines[line]
			if u, ok := st.Val.(*ssa.UnOp); ok && u.Op == token.MUL {
				if ia, ok := u.X.(*ssa.IndexAddr); ok {
					if f, _ := loadedField(ia.X); f == fPrev {
						prevA = a
					}
				}
			}
			return
		}
		if fa, ok := st.Addr.(*ssa.FieldAddr); ok {
			if a, ok := fa.X.(*ssa.Alloc); ok && types.Identical(deref(a.Type()), tLine) && a != prevA {
				newA = a
				fld := tLine.Underlying().(*types.Struct).Field(fa.Field)
				stored[fld.Name()] = st.Val
			}
		}
	})
	if prevA == nil || newA == nil {
		r.unest("fzf.printItem:records", pi.Pos(), pi, "previous and new row record", "not found")
		return
	}
	exempt := map[string]string{
		"cy":     "list position: implied by firstLine and result for repainting; read only by the mouse handler",
		"width":  "an output of the painting (written after it), not an input",
		"hasBar": "kept up to date by printBar on both paths",
	}
	var required []string
	for name, v := range stored {
		if _, isc := v.(*ssa.Const); isc {
			continue
		}
		if _, ex := exempt[name]; ex {
			continue
		}
		required = append(required, name)
	}
	sort.Strings(required)
	r.floor("recorded inputs of a row", len(required), 6)

	// comparison nodes prev.F <op> new.F
	cmpField := func(v ssa.Value) (string, token.Token) {
		b, ok := v.(*ssa.BinOp)
		if !ok || (b.Op != token.EQL && b.Op != token.NEQ) {
			return "", 0
		}
		f1, b1 := loadOfField(b.X)
		f2, b2 := loadOfField(b.Y)
		if f1 == nil || f2 == nil || f1 != f2 {
			return "", 0
		}
		if (b1 == ssa.Value(prevA) && b2 == ssa.Value(newA)) || (b1 == ssa.Value(newA) && b2 == ssa.Value(prevA)) {
			return f1.Name(), b.Op
		}
		return "", 0
	}
	pc := pathConds(pi)
	nSkip := 0
	for _, b := range pi.Blocks {
		if _, ok := b.Instrs[len(b.Instrs)-1].(*ssa.Return); !ok {
			continue
		}
		ds := pc.At(b)
		if len(ds) == 0 {
			continue
		}
		// literals common to all disjuncts
		var common []Lit
		for _, lt := range ds[0] {
			all := true
			for _, d := range ds[1:] {
				if !hasLit(d, func(a ssa.Value, v bool) bool { return a == lt.Atom && v == lt.Val }) {
					all = false
				}
			}
			if all {
				common = append(common, lt)
			}
		}
		covered := map[string]bool{}
		direct := 0
		for _, lt := range common {
			if f, op := cmpField(lt.Atom); f != "" {
				if (op == token.EQL && lt.Val) || (op == token.NEQ && !lt.Val) {
					covered[f] = true
					direct++
				}
				continue
			}
			// a boolean assembled by || / && : its comparisons are in its phi web
			if phi, ok := lt.Atom.(*ssa.Phi); ok {
				seen := map[ssa.Value]bool{}
				var walk func(v ssa.Value)
				walk = func(v ssa.Value) {
					if seen[v] {
						return
					}
					seen[v] = true
					if f, _ := cmpField(v); f != "" {
						covered[f] = true
					}
					switch x := v.(type) {
					case *ssa.Phi:
						for _, e := range x.Edges {
							walk(e)
						}
					case *ssa.UnOp:
						if x.Op == token.NOT {
							walk(x.X)
						}
					}
				}
				walk(phi)
			}
		}
		if direct == 0 {
			continue // not the no-repaint return
		}
		nSkip++
		for _, f := range required {
			r.check(covered[f], "fzf.printItem:unchanged test covers "+f, b.Instrs[len(b.Instrs)-1].Pos(), pi,
				"the row is left as is only if its recorded "+f+" equals the new one", "the no-repaint path does not compare "+f+": a change of it leaves the old row on screen")
		}
	}
	r.floor("no-repaint returns of printItem", nSkip, 1)
}

// renderHandler finds the callback passed to t.reqBox.Wait inside Loop, and the one for previewBox.
func boxHandlers(l *Loaded, box *types.Var) []*ssa.Function {
	loop := l.Fn("fzf", "(*Terminal).Loop")
	if loop == nil {
		return nil
	}
	var hs []*ssa.Function
	for _, f := range withClosures(loop) {
		eachInstr(f, func(in ssa.Instruction) {
			cc, ok := isCall(in, "(*"+modPath+"/src/util.EventBox).Wait")
			if !ok {
				return
			}
			args := callArgs(cc)
			if fld, _ := loadedField(args[0]); fld != box {
				return
			}
			if fns, ok := resolveFuncs(args[1]); ok {
				hs = append(hs, fns...)
			}
		})
	}
	return hs
}

func c15r2(c *Ctx, r *Report) {
	l := c.L
	r.rule("C15-R2", "E (request registry) + P (printer reached in its case)", "P1",
		"every request constant is consumed (compared in a Wait callback of reqBox/previewBox or awaited by WaitFor); in the render callback each redraw request reaches its printer; printAll and fullRedraw repaint every region",
		"a request is dropped silently or a region is not repainted after a change")
	fReq := l.Field("fzf", "Terminal", "reqBox")
	fPrevBox := l.Field("fzf", "Terminal", "previewBox")
	first := l.Const("fzf", "reqPrompt")
	if fReq == nil || fPrevBox == nil || first == nil {
		r.unest("anchors", token.NoPos, nil, "anchors Terminal.reqBox / previewBox / reqPrompt", "cannot resolve")
		return
	}
	// the request vocabulary: constants of reqPrompt's type declared in the same file, unexported
	sp := l.pkg("fzf")
	file := l.Fset.Position(first.Pos()).Filename
	vocab := map[int64]string{}
	for _, name := range sp.Pkg.Scope().Names() {
		cst, ok := sp.Pkg.Scope().Lookup(name).(*types.Const)
		if !ok || !types.Identical(cst.Type(), first.Type()) || cst.Exported() {
			continue
		}
		if l.Fset.Position(cst.Pos()).Filename != file {
			continue
		}
		if k, ok := constInt(cst); ok {
			vocab[k] = name
		}
	}
	r.floor("request kinds", len(vocab), 20)
	hs := boxHandlers(l, fReq)
	ph := boxHandlers(l, fPrevBox)
	if len(hs) != 1 || len(ph) == 0 {
		r.unest("fzf.Loop:handlers", token.NoPos, nil, "Wait callbacks of reqBox and previewBox", fmt.Sprintf("%d/%d found", len(hs), len(ph)))
		return
	}
	h := hs[0]
	consumed := map[int64]bool{}
	isReqVal := func(v ssa.Value) bool { return types.Identical(v.Type(), first.Type()) }
	for _, f := range append(append([]*ssa.Function{}, hs...), ph...) {
		eachInstr(f, func(in ssa.Instruction) {
			b, ok := in.(*ssa.BinOp)
			if !ok || b.Op != token.EQL || !isReqVal(b.X) {
				return
			}
			if k, isc := constIntVal(b.Y); isc {
				consumed[k] = true
			}
		})
	}
	for _, f := range l.AllFuncs() {
		if f.Pkg != sp {
			continue
		}
		eachInstr(f, func(in ssa.Instruction) {
			if cc, ok := isCall(in, "(*"+modPath+"/src/util.EventBox).WaitFor"); ok {
				if k, isc := constIntVal(callArgs(cc)[1]); isc {
					consumed[k] = true
				}
			}
		})
	}
	var ks []int64
	for k := range vocab {
		ks = append(ks, k)
	}
	sort.Slice(ks, func(i, j int) bool { return ks[i] < ks[j] })
	for _, k := range ks {
		r.check(consumed[k], "fzf.Loop:consumer of "+vocab[k], h.Pos(), h, "request "+vocab[k]+" has a consumer", "no Wait callback compares against "+vocab[k]+": the request is dropped")
	}

	// printers reached in their case
	pc := pathConds(h)
	underCase := func(b *ssa.BasicBlock, k int64) bool {
		for d := b; d != nil; d = d.Idom() {
			for _, dj := range pc.At(d) {
				if hasLit(dj, func(a ssa.Value, v bool) bool {
					x, op, kk, ok := cmpInt(a)
					return ok && v && op == token.EQL && kk == k && isReqVal(x)
				}) {
					return true
				}
			}
		}
		return false
	}
	want := []struct{ req, printer string }{
		{"reqPrompt", "printPrompt"}, {"reqList", "printList"}, {"reqJump", "printList"}, {"reqHeader", "printHeader"},
		{"reqReinit", "fullRedraw"}, {"reqFullRedraw", "fullRedraw"}, {"reqResize", "fullRedraw"},
		{"reqPreviewDisplay", "printPreview"}, {"reqPreviewRefresh", "printPreview"}, {"reqPreviewDelayed", "printPreviewDelayed"},
		{"reqRedrawInputLabel", "printLabel"}, {"reqRedrawHeaderLabel", "printLabel"}, {"reqRedrawListLabel", "printLabel"}, {"reqRedrawBorderLabel", "printLabel"}, {"reqRedrawPreviewLabel", "printLabel"},
	}
	for _, w := range want {
		cst := l.Const("fzf", w.req)
		fn := l.Fn("fzf", "(*Terminal)."+w.printer)
		if cst == nil || fn == nil {
			r.unest("fzf.Loop:"+w.req+"->"+w.printer, token.NoPos, h, "anchors", "cannot resolve")
			continue
		}
		k, _ := constInt(cst)
		found := false
		eachInstr(h, func(in ssa.Instruction) {
			if call, ok := in.(*ssa.Call); ok && callIs(call.Common(), fn) && underCase(in.Block(), k) {
				found = true
			}
		})
		r.check(found, "fzf.Loop:"+w.req+" reaches "+w.printer, h.Pos(), h, "case "+w.req+" calls "+w.printer, "case "+w.req+" no longer calls "+w.printer)
	}
	// reqInfo: sets the flag that guards printInfo
	if cst, pinfo := l.Const("fzf", "reqInfo"), l.Fn("fzf", "(*Terminal).printInfo"); cst != nil && pinfo != nil {
		k, _ := constInt(cst)
		okInfo := false
		eachInstr(h, func(in ssa.Instruction) {
			call, ok := in.(*ssa.Call)
			if !ok || !callIs(call.Common(), pinfo) {
				return
			}
			for d := in.Block(); d != nil; d = d.Idom() {
				for _, dj := range pc.At(d) {
					for _, lt := range dj {
						phi, ok := lt.Atom.(*ssa.Phi)
						if !ok || !lt.Val {
							continue
						}
						seen := map[*ssa.Phi]bool{}
						var walk func(p *ssa.Phi)
						walk = func(p *ssa.Phi) {
							if seen[p] {
								return
							}
							seen[p] = true
							for i, e := range p.Edges {
								if bv, isb := constBool(e); isb && bv && underCase(p.Block().Preds[i], k) {
									okInfo = true
								}
								if q, ok := e.(*ssa.Phi); ok {
									walk(q)
								}
							}
						}
						walk(phi)
					}
				}
			}
		})
		r.check(okInfo, "fzf.Loop:reqInfo reaches printInfo", h.Pos(), h, "case reqInfo raises the flag under which printInfo runs after the requests", "reqInfo no longer leads to printInfo")
	}
	// printAll / fullRedraw composition
	pa := l.Fn("fzf", "(*Terminal).printAll")
	fr := l.Fn("fzf", "(*Terminal).fullRedraw")
	if pa == nil || fr == nil {
		r.unest("fzf.printAll", token.NoPos, nil, "anchors printAll / fullRedraw", "cannot resolve")
	} else {
		uncond := func(fn *ssa.Function, callee string) *ssa.Call {
			var res *ssa.Call
			target := l.Fn("fzf", "(*Terminal)."+callee)
			eachInstr(fn, func(in ssa.Instruction) {
				call, ok := in.(*ssa.Call)
				if !ok || target == nil || !callIs(call.Common(), target) {
					return
				}
				all := true
				for _, b := range fn.Blocks {
					if _, isRet := b.Instrs[len(b.Instrs)-1].(*ssa.Return); isRet && !in.Block().Dominates(b) {
						all = false
					}
				}
				if all {
					res = call
				}
			})
			return res
		}
		for _, p := range []string{"resizeWindows", "printList", "printPrompt", "printInfo", "printHeader", "printPreview"} {
			r.check(uncond(pa, p) != nil, "fzf.printAll:"+p, pa.Pos(), pa, "printAll always calls "+p, "printAll does not always call "+p)
		}
		r.check(uncond(fr, "printAll") != nil, "fzf.fullRedraw:printAll", fr.Pos(), fr, "fullRedraw always calls printAll", "fullRedraw does not always repaint")
	}

	// ---------------- R3 ----------------
	r.rule("C15-R3", "P (must-pass-through)", "P1",
		"every path through the render callback reaches flush() — which places the cursor and refreshes the windows — unless it leaves through the exit closure",
		"what was printed into the window buffers is not shown until some later request")
	flush := l.Fn("fzf", "(*Terminal).flush")
	if flush == nil {
		r.unest("fzf.flush", token.NoPos, nil, "anchor Terminal.flush", "cannot resolve")
		return
	}
	closeName := "(" + modPath + "/src/tui.Renderer).Close"
	isExitCall := func(in ssa.Instruction) bool {
		call, ok := in.(*ssa.Call)
		if !ok {
			return false
		}
		fns, ok := calleesOf(call.Common())
		if !ok {
			return false
		}
		for _, f := range fns {
			closes := false
			eachInstr(f, func(i2 ssa.Instruction) {
				if _, ok := isCall(i2, closeName); ok {
					closes = true
				}
			})
			if closes && f.Parent() != nil {
				return true
			}
		}
		return false
	}
	nFlush := 0
	eachInstr(h, func(in ssa.Instruction) {
		if call, ok := in.(*ssa.Call); ok && callIs(call.Common(), flush) {
			nFlush++
		}
	})
	r.floor("flush calls in the render callback", nFlush, 1)
	bad := pathAvoiding(h.Blocks[0].Instrs[0], isReturn, func(in ssa.Instruction) bool {
		if call, ok := in.(*ssa.Call); ok && callIs(call.Common(), flush) {
			return true
		}
		return isExitCall(in)
	}, nil)
	if bad != nil {
		r.bad("fzf.Loop:render pass ends with flush", bad.Pos(), h, "every non-exiting pass flushes", "a path returns from the render callback without flush(): "+l.pos(bad.Pos()))
	} else {
		r.ok("fzf.Loop:render pass ends with flush", h.Pos(), h, "every return of the render callback is preceded by flush() or exit()")
	}
}

func c15r4(c *Ctx, r *Report) {
	l := c.L
	r.rule("C15-R4", "P (dominance / must-pass-through)", "P1",
		"resizeWindows installs a fresh row cache on every path; printAll recomputes the geometry before printing anything; after every Renderer.Clear() a full repaint follows on every path (printAll/fullRedraw/resizeWindows) or a request for one (reqReinit/reqFullRedraw/reqResize) is posted",
		"rows are deemed unchanged although the screen under them was erased or the window replaced: blank or stale list")
	rw := l.Fn("fzf", "(*Terminal).resizeWindows")
	pa := l.Fn("fzf", "(*Terminal).printAll")
	fPrev := l.Field("fzf", "Terminal", "prevLines")
	if rw == nil || pa == nil || fPrev == nil {
		r.unest("anchors", token.NoPos, nil, "anchors resizeWindows / printAll / prevLines", "cannot resolve")
		return
	}
	var reset ssa.Instruction
	eachInstr(rw, func(in ssa.Instruction) {
		st, ok := in.(*ssa.Store)
		if !ok {
			return
		}
		if f, _ := fieldOf(st.Addr); f != fPrev {
			return
		}
		if _, ok := st.Val.(*ssa.MakeSlice); ok {
			reset = in
		}
	})
	okReset := reset != nil
	if okReset {
		for _, b := range rw.Blocks {
			if _, isRet := b.Instrs[len(b.Instrs)-1].(*ssa.Return); isRet && !reset.Block().Dominates(b) {
				okReset = false
			}
		}
	}
	r.check(okReset, "fzf.resizeWindows:fresh row cache", rw.Pos(), rw, "t.prevLines = make(...) on every path of resizeWindows", "resizeWindows can return with the old row cache")
	// printAll order
	var rwCall ssa.Instruction
	var prints []ssa.Instruction
	eachInstr(pa, func(in ssa.Instruction) {
		call, ok := in.(*ssa.Call)
		if !ok {
			return
		}
		if callIs(call.Common(), rw) {
			rwCall = in
			return
		}
		if f := call.Common().StaticCallee(); f != nil && strings.HasPrefix(f.Name(), "print") {
			prints = append(prints, in)
		}
	})
	okOrder := rwCall != nil && len(prints) >= 4
	for _, p := range prints {
		if rwCall == nil || !dominates(rwCall, p) {
			okOrder = false
		}
	}
	r.check(okOrder, "fzf.printAll:geometry first", pa.Pos(), pa, "resizeWindows precedes every print* call of printAll", "something is printed before the geometry and the row cache are renewed")
	// Clear sites
	clearName := "(" + modPath + "/src/tui.Renderer).Clear"
	fReq := l.Field("fzf", "Terminal", "reqBox")
	redrawReq := map[int64]bool{}
	for _, n := range []string{"reqReinit", "reqFullRedraw", "reqResize"} {
		if cst := l.Const("fzf", n); cst != nil {
			k, _ := constInt(cst)
			redrawReq[k] = true
		}
	}
	repaint := map[*ssa.Function]bool{}
	for _, n := range []string{"printAll", "fullRedraw", "resizeWindows"} {
		if f := l.Fn("fzf", "(*Terminal)."+n); f != nil {
			repaint[f] = true
		}
	}
	nClear := 0
	for _, f := range l.AllFuncs() {
		if f.Pkg != l.pkg("fzf") {
			continue
		}
		eachInstr(f, func(in ssa.Instruction) {
			if _, ok := isCall(in, clearName); !ok {
				return
			}
			nClear++
			bad := pathAvoiding(in, isReturn, func(i2 ssa.Instruction) bool {
				if i2 == in {
					return false
				}
				call, ok := i2.(*ssa.Call)
				if !ok {
					return false
				}
				for g := range repaint {
					if callIs(call.Common(), g) {
						return true
					}
				}
				if cc, ok := isCall(i2, "(*"+modPath+"/src/util.EventBox).Set"); ok {
					args := callArgs(cc)
					if fld, _ := loadedField(args[0]); fld == fReq {
						if k, isc := constIntVal(args[1]); isc && redrawReq[k] {
							return true
						}
					}
				}
				return false
			}, nil)
			key := fmt.Sprintf("%s:repaint after Clear", relName(f))
			if bad != nil {
				r.bad(key, in.Pos(), f, "a full repaint (or a request for one) follows the erasure", "a path from Clear() to "+l.pos(bad.Pos())+" neither repaints nor requests it")
			} else {
				r.ok(key, in.Pos(), f, "every path after Clear() repaints everything or posts reqReinit/reqFullRedraw/reqResize")
			}
		})
	}
	r.floor("Renderer.Clear call sites in package fzf", nClear, 2)
}

func c15r5(c *Ctx, r *Report) {
	l := c.L
	r.rule("C15-R5", "D (provenance) + cross-expression agreement", "P1",
		"printItem's selected flag is the comma-ok of looking up the row's own item index in t.selected; printList fetches the item at (i + offset) and passes current = (i == cy - offset) with the same i and the same two fields",
		"the marker or the pointer is drawn on another line than the selected / current one (after scrolling)")
	pi := l.Fn("fzf", "(*Terminal).printItem")
	pl := l.Fn("fzf", "(*Terminal).printList")
	fSel := l.Field("fzf", "Terminal", "selected")
	fCy := l.Field("fzf", "Terminal", "cy")
	fOff := l.Field("fzf", "Terminal", "offset")
	idx := l.Fn("fzf", "(*Item).Index")
	get := l.Fn("fzf", "(*Merger).Get")
	if pi == nil || pl == nil || fSel == nil || fCy == nil || fOff == nil || idx == nil || get == nil {
		r.unest("anchors", token.NoPos, nil, "anchors printItem / printList / selected / cy / offset / Item.Index / Merger.Get", "cannot resolve")
		return
	}
	// selected
	resultParam := pi.Params[1]
	okSel := false
	var at token.Pos = pi.Pos()
	eachInstr(pi, func(in ssa.Instruction) {
		lk, ok := in.(*ssa.Lookup)
		if !ok || !lk.CommaOk {
			return
		}
		if f, _ := loadedField(lk.X); f != fSel {
			return
		}
		call, ok := lk.Index.(*ssa.Call)
		if !ok || !callIs(call.Common(), idx) {
			return
		}
		fromParam := false
		for v := range backwardSlice(callArgs(call.Common())[0], nil, nil) {
			if v == ssa.Value(resultParam) {
				fromParam = true
			}
		}
		if !fromParam {
			return
		}
		// the ok flag reaches the recorded/drawn `selected`
		if lk.Referrers() != nil {
			for _, ref := range *lk.Referrers() {
				if ex, ok := ref.(*ssa.Extract); ok && ex.Index == 1 && ex.Referrers() != nil && len(*ex.Referrers()) > 0 {
					okSel = true
					at = lk.Pos()
				}
			}
		}
	})
	r.check(okSel, "fzf.printItem:selected = membership of the row's item", at, pi, "selected is `_, ok := t.selected[result.item.Index()]`", "the marker flag does not come from the selection lookup of this row's item")
	// pointer
	nCalls := 0
	eachInstr(pl, func(in ssa.Instruction) {
		call, ok := in.(*ssa.Call)
		if !ok || !callIs(call.Common(), pi) {
			return
		}
		nCalls++
		args := callArgs(call.Common())
		item, cur := args[1], args[5]
		// item = merger.Get(i + offset)
		var i1 ssa.Value
		if gc, ok := item.(*ssa.Call); ok && callIs(gc.Common(), get) {
			if b, ok := callArgs(gc.Common())[1].(*ssa.BinOp); ok && b.Op == token.ADD {
				if f, _ := loadedField(b.Y); f == fOff {
					i1 = b.X
				} else if f, _ := loadedField(b.X); f == fOff {
					i1 = b.Y
				}
			}
		}
		// cur = (i == cy - offset)
		var i2 ssa.Value
		if b, ok := cur.(*ssa.BinOp); ok && b.Op == token.EQL {
			for _, pair := range [][2]ssa.Value{{b.X, b.Y}, {b.Y, b.X}} {
				if s, ok := pair[1].(*ssa.BinOp); ok && s.Op == token.SUB {
					f1, _ := loadedField(s.X)
					f2, _ := loadedField(s.Y)
					if f1 == fCy && f2 == fOff {
						i2 = pair[0]
					}
				}
			}
		}
		r.check(i1 != nil && i2 != nil && i1 == i2, "fzf.printList:pointer on the fetched row", in.Pos(), pl, "item = merger.Get(i+offset), current = (i == cy-offset) with the same i", "the pointer test and the fetched item use different indices or fields")
	})
	r.floor("printItem calls in printList", nCalls, 1)
}

// c15r6: every painted row of the list window is recorded in the row cache.
func c15r6(c *Ctx, r *Report) {
	l := c.L
	r.rule("C15-R6", "P (must-pass-through)", "P1",
		"printHighlighted, for every line it paints, either hands the row to the caller's postTask (which records the item row) or marks the row as `other`; renderEmptyLine and renderGapLine always mark the row they paint",
		"a row painted with a header / prompt / gap keeps its old item record: when the item returns to that row it is deemed unchanged and the other text stays on screen")
	ph := l.Fn("fzf", "(*Terminal).printHighlighted")
	mo := l.Fn("fzf", "(*Terminal).markOtherLine")
	me := l.Fn("fzf", "(*Terminal).markEmptyLine")
	if ph == nil || mo == nil || me == nil {
		r.unest("anchors", token.NoPos, nil, "anchors printHighlighted / markOtherLine / markEmptyLine", "cannot resolve")
		return
	}
	// the func-typed parameter that is called with the painted line: identified as the parameter compared with nil and called
	var post *ssa.Parameter
	for _, p := range ph.Params {
		if _, ok := p.Type().Underlying().(*types.Signature); !ok {
			continue
		}
		called, tested := false, false
		if p.Referrers() != nil {
			for _, ref := range *p.Referrers() {
				switch x := ref.(type) {
				case *ssa.Call:
					if x.Call.Value == ssa.Value(p) && len(x.Call.Args) == 4 {
						called = true
					}
				case *ssa.BinOp:
					tested = true
				}
			}
		}
		if called && tested {
			post = p
		}
	}
	if post == nil {
		r.unest("fzf.printHighlighted:postTask", ph.Pos(), ph, "the optional per-line callback parameter", "not found")
		return
	}
	isMark := func(in ssa.Instruction) bool {
		call, ok := in.(*ssa.Call)
		if !ok {
			return false
		}
		if call.Call.Value == ssa.Value(post) {
			return true
		}
		return callIs(call.Common(), mo) || callIs(call.Common(), me)
	}
	nIf := 0
	eachInstr(ph, func(in ssa.Instruction) {
		iff, ok := in.(*ssa.If)
		if !ok {
			return
		}
		b, ok := iff.Cond.(*ssa.BinOp)
		if !ok || (b.X != ssa.Value(post) && b.Y != ssa.Value(post)) {
			return
		}
		// only the test that guards the call
		guards := false
		for _, s := range iff.Block().Succs {
			for _, i2 := range s.Instrs {
				if call, ok := i2.(*ssa.Call); ok && call.Call.Value == ssa.Value(post) {
					guards = true
				}
			}
		}
		if !guards {
			return
		}
		nIf++
		ib := iff.Block()
		bad := pathAvoiding(in, func(i2 ssa.Instruction) bool {
			if isReturn(i2) {
				return true
			}
			bb := i2.Block()
			return bb != ib && bb.Dominates(ib) && i2 == bb.Instrs[0]
		}, isMark, nil)
		if bad != nil {
			r.bad("fzf.printHighlighted:painted line recorded", iff.Pos(), ph, "postTask(line, ..) or markOtherLine(line) on every path", "a painted line is neither handed to postTask nor marked: path to "+l.pos(bad.Pos()))
		} else {
			r.ok("fzf.printHighlighted:painted line recorded", iff.Pos(), ph, "each painted line reaches postTask or markOtherLine before the next one")
		}
	})
	r.floor("postTask tests in printHighlighted", nIf, 1)
	for _, name := range []string{"renderEmptyLine", "renderGapLine"} {
		fn := l.Fn("fzf", "(*Terminal)."+name)
		if fn == nil {
			r.unest("fzf."+name, token.NoPos, nil, "anchor "+name, "cannot resolve")
			continue
		}
		bad := pathAvoiding(fn.Blocks[0].Instrs[0], isReturn, func(in ssa.Instruction) bool {
			call, ok := in.(*ssa.Call)
			return ok && (callIs(call.Common(), mo) || callIs(call.Common(), me))
		}, nil)
		r.check(bad == nil, "fzf."+name+":marks the row", fn.Pos(), fn, name+" marks the row on every path", name+" can return without marking the row it painted")
	}
}

// c15r7: per-index caches are dropped when indices are reassigned (reload).
func c15r7(c *Ctx, r *Report) {
	l := c.L
	r.rule("C15-R7", "E (field census by type) + A", "P1",
		"every field of Terminal that is a map keyed by the item index type (the result type of Item.Index) is replaced by a fresh map in UpdateList on the path where the new revision is not compatible with the old one (a reload restarts the indices)",
		"state recorded for item #k of the old list (selection mark, cached height) is applied to item #k of the new list: marker on unselected lines, rows of wrong height, current line off screen")
	ul := l.Fn("fzf", "(*Terminal).UpdateList")
	tTerm := l.Named("fzf", "Terminal")
	idx := l.Fn("fzf", "(*Item).Index")
	compat := l.Fn("fzf", "revision.compatible")
	if ul == nil || tTerm == nil || idx == nil || compat == nil {
		r.unest("anchors", token.NoPos, nil, "anchors UpdateList / Terminal / Item.Index / revision.compatible", "cannot resolve")
		return
	}
	keyT := idx.Signature.Results().At(0).Type()
	st := tTerm.Underlying().(*types.Struct)
	var fields []*types.Var
	for i := 0; i < st.NumFields(); i++ {
		if m, ok := st.Field(i).Type().Underlying().(*types.Map); ok && types.Identical(m.Key(), keyT) {
			fields = append(fields, st.Field(i))
		}
	}
	r.floor("index-keyed maps in Terminal", len(fields), 2)
	// fresh-map stores, directly or through a method that does nothing else conditional
	freshIn := func(fn *ssa.Function, f *types.Var) []ssa.Instruction {
		var out []ssa.Instruction
		eachInstr(fn, func(in ssa.Instruction) {
			if s, ok := in.(*ssa.Store); ok {
				if fld, _ := fieldOf(s.Addr); fld == f {
					if _, ok := s.Val.(*ssa.MakeMap); ok {
						out = append(out, in)
					}
				}
			}
		})
		return out
	}
	pc := pathConds(ul)
	underReload := func(b *ssa.BasicBlock) bool {
		ds := pc.At(b)
		if len(ds) == 0 {
			return false
		}
		for _, dj := range ds {
			if !hasLit(dj, func(a ssa.Value, v bool) bool {
				call, ok := a.(*ssa.Call)
				return ok && !v && callIs(call.Common(), compat)
			}) {
				return false
			}
		}
		return true
	}
	for _, f := range fields {
		ok := false
		for _, in := range freshIn(ul, f) {
			if underReload(in.Block()) {
				ok = true
			}
		}
		eachInstr(ul, func(in ssa.Instruction) {
			call, isCall := in.(*ssa.Call)
			if !isCall || !underReload(in.Block()) {
				return
			}
			if callee := call.Common().StaticCallee(); callee != nil && len(callee.Blocks) == 1 && len(freshIn(callee, f)) > 0 {
				ok = true
			}
		})
		r.check(ok, "fzf.UpdateList:reload drops "+f.Name(), ul.Pos(), ul, "t."+f.Name()+" is replaced by a fresh map when the list was reloaded", "t."+f.Name()+" survives a reload although item indices restart")
	}
}
