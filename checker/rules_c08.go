package main

import (
	"fmt"
	"go/token"
	"go/types"

	"golang.org/x/tools/go/ssa"
)

func init() {
	register(&propDef{
		id:  "C08",
		run: runC08,
		explanation: "Structural clauses behind 'the list converges to a fresh filter of the current query': (R1) change detection in Terminal.Loop never compares the query buffer with an alias of itself across the action-list interpreter; " +
			"(R2) every EventBox.Wait callback that selects one pending message out of several keys does so independently of map iteration order; (R3) semantics-changing requests (nth, denylist) clear pattern cache and chunk cache and bump the revision before the next Matcher.Reset; " +
			"(R4) Matcher.Loop publishes EvtSearchFin only for non-cancelled scans and a cancelled scan returns no merger; (R5) cached per-item tokens are returned only after a revision equality test; " +
			"(R6) result lists that came out of Pattern.Match / the chunk cache are never sorted or written in place; (R7) a cached merger is re-used only when its final flag equals the request's.",
		notDecided: "that after quiescence the interactive list equals `fzf --filter` for every interleaving of edits, reader progress and searches; cache-key adequacy; merger-cache invalidation by item count",
	})
}

// isLoadOf: v is a load `*(&x.f)` of the given field (any base).
func isLoadOf(v ssa.Value, f *types.Var) bool {
	g, _ := loadedField(v)
	return g != nil && g == f
}

// aliasesOfLoad follows a loaded slice header through operations that keep the backing array
// (phi, reslicing, ChangeType); conversions to string / copySlice / append to other arrays copy.
func aliasSet(seed ssa.Value) map[ssa.Value]bool {
	set := map[ssa.Value]bool{seed: true}
	for changed := true; changed; {
		changed = false
		for v := range set {
			refs := v.Referrers()
			if refs == nil {
				continue
			}
			for _, r := range *refs {
				var nv ssa.Value
				switch x := r.(type) {
				case *ssa.Phi:
					nv = x
				case *ssa.Slice:
					if x.X == v {
						nv = x
					}
				case *ssa.ChangeType:
					nv = x
				}
				if nv != nil && !set[nv] {
					set[nv] = true
					changed = true
				}
			}
		}
	}
	return set
}

// inLoop: the block lies on a CFG cycle.
func inLoop(b *ssa.BasicBlock) bool { return reachFrom(b)[b] }

func runC08(c *Ctx, r *Report) {
	defer round8(c, r, "C08")
	l := c.L
	c08r1(c, r)
	c08r2(c, r)
	if c.thorough() {
		c08r3(c, r)
	}
	c08r8(c, r)
	c08r15(c, r)
	c08r16(c, r)
	c08r17(c, r)
	c08r18(c, r)
	c08r19(c, r)
	c08r20(c, r)
	c08r9(c, r)
	c08r10(c, r)
	c04r9(c, r) // convergence: a merger cached under another configuration must not be served
	c08r11(c, r)
	c08r12(c, r)
	c08r13(c, r)
	c08r14(c, r)
	c01r3(c, r) // what may be cached / narrowed: a cached list for another term kind is a stale list
	// ---------------- R4 ----------------
	r.rule("C08-R4", "A (path conditions)", "P1",
		"in Matcher.Loop, eventBox.Set(EvtSearchFin, ..) is reached only when the `cancelled` result of scan is false; every return of scan whose second result can be true returns a nil merger",
		"a superseded, partial scan is shown as the final result")
	mloop := l.Fn("fzf", "(*Matcher).Loop")
	scan := l.Fn("fzf", "(*Matcher).scan")
	evtFin := l.Const("fzf", "EvtSearchFin")
	if mloop == nil || scan == nil || evtFin == nil {
		r.unest("anchors", token.NoPos, nil, "anchors Matcher.Loop / Matcher.scan / EvtSearchFin", "cannot resolve")
	} else {
		finV, _ := constInt(evtFin)
		isCancelled := func(v ssa.Value) bool {
			var rec func(v ssa.Value, d int) bool
			rec = func(v ssa.Value, d int) bool {
				if d > 4 {
					return false
				}
				switch x := v.(type) {
				case *ssa.Extract:
					call, ok := x.Tuple.(*ssa.Call)
					return ok && x.Index == 1 && call.Common().StaticCallee() == scan
				case *ssa.Phi:
					some := false
					for _, e := range x.Edges {
						if cb, isc := constBool(e); isc {
							if cb {
								return false
							}
							continue
						}
						if !rec(e, d+1) {
							return false
						}
						some = true
					}
					return some
				}
				return false
			}
			return rec(v, 0)
		}
		pc := pathConds(mloop)
		n := 0
		eachInstr(mloop, func(in ssa.Instruction) {
			cc, ok := isCall(in, "(*"+modPath+"/src/util.EventBox).Set")
			if !ok {
				return
			}
			if k, isc := constIntVal(cc.Args[1]); !isc || k != finV {
				return
			}
			n++
			holds, _ := pc.Implies(in.Block(), func(lits []Lit) bool {
				return hasLit(lits, func(a ssa.Value, v bool) bool { return !v && isCancelled(a) })
			})
			r.check(holds, relName(mloop)+":Set EvtSearchFin", in.Pos(), mloop, "EvtSearchFin is published only when scan's cancelled result is false",
				"reachable without `cancelled == false` on the path")
		})
		r.floor("EvtSearchFin publications in Matcher.Loop", n, 1)
		nr := 0
		for _, b := range scan.Blocks {
			ret, ok := b.Instrs[len(b.Instrs)-1].(*ssa.Return)
			if !ok || len(ret.Results) != 2 {
				continue
			}
			nr++
			if cb, isc := constBool(retResult(ret, 1)); isc && !cb {
				r.ok(relName(scan)+":return not-cancelled", ret.Pos(), scan, "return with cancelled=false")
				continue
			}
			cn, isConst := retResult(ret, 0).(*ssa.Const)
			r.check(isConst && cn.IsNil(), relName(scan)+":return cancelled", ret.Pos(), scan, "a return that may report cancelled=true carries a nil merger",
				"a cancelled scan returns a (partial) merger")
		}
		r.floor("returns of scan", nr, 3)
	}

	c08r5(c, r)

	c08r6(c, r)

	// ---------------- R7 ----------------
	r.rule("C08-R7", "A (path conditions)", "P1",
		"in Matcher.Loop a merger taken from mergerCache is used only under `cached.final == request.final`",
		"a merger computed over a partial snapshot is re-published as the final result")
	fMC := l.Field("fzf", "Matcher", "mergerCache")
	fFinalM := l.Field("fzf", "Merger", "final")
	fFinalR := l.Field("fzf", "MatchRequest", "final")
	if mloop == nil || fMC == nil || fFinalM == nil || fFinalR == nil {
		r.unest("anchors", token.NoPos, nil, "anchors Matcher.mergerCache / Merger.final / MatchRequest.final", "cannot resolve")
	} else {
		pc := pathConds(mloop)
		n := 0
		eachInstr(mloop, func(in ssa.Instruction) {
			lk, ok := in.(*ssa.Lookup)
			if !ok || !isLoadOf(lk.X, fMC) {
				return
			}
			// the looked-up merger value
			var val ssa.Value = lk
			if lk.CommaOk {
				for _, ref := range *lk.Referrers() {
					if ex, ok := ref.(*ssa.Extract); ok && ex.Index == 0 {
						val = ex
					}
				}
			}
			// uses of val as phi edge (assignment merger = cached): the edge's source block must have the fact
			for _, ref := range *val.Referrers() {
				phi, ok := ref.(*ssa.Phi)
				if !ok {
					continue
				}
				for i, e := range phi.Edges {
					if e != val {
						continue
					}
					n++
					pred := phi.Block().Preds[i]
					holds, _ := pc.Implies(pred, func(lits []Lit) bool {
						return hasLit(lits, func(a ssa.Value, v bool) bool {
							b, ok := a.(*ssa.BinOp)
							if !ok || !((b.Op == token.EQL && v) || (b.Op == token.NEQ && !v)) {
								return false
							}
							return (isLoadOf(b.X, fFinalM) && isLoadOf(b.Y, fFinalR)) || (isLoadOf(b.X, fFinalR) && isLoadOf(b.Y, fFinalM))
						})
					})
					r.check(holds, relName(mloop)+":reuse cached merger", phi.Pos(), mloop, "cached merger adopted only when cached.final == request.final", "adopted without the final-flag equality on the path")
				}
			}
		})
		r.floor("mergerCache lookups adopted as result", n, 1)
	}
}

// forwardAliases: values in f that denote the same slice (backing array) as v: through phi, reslice,
// ChangeType/Convert between named slice types, stores to local cells and loads back, and through
// containers (a slice-of-slices element that was assigned the alias and is read back).
func forwardAliases(f *ssa.Function, v ssa.Value) map[ssa.Value]bool {
	set := map[ssa.Value]bool{v: true}
	cont := map[ssa.Value]bool{} // containers holding an alias as an element
	cells := map[ssa.Value]bool{}
	ccells := map[ssa.Value]bool{}
	fns := withClosures(rootFn(f))
	for changed := true; changed; {
		changed = false
		add := func(m map[ssa.Value]bool, x ssa.Value) {
			if !m[x] {
				m[x] = true
				changed = true
			}
		}
		for _, fn := range fns {
			for _, fv := range fn.FreeVars {
				if b := bindingOf(fv); b != nil {
					if set[b] {
						add(set, fv)
					}
					if cont[b] {
						add(cont, fv)
					}
				}
			}
			eachInstr(fn, func(in ssa.Instruction) {
				switch x := in.(type) {
				case *ssa.Phi:
					for _, e := range x.Edges {
						if set[e] {
							add(set, x)
						}
						if cont[e] {
							add(cont, x)
						}
					}
				case *ssa.Slice:
					if set[x.X] {
						add(set, x)
					}
					if cont[x.X] {
						add(cont, x)
					}
				case *ssa.ChangeType:
					if set[x.X] {
						add(set, x)
					}
					if cont[x.X] {
						add(cont, x)
					}
				case *ssa.Convert:
					if _, isSlice := x.Type().Underlying().(*types.Slice); isSlice {
						if _, fromSlice := x.X.Type().Underlying().(*types.Slice); fromSlice {
							if set[x.X] {
								add(set, x)
							}
							if cont[x.X] {
								add(cont, x)
							}
						}
					}
				case *ssa.MakeInterface:
					if set[x.X] {
						add(set, x)
					}
				case *ssa.Store:
					if ia, ok := x.Addr.(*ssa.IndexAddr); ok {
						if set[x.Val] {
							add(cont, ia.X)
							// the container value may itself have been loaded from a cell
							if u, ok := ia.X.(*ssa.UnOp); ok && u.Op == token.MUL {
								if a, ok := cellRoot(u.X).(*ssa.Alloc); ok {
									add(ccells, a)
								}
							}
						}
						return
					}
					c := cellRoot(x.Addr)
					if _, ok := c.(*ssa.Alloc); ok {
						if set[x.Val] {
							add(cells, c)
						}
						if cont[x.Val] {
							add(ccells, c)
						}
					}
				case *ssa.UnOp:
					if x.Op != token.MUL {
						return
					}
					if cells[cellRoot(x.X)] {
						add(set, x)
					}
					if ccells[cellRoot(x.X)] {
						add(cont, x)
					}
					if ia, ok := x.X.(*ssa.IndexAddr); ok && cont[ia.X] {
						add(set, x)
					}
				case *ssa.Call:
					// append(container, alias) makes the result a container
					if calleeName(x.Common()) == "builtin.append" {
						if cont[x.Call.Args[0]] {
							add(cont, x)
						}
					}
				}
			})
		}
	}
	return set
}

// ---------------------------------------------------------------------------------------------
// R1: alias snapshot

func c08r1(c *Ctx, r *Report) {
	l := c.L
	r.rule("C08-R1", "F (alias snapshot)", "P1",
		"no local that aliases Terminal.input's backing array (a plain load, no copy) is live across a call of the action-list interpreter and afterwards compared with / restored into Terminal.input",
		"an in-place edit (delete then put) rewrites the snapshot too: the change is not detected, no search is started, the list shows the old query's results")
	fInput := l.Field("fzf", "Terminal", "input")
	if fInput == nil {
		r.unest("anchors", token.NoPos, nil, "anchor Terminal.input", "cannot resolve")
		return
	}
	// W_direct: functions that write Terminal.input's array in place
	isInputAlias := func(v ssa.Value) bool {
		for d := 0; d < 6; d++ {
			if isLoadOf(v, fInput) {
				return true
			}
			switch x := v.(type) {
			case *ssa.Slice:
				v = x.X
			case *ssa.ChangeType:
				v = x.X
			case *ssa.Call:
				// append(append(t.input[:i], ...), ...) keeps writing into the same array
				if calleeName(x.Common()) == "builtin.append" {
					v = x.Call.Args[0]
				} else {
					return false
				}
			default:
				return false
			}
		}
		return false
	}
	W := map[*ssa.Function]bool{}
	nWrites := 0
	for _, f := range l.AllFuncs() {
		eachInstr(f, func(in ssa.Instruction) {
			switch x := in.(type) {
			case *ssa.Call:
				if calleeName(x.Common()) == "builtin.append" {
					if sl, ok := x.Call.Args[0].(*ssa.Slice); ok && isInputAlias(sl.X) {
						W[f] = true
						nWrites++
					} else if inner, ok := x.Call.Args[0].(*ssa.Call); ok && calleeName(inner.Common()) == "builtin.append" && isInputAlias(inner) {
						W[f] = true
					}
				}
			case *ssa.Store:
				if ia, ok := x.Addr.(*ssa.IndexAddr); ok && isInputAlias(ia.X) {
					W[f] = true
					nWrites++
				}
			}
		})
	}
	r.floor("in-place writers of Terminal.input's array (append(t.input[:i],..))", nWrites, 5)
	// close W under callers; compute MI (multi-action interpreters): call to W inside a loop
	callees := map[*ssa.Function][]struct {
		in  ssa.Instruction
		fns []*ssa.Function
	}{}
	for _, f := range l.AllFuncs() {
		eachInstr(f, func(in ssa.Instruction) {
			ci, ok := in.(ssa.CallInstruction)
			if !ok {
				return
			}
			fs, _ := calleesOf(ci.Common())
			if len(fs) > 0 {
				callees[f] = append(callees[f], struct {
					in  ssa.Instruction
					fns []*ssa.Function
				}{in, fs})
			}
		})
	}
	for changed := true; changed; {
		changed = false
		for f, cs := range callees {
			if W[f] {
				continue
			}
			for _, cs1 := range cs {
				for _, g := range cs1.fns {
					if W[g] {
						W[f] = true
						changed = true
					}
				}
			}
		}
	}
	MI := map[*ssa.Function]bool{}
	for f, cs := range callees {
		for _, cs1 := range cs {
			if !inLoop(cs1.in.Block()) {
				continue
			}
			for _, g := range cs1.fns {
				if W[g] && g != f {
					MI[f] = true
				}
			}
		}
	}
	for changed := true; changed; {
		changed = false
		for f, cs := range callees {
			if MI[f] {
				continue
			}
			for _, cs1 := range cs {
				for _, g := range cs1.fns {
					if MI[g] && g != f {
						MI[f] = true
						changed = true
					}
				}
			}
		}
	}
	callsMI := func(in ssa.Instruction) bool {
		ci, ok := in.(ssa.CallInstruction)
		if !ok {
			return false
		}
		fs, _ := calleesOf(ci.Common())
		for _, g := range fs {
			if MI[g] {
				return true
			}
		}
		return false
	}
	// snapshots
	nSnap := 0
	for _, f := range l.AllFuncs() {
		eachInstr(f, func(in ssa.Instruction) {
			ld, ok := in.(*ssa.UnOp)
			if !ok || ld.Op != token.MUL || !isLoadOf(ld, fInput) {
				return
			}
			al := aliasSet(ld)
			// uses: (a) string(alias) compared; (b) alias stored back into Terminal.input
			var uses []ssa.Instruction
			for v := range al {
				refs := v.Referrers()
				if refs == nil {
					continue
				}
				for _, ref := range *refs {
					switch x := ref.(type) {
					case *ssa.Convert:
						for _, r2 := range *x.Referrers() {
							if b, ok := r2.(*ssa.BinOp); ok && (b.Op == token.EQL || b.Op == token.NEQ) {
								uses = append(uses, b)
							}
						}
					case *ssa.Store:
						if x.Val == v {
							if fld, _ := fieldOf(x.Addr); fld == fInput {
								uses = append(uses, x)
							}
						}
					}
				}
			}
			if len(uses) == 0 {
				return
			}
			for _, u := range uses {
				if !canReach(ld, u) {
					continue
				}
				nSnap++
				// is there a path ld -> call(MI) -> u ?
				var via ssa.Instruction
				isLd := func(i ssa.Instruction) bool { return i == ssa.Instruction(ld) }
				eachInstr(f, func(mid ssa.Instruction) {
					if via != nil || !callsMI(mid) {
						return
					}
					// a path ld -> mid -> u on which ld is not executed again (a re-executed load is a fresh snapshot)
					if pathAvoiding(ld, func(i ssa.Instruction) bool { return i == mid }, isLd, nil) != nil &&
						pathAvoiding(mid, func(i ssa.Instruction) bool { return i == u }, isLd, nil) != nil {
						via = mid
					}
				})
				key := fmt.Sprintf("%s:snapshot of Terminal.input used by %s", relName(f), useKind(u))
				if via != nil {
					r.bad(key, ld.Pos(), f, "un-copied snapshot of Terminal.input is live across the action-list interpreter and then "+useKind(u),
						fmt.Sprintf("between the load and its use at %s the call at %s can run several in-place edits of the same array", l.pos(u.Pos()), l.pos(via.Pos())))
				} else {
					r.ok(key, ld.Pos(), f, "snapshot of Terminal.input spans at most one primitive editing action before being "+useKind(u))
				}
			}
		})
	}
	r.exempt("doAction's per-action snapshot (`currentInput`)", "spans exactly one primitive action: a single in-place writer either changes the length or rewrites identical content; the nested action-list cases return before the comparison (decided structurally: no interpreter call lies between load and use)")
	r.floor("alias snapshots of Terminal.input that are later compared/restored", nSnap, 1)
}

func useKind(in ssa.Instruction) string {
	switch in.(type) {
	case *ssa.BinOp:
		return "compared"
	case *ssa.Store:
		return "restored into the field"
	}
	return "used"
}

// ---------------------------------------------------------------------------------------------
// R2: order independent drains

func c08r2(c *Ctx, r *Report) {
	l := c.L
	r.rule("C08-R2", "B + A (census of mailbox callbacks, path conditions)", "P1",
		"in every EventBox.Wait callback, a captured variable assigned a value derived from the map element inside `for k, v := range *events` is assigned under one key only, or under an ordering comparison with its own current value",
		"with two pending messages the one served is chosen by Go's random map iteration order: the newest query can lose to an older one")
	waitName := "(*" + modPath + "/src/util.EventBox).Wait"
	setName := "(*" + modPath + "/src/util.EventBox).Set"
	// collect Set call sites per box field: key constants + dynamic type of the value
	type setSite struct {
		box  *types.Var
		keys []int64
		typ  types.Type
	}
	var sets []setSite
	for _, f := range l.AllFuncs() {
		eachInstr(f, func(in ssa.Instruction) {
			cc, ok := isCall(in, setName)
			if !ok {
				return
			}
			box, _ := loadedField(cc.Args[0])
			var keys []int64
			for v := range backwardSlice(cc.Args[1], nil, nil) {
				if k, isc := constIntVal(v); isc {
					if _, isConst := v.(*ssa.Const); isConst {
						keys = append(keys, k)
					}
				}
			}
			var typ types.Type
			if mi, ok := cc.Args[2].(*ssa.MakeInterface); ok {
				typ = mi.X.Type()
			}
			sets = append(sets, setSite{box, keys, typ})
		})
	}
	nCallbacks := 0
	for _, f := range l.AllFuncs() {
		eachInstr(f, func(in ssa.Instruction) {
			cc, ok := isCall(in, waitName)
			if !ok {
				return
			}
			cbs, ok2 := resolveFuncs(cc.Args[1])
			if !ok2 || len(cbs) != 1 {
				r.unest(relName(f)+":Wait callback", in.Pos(), f, "EventBox.Wait callback", "cannot resolve the callback closure")
				return
			}
			cb := cbs[0]
			nCallbacks++
			box, _ := loadedField(cc.Args[0])
			r.analysed(cb)
			// find Next over *events
			var pc *PathConds
			found := false
			eachInstr(cb, func(in2 ssa.Instruction) {
				nx, ok := in2.(*ssa.Next)
				if !ok {
					return
				}
				rg, ok := nx.Iter.(*ssa.Range)
				if !ok {
					return
				}
				if _, isMap := rg.X.Type().Underlying().(*types.Map); !isMap {
					return
				}
				var keyV, valV ssa.Value
				for _, ref := range *nx.Referrers() {
					if ex, ok := ref.(*ssa.Extract); ok {
						if ex.Index == 1 {
							keyV = ex
						}
						if ex.Index == 2 {
							valV = ex
						}
					}
				}
				if valV == nil {
					return
				}
				der := forwardDerived(cb, []ssa.Value{valV}, nil)
				// stores of derived values into captured cells
				eachInstr(cb, func(in3 ssa.Instruction) {
					st, ok := in3.(*ssa.Store)
					if !ok || !der[st.Val] {
						return
					}
					root := cellRoot(st.Addr)
					if fa, ok := st.Addr.(*ssa.FieldAddr); ok {
						root = cellRoot(fa.X)
					}
					al, isAlloc := root.(*ssa.Alloc)
					if !isAlloc || al.Parent() == cb {
						return // not a captured variable of the enclosing function
					}
					found = true
					if pc == nil {
						pc = pathConds(cb)
					}
					name := al.Comment
					key := relName(cb) + ":" + name
					// (1) key pinned by path condition?
					pinned, _ := pc.Implies(st.Block(), func(lits []Lit) bool {
						return hasLit(lits, func(a ssa.Value, v bool) bool {
							b, ok := a.(*ssa.BinOp)
							if !ok || keyV == nil {
								return false
							}
							if !((b.Op == token.EQL && v) || (b.Op == token.NEQ && !v)) {
								return false
							}
							_, c1 := constIntVal(b.Y)
							_, c2 := constIntVal(b.X)
							return (b.X == keyV && c1) || (b.Y == keyV && c2)
						})
					})
					if pinned {
						r.ok(key, st.Pos(), cb, "captured `"+name+"` takes the message of one fixed key")
						return
					}
					// (2) how many keys can carry a value of the asserted type on this box?
					var asserted types.Type
					for v := range backwardSlice(st.Val, nil, func(v ssa.Value) bool { return v == valV }) {
						if ta, ok := v.(*ssa.TypeAssert); ok {
							asserted = ta.AssertedType
						}
					}
					keys := map[int64]bool{}
					for _, s := range sets {
						if s.box != box {
							continue
						}
						if asserted != nil && (s.typ == nil || !types.Identical(asserted, s.typ)) {
							continue // a nil or differently typed message never passes this type assertion
						}
						for _, k := range s.keys {
							keys[k] = true
						}
					}
					if len(keys) <= 1 {
						r.ok(key, st.Pos(), cb, fmt.Sprintf("captured `%s`: only %d key of this mailbox carries that message type", name, len(keys)))
						return
					}
					// (3) max-selection idiom
					selfLoads := map[ssa.Value]bool{}
					for _, ld := range loadsOfCell(root) {
						selfLoads[ld] = true
					}
					ordered, _ := pc.Implies(st.Block(), func(lits []Lit) bool {
						return hasLit(lits, func(a ssa.Value, v bool) bool {
							b, ok := a.(*ssa.BinOp)
							if !ok {
								return false
							}
							switch b.Op {
							case token.LSS, token.GTR, token.LEQ, token.GEQ:
							default:
								return false
							}
							fromMsg := func(x ssa.Value) bool {
								for y := range backwardSlice(x, nil, nil) {
									if y == valV {
										return true
									}
								}
								return false
							}
							fromSelf := func(x ssa.Value) bool {
								for y := range backwardSlice(x, nil, nil) {
									if selfLoads[y] || y == root {
										return true
									}
									if fa, ok := y.(*ssa.FieldAddr); ok && cellRoot(fa.X) == root {
										return true
									}
								}
								return false
							}
							return (fromMsg(b.X) && fromSelf(b.Y)) || (fromMsg(b.Y) && fromSelf(b.X))
						})
					})
					if ordered {
						r.ok(key, st.Pos(), cb, fmt.Sprintf("captured `%s`: chosen among %d keys by an ordering comparison with the current holder (max-selection)", name, len(keys)))
						return
					}
					r.bad(key, st.Pos(), cb, fmt.Sprintf("captured `%s` is overwritten from the map element under %d possible keys", name, len(keys)),
						"which pending message wins depends on map iteration order")
				})
			})
			if !found {
				r.ok(relName(cb)+":no element-derived capture", cb.Pos(), cb, "callback assigns no captured variable from a range-over-events element")
			}
		})
	}
	r.floor("EventBox.Wait callbacks", nCallbacks, 5)
}

// ---------------------------------------------------------------------------------------------
// R3: invalidate on semantic change (thorough)

func c08r3(c *Ctx, r *Report) {
	l := c.L
	r.rule("C08-R3", "A (flag-aware path walk)", "P2",
		"in the coordinator, after a store to the captured `nth` or an update of `denylist`, every feasible path to the next Matcher.Reset passes patternCache = make(..), ChunkCache.Clear() and revision.bumpMinor()",
		"results cached for the old field expression / exclusion list are served for the new one")
	run := l.Fn("fzf", "Run")
	reset := l.Fn("fzf", "(*Matcher).Reset")
	clear := l.Fn("fzf", "(*ChunkCache).Clear")
	bump := l.Fn("fzf", "(*revision).bumpMinor")
	if run == nil || reset == nil || clear == nil || bump == nil {
		r.unest("anchors", token.NoPos, nil, "anchors Run / Matcher.Reset / ChunkCache.Clear / revision.bumpMinor", "cannot resolve")
		return
	}
	cellNamed := func(name string) *ssa.Alloc {
		var out *ssa.Alloc
		eachInstr(run, func(in ssa.Instruction) {
			if a, ok := in.(*ssa.Alloc); ok && a.Comment == name {
				out = a
			}
		})
		return out
	}
	nth, deny, pcache := cellNamed("nth"), cellNamed("denylist"), cellNamed("patternCache")
	if nth == nil || deny == nil || pcache == nil {
		r.unest("anchors:cells", token.NoPos, run, "captured cells nth / denylist / patternCache in Run", "cannot resolve")
		return
	}
	n := 0
	for _, f := range withClosures(run) {
		eachInstr(f, func(in ssa.Instruction) {
			what := ""
			switch x := in.(type) {
			case *ssa.Store:
				if cellRoot(x.Addr) == nth && f != run {
					what = "store to nth"
				}
			case *ssa.MapUpdate:
				if u, ok := x.Map.(*ssa.UnOp); ok && cellRoot(u.X) == deny {
					what = "update of denylist"
				}
			}
			if what == "" {
				return
			}
			// only inside the coordinator callback (function that also calls Reset)
			if !containsCallTo(f, reset) {
				return
			}
			n++
			for _, need := range []struct {
				name string
				is   func(ssa.Instruction) bool
			}{
				{"patternCache = make(...)", func(i ssa.Instruction) bool {
					st, ok := i.(*ssa.Store)
					if !ok || cellRoot(st.Addr) != pcache {
						return false
					}
					_, isMake := st.Val.(*ssa.MakeMap)
					return isMake
				}},
				{"ChunkCache.Clear()", func(i ssa.Instruction) bool { return staticCallee(i) == clear }},
				{"revision.bumpMinor()", func(i ssa.Instruction) bool { return staticCallee(i) == bump }},
			} {
				goal := feasiblePathAvoiding(in, func(i ssa.Instruction) bool { return staticCallee(i) == reset }, need.is, nil)
				r.check(goal == nil, relName(f)+":"+what+" -> "+need.name, in.Pos(), f, what+" is followed by "+need.name+" before the next Matcher.Reset",
					"a feasible path reaches Matcher.Reset without it")
			}
		})
	}
	r.floor("semantic-change sites in the coordinator (nth store, denylist update)", n, 2)
}

// c08r6: cached result lists are read-only (shared with C04).
func c08r6(c *Ctx, r *Report) {
	l := c.L
	// ---------------- R6 ----------------
	r.rule("C08-R6", "F (alias) + B", "P1",
		"slices obtained from Pattern.Match / ChunkCache.Lookup / ChunkCache.Search (they are the cached lists) are never passed to sort.Sort/sort.Stable, never stored into by index and never the first argument of append",
		"a cached per-chunk list gets reordered/overwritten; later searches (e.g. after toggle-sort) publish it as is")
	{
		srcs := map[*ssa.Function]bool{}
		for _, n := range []string{"(*Pattern).Match", "(*ChunkCache).Lookup", "(*ChunkCache).Search"} {
			if f := l.Fn("fzf", n); f != nil {
				srcs[f] = true
			} else {
				r.unest("anchors:"+n, token.NoPos, nil, "anchor "+n, "cannot resolve")
			}
		}
		nsrc := 0
		for _, f := range l.AllFuncs() {
			eachInstr(f, func(in ssa.Instruction) {
				call, ok := in.(*ssa.Call)
				if !ok || !srcs[call.Common().StaticCallee()] {
					return
				}
				nsrc++
				// aliases of the result within f (and cells it is stored to)
				al := forwardAliases(f, call)
				bad := false
				for v := range al {
					refs := v.Referrers()
					if refs == nil {
						continue
					}
					for _, ref := range *refs {
						switch x := ref.(type) {
						case *ssa.Call:
							nm := calleeName(x.Common())
							if (nm == "sort.Sort" || nm == "sort.Stable" || nm == "sort.Slice" || nm == "sort.SliceStable") && len(x.Call.Args) > 0 && al[x.Call.Args[0]] {
								bad = true
								r.bad(relName(f)+":sort cached list", x.Pos(), f, "result of "+relName(call.Common().StaticCallee())+" is sorted in place", "the slice is the list stored in the chunk cache")
							}
							if nm == "builtin.append" && x.Call.Args[0] == v {
								bad = true
								r.bad(relName(f)+":append onto cached list", x.Pos(), f, "result of "+relName(call.Common().StaticCallee())+" is the destination of append", "may write into the cached list's backing array")
							}
							if nm == "builtin.copy" && x.Call.Args[0] == v {
								bad = true
								r.bad(relName(f)+":copy into cached list", x.Pos(), f, "result of "+relName(call.Common().StaticCallee())+" is the destination of copy", "overwrites the cached list")
							}
						case *ssa.IndexAddr:
							for _, r2 := range *x.Referrers() {
								if st, ok := r2.(*ssa.Store); ok && st.Addr == x {
									bad = true
									r.bad(relName(f)+":store into cached list", st.Pos(), f, "element store into result of "+relName(call.Common().StaticCallee()), "overwrites the cached list")
								}
							}
						}
					}
				}
				if !bad {
					r.ok(relName(f)+":"+relName(call.Common().StaticCallee())+" result read-only", call.Pos(), f, "result of "+relName(call.Common().StaticCallee())+" is only read / copied from")
				}
			})
		}
		r.floor("call sites returning cached lists", nsrc, 3)
	}

}

// c08r5: token cache is revision-checked (shared with C10 and C05).
func c08r5(c *Ctx, r *Report) {
	l := c.L
	// ---------------- R5 ----------------
	r.rule("C08-R5", "A (path conditions)", "P1",
		"every read of transformed.tokens (the per-item token cache) happens under an equality test of transformed.revision",
		"after change-nth / reload, matching and highlighting use tokens of the old field expression")
	fTok := l.Field("fzf", "transformed", "tokens")
	fRev := l.Field("fzf", "transformed", "revision")
	if fTok == nil || fRev == nil {
		r.unest("anchors", token.NoPos, nil, "anchors transformed.tokens / transformed.revision", "cannot resolve")
	} else {
		n := 0
		readsRev := func(v ssa.Value) bool {
			for x := range backwardSlice(v, nil, nil) {
				if f, _ := fieldOf(x); f == fRev {
					return true
				}
			}
			return false
		}
		for _, f := range l.AllFuncs() {
			var pc *PathConds
			eachInstr(f, func(in ssa.Instruction) {
				var fld *types.Var
				switch x := in.(type) {
				case *ssa.UnOp:
					if x.Op == token.MUL {
						fld, _ = fieldOf(x.X)
					}
				case *ssa.Field:
					fld, _ = fieldOf(x)
				}
				if fld != fTok {
					return
				}
				n++
				if pc == nil {
					pc = pathConds(f)
				}
				holds, _ := pc.Implies(in.Block(), func(lits []Lit) bool {
					return hasLit(lits, func(a ssa.Value, v bool) bool {
						b, ok := a.(*ssa.BinOp)
						if !ok {
							return false
						}
						if !((b.Op == token.EQL && v) || (b.Op == token.NEQ && !v)) {
							return false
						}
						return readsRev(b.X) || readsRev(b.Y)
					})
				})
				r.check(holds, relName(f)+":read transformed.tokens", in.Pos(), f, "cached tokens are read under a revision equality test", "read without `transformed.revision == <current revision>` on the path")
			})
		}
		r.floor("reads of transformed.tokens", n, 2)
	}

}
