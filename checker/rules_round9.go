package main

import (
	"fmt"
	"go/ast"
	"go/token"
	"go/types"
	"sort"
	"strings"

	"golang.org/x/tools/go/ssa"
)

// Round 9: rules written for the round-9 mutants that arrived undetected (the rules for the defects of
// round 9, D58..D74, are in rules_round8.go and rules_lockorder.go, where they were written first).

// sameItemExpr: two values denote the same item: identical, the same field of the same struct value, the same
// element address, or loads of such addresses.
func sameItemExpr(a, b ssa.Value, d int) bool {
	if a == b {
		return true
	}
	if d > 5 {
		return false
	}
	switch x := a.(type) {
	case *ssa.Field:
		y, ok := b.(*ssa.Field)
		return ok && x.Field == y.Field && sameItemExpr(x.X, y.X, d+1)
	case *ssa.IndexAddr:
		y, ok := b.(*ssa.IndexAddr)
		return ok && sameItemExpr(x.X, y.X, d+1) && sameItemExpr(x.Index, y.Index, d+1)
	case *ssa.FieldAddr:
		y, ok := b.(*ssa.FieldAddr)
		return ok && x.Field == y.Field && sameItemExpr(x.X, y.X, d+1)
	case *ssa.UnOp:
		y, ok := b.(*ssa.UnOp)
		return ok && x.Op == y.Op && sameItemExpr(x.X, y.X, d+1)
	case *ssa.Extract:
		y, ok := b.(*ssa.Extract)
		return ok && x.Index == y.Index && x.Tuple == y.Tuple
	}
	return false
}

// c01r14: matchChunk has four copies of "skip the item if it is excluded, else match it". In each of them the
// item whose index is looked up in the denylist has to be the item that is matched (round-9 mutant C01a9: the
// loop over a cached search scope looked up chunk.items[idx] — the idx-th item of the CHUNK — while matching
// result.item, the idx-th entry of the cached LIST: after `exclude`, extending a selective query dropped a line
// that had never been excluded).
func c01r14(c *Ctx, r *Report) {
	l := c.L
	r.rule("C01-R14", "E (the excluded item is the matched item)", "P1",
		"in Pattern.matchChunk, every call of MatchItem that is reached under a lookup in Pattern.denylist is reached under a lookup keyed by Index() of the very item it matches",
		"a line that was never excluded is dropped from the result (and an excluded one can come back) when a narrowed query is searched inside a cached list")
	fn := l.Fn("fzf", "(*Pattern).matchChunk")
	mi := l.Fn("fzf", "(*Pattern).MatchItem")
	fDeny := l.Field("fzf", "Pattern", "denylist")
	if fn == nil || mi == nil || fDeny == nil {
		r.unest("anchors", token.NoPos, nil, "anchors Pattern.matchChunk / MatchItem / denylist", "cannot resolve")
		return
	}
	pc := pathConds(fn)
	n, guarded := 0, 0
	eachInstr(fn, func(in ssa.Instruction) {
		call, ok := in.(*ssa.Call)
		if !ok || call.Common().StaticCallee() != mi {
			return
		}
		n++
		item := call.Call.Args[1]
		// lookups in the denylist on the path
		var keys []ssa.Value
		for _, dj := range pc.At(call.Block()) {
			for _, lt := range dj {
				ex, ok := lt.Atom.(*ssa.Extract)
				if !ok || ex.Index != 1 {
					continue
				}
				lk, ok := ex.Tuple.(*ssa.Lookup)
				if !ok {
					continue
				}
				if fld, _ := loadedField(lk.X); fld != fDeny {
					continue
				}
				keys = append(keys, lk.Index)
			}
		}
		if len(keys) == 0 {
			return
		}
		guarded++
		good := true
		for _, k := range keys {
			kc, ok := k.(*ssa.Call)
			if !ok || len(kc.Call.Args) == 0 || !sameItemExpr(kc.Call.Args[0], item, 0) {
				good = false
			}
		}
		r.check(good, fmt.Sprintf("%s:MatchItem call #%d matches the item whose exclusion was tested", relName(fn), n), call.Pos(), fn,
			"the denylist is consulted for the item that is matched", "the denylist lookup on this path is keyed by another item than the one handed to MatchItem")
	})
	r.floor("MatchItem calls in matchChunk", n, 4)
	r.floor("... reached under a denylist lookup", guarded, 2)
}

// c13r12: Matcher.Loop takes, of the requests waiting in its box, the one with the highest sequence number:
// reqReset and reqRetry sit in different slots and the map is iterated in random order. Every request posted by
// Matcher.Reset therefore gets a number of its own (round-9 mutant C01c9 incremented reqSeq for cancelling
// requests only: a retry posted after a still pending reset tied with it, and one time in six the older
// snapshot was searched — lines that had arrived late were missing until the next keystroke).
func c13r12(c *Ctx, r *Report) {
	l := c.L
	r.rule("C13-R12", "A (must-pass-through: a fresh sequence number per posted request)", "P1",
		"in Matcher.Reset, every path from the entry to the post of the MatchRequest passes the increment of Matcher.reqSeq",
		"two pending requests carry the same sequence number and the matcher may serve the older snapshot: the published result is not the filter of the items present when the search was requested")
	fn := l.Fn("fzf", "(*Matcher).Reset")
	fSeq := l.Field("fzf", "Matcher", "reqSeq")
	set := l.Fn("util", "(*EventBox).Set")
	if fn == nil || fSeq == nil || set == nil {
		r.unest("anchors", token.NoPos, nil, "anchors Matcher.Reset / reqSeq / EventBox.Set", "cannot resolve")
		return
	}
	isInc := func(in ssa.Instruction) bool {
		st, ok := in.(*ssa.Store)
		if !ok {
			return false
		}
		if fld, _ := fieldOf(st.Addr); fld != fSeq {
			return false
		}
		b, ok := st.Val.(*ssa.BinOp)
		return ok && b.Op == token.ADD
	}
	n := 0
	eachInstr(fn, func(in ssa.Instruction) {
		if staticCallee(in) != set {
			return
		}
		n++
		start := fn.Blocks[0].Instrs[0]
		var hit ssa.Instruction
		if !isInc(start) {
			hit = pathAvoiding(start, func(i ssa.Instruction) bool { return i == in }, isInc, nil)
		}
		r.check(hit == nil, fmt.Sprintf("%s:post #%d carries a fresh sequence number", relName(fn), n), in.Pos(), fn,
			"reqSeq is incremented on every path to the post", "a request can be posted with the sequence number of the previous one")
	})
	r.floor("posts in Matcher.Reset", n, 1)
}

// c02r16: asciiFuzzyIndex is a pre-filter over the BYTES of the line: "the pattern cannot occur" (-1, -1) is
// an answer it can only give for a line held as bytes; for a line held as runes it has looked at nothing and
// must say "cannot tell" (round-9 mutant C02a9 moved the `pattern is not ASCII -> -1` return in front of the
// `line is not bytes -> whole line` return: every query with a non-ASCII character stopped matching).
func c02r16(c *Ctx, r *Report) {
	l := c.L
	r.rule("C02-R16", "A (a negative answer of the byte pre-filter is reached only for byte lines)", "P1",
		"in asciiFuzzyIndex, every return whose first result is the constant -1 is reached only under Chars.IsBytes() == true",
		"terms with non-ASCII characters are reported as not matching lines that contain them: a witness exists and is not found")
	fn := l.Fn("algo", "asciiFuzzyIndex")
	if fn == nil {
		r.unest("anchors", token.NoPos, nil, "anchor asciiFuzzyIndex", "cannot resolve")
		return
	}
	pc := pathConds(fn)
	n := 0
	eachInstr(fn, func(in ssa.Instruction) {
		ret, ok := in.(*ssa.Return)
		if !ok || len(ret.Results) != 2 {
			return
		}
		k, isK := constIntVal(retResult(ret, 0))
		if !isK || k != -1 {
			return
		}
		n++
		holds, reach := pc.ImpliesDom(ret.Block(), func(lits []Lit) bool {
			return hasLit(lits, func(atom ssa.Value, val bool) bool {
				call, ok := atom.(*ssa.Call)
				return ok && val && strings.HasSuffix(calleeName(call.Common()), "util.Chars).IsBytes")
			})
		}), true
		r.check(holds || !reach, fmt.Sprintf("%s:negative return #%d is for a byte line", relName(fn), n), ret.Pos(), fn,
			"reached only when the line is held as bytes", "`no match possible` is answered although the line is held as runes and was not looked at")
	})
	r.floor("negative returns of asciiFuzzyIndex", n, 2)
}

// c03r10: the class of a non-ASCII character decides its bonus; each class is recognised by the unicode
// predicate of that name (round-9 mutant C03a9 asked strings.ContainsRune(whiteChars, char) instead of
// unicode.IsSpace: whiteChars holds the raw BYTES \x85 \xA0, so NBSP, U+2003, U+3000 ... became non-word
// characters and a word after them scored 8 instead of 10).
func c03r10(c *Ctx, r *Report) {
	l := c.L
	r.rule("C03-R10", "E (class constant <-> classifier table)", "P1",
		"in charClassOfNonAscii, each return of a class constant is control-dependent on the call of its classifier: charLower-unicode.IsLower, charUpper-unicode.IsUpper, charNumber-unicode.IsNumber, charLetter-unicode.IsLetter, charWhite-unicode.IsSpace, charDelimiter-strings.ContainsRune(delimiterChars, ..)",
		"non-ASCII blanks (or letters, digits) get the bonus of another class: the score is not the documented one for lines that contain them")
	fn := l.Fn("algo", "charClassOfNonAscii")
	if fn == nil {
		r.unest("anchors", token.NoPos, nil, "anchor charClassOfNonAscii", "cannot resolve")
		return
	}
	want := map[string]string{"charLower": "unicode.IsLower", "charUpper": "unicode.IsUpper", "charNumber": "unicode.IsNumber", "charLetter": "unicode.IsLetter", "charWhite": "unicode.IsSpace", "charDelimiter": "strings.ContainsRune"}
	val2name := map[int64]string{}
	for name := range want {
		if cst := l.Const("algo", name); cst != nil {
			v, _ := constInt(cst)
			val2name[v] = name
		}
	}
	pc := pathConds(fn)
	n := 0
	eachInstr(fn, func(in ssa.Instruction) {
		ret, ok := in.(*ssa.Return)
		if !ok || len(ret.Results) != 1 {
			return
		}
		k, isK := constIntVal(retResult(ret, 0))
		name, known := val2name[k]
		if !isK || !known {
			return
		}
		n++
		holds := pc.ImpliesDom(ret.Block(), func(lits []Lit) bool {
			return hasLit(lits, func(atom ssa.Value, val bool) bool {
				call, ok := atom.(*ssa.Call)
				if !ok || !val || calleeName(call.Common()) != want[name] {
					return false
				}
				if name == "charDelimiter" {
					g, isG := stripConv(call.Call.Args[0]).(*ssa.UnOp)
					return isG && g.X.Name() == "delimiterChars"
				}
				return true
			})
		})
		r.check(holds, fmt.Sprintf("%s:%s is decided by %s", relName(fn), name, want[name]), ret.Pos(), fn,
			"the class is returned under its own classifier", "the class "+name+" is returned without "+want[name]+" having said so")
	})
	r.floor("class returns of charClassOfNonAscii", n, 6)
}

// c03r11: the matchers test character classes by ORDER: `class > charNonWord` (bonusFor: the character can
// start a word or is a delimiter), `class <= charDelimiter` (boundary match: blank, non-word or delimiter).
// Both readings rely on white < non-word < delimiter < the four word classes (round-9 mutant C03c9 moved
// charDelimiter in front of charNonWord and adjusted the two `<=` tests: bonusFor's `>` no longer covered
// delimiters, and `/` after a blank scored 8 instead of 10).
func c03r11(c *Ctx, r *Report) {
	l := c.L
	r.rule("C03-R11", "E (order of the class constants that the ordering tests rely on)", "P1",
		"charWhite < charNonWord < charDelimiter < min(charLower, charUpper, charLetter, charNumber), and package algo compares a class with `<`/`<=`/`>`/`>=` only against charNonWord and charDelimiter",
		"an ordering test admits a class it was not written for: delimiters lose their boundary bonus or non-word characters gain one")
	get := func(name string) (int64, bool) {
		cst := l.Const("algo", name)
		if cst == nil {
			return 0, false
		}
		return constInt(cst)
	}
	w, ok1 := get("charWhite")
	nw, ok2 := get("charNonWord")
	dl, ok3 := get("charDelimiter")
	lo, ok4 := get("charLower")
	up, ok5 := get("charUpper")
	le, ok6 := get("charLetter")
	nu, ok7 := get("charNumber")
	if !(ok1 && ok2 && ok3 && ok4 && ok5 && ok6 && ok7) {
		r.unest("anchors", token.NoPos, nil, "anchors the charClass constants", "cannot resolve")
		return
	}
	minWord := lo
	for _, v := range []int64{up, le, nu} {
		if v < minWord {
			minWord = v
		}
	}
	r.check(w < nw && nw < dl && dl < minWord, "algo.charClass:white < non-word < delimiter < word classes", l.Const("algo", "charNonWord").Pos(), nil,
		fmt.Sprintf("white=%d non-word=%d delimiter=%d word classes from %d", w, nw, dl, minWord),
		fmt.Sprintf("the order is white=%d non-word=%d delimiter=%d word classes from %d: the ordering tests of bonusFor and of the boundary match no longer select the classes they were written for", w, nw, dl, minWord))
	cls := l.Named("algo", "charClass")
	n := 0
	for _, fn := range l.AllFuncs() {
		if fn.Pkg != l.pkg("algo") || fn.Blocks == nil {
			continue
		}
		k := 0
		eachInstr(fn, func(in ssa.Instruction) {
			b, ok := in.(*ssa.BinOp)
			if !ok {
				return
			}
			switch b.Op {
			case token.LSS, token.LEQ, token.GTR, token.GEQ:
			default:
				return
			}
			nn, ok := b.X.Type().(*types.Named)
			if !ok || cls == nil || nn.Obj() != cls.Obj() {
				return
			}
			kv, isK := constIntVal(b.Y)
			if !isK {
				kv, isK = constIntVal(b.X)
			}
			if !isK {
				return
			}
			n++
			k++
			r.check(kv == nw || kv == dl, fmt.Sprintf("%s:ordering test #%d of a class", relName(fn), k), b.Pos(), fn,
				"compares with charNonWord or charDelimiter", fmt.Sprintf("a class is order-compared with the constant %d, for which no order is guaranteed", kv))
		})
	}
	r.floor("ordering tests of character classes", n, 3)
}

// c04r16: parseTiebreak turns the names of --tiebreak into criteria. The only link between a name and its
// criterion is the spelling (round-9 mutant C04c9: `case "pathname"` appended byChunk). Checked as a convention,
// like C07-R12: the case label "x" appends the constant byX.
func c04r16(c *Ctx, r *Report) {
	l := c.L
	r.rule("C04-R16", "E (case label <-> criterion constant, by name)", "P1",
		"in parseTiebreak, the case clause for the string \"NAME\" appends the constant by<Name> to the criteria (a convention check: the spelling is the only link between the two)",
		"--tiebreak=pathname (or another name) ranks by a different criterion than the one asked for")
	pp := l.ByPath[pkgAlias["fzf"]]
	if pp == nil {
		r.unest("anchors", token.NoPos, nil, "package fzf syntax", "cannot resolve")
		return
	}
	n := 0
	for _, file := range pp.Syntax {
		for _, decl := range file.Decls {
			fd, ok := decl.(*ast.FuncDecl)
			if !ok || fd.Name.Name != "parseTiebreak" || fd.Body == nil {
				continue
			}
			ast.Inspect(fd.Body, func(nd ast.Node) bool {
				cc, ok := nd.(*ast.CaseClause)
				if !ok || len(cc.List) != 1 {
					return true
				}
				lit, ok := cc.List[0].(*ast.BasicLit)
				if !ok || lit.Kind != token.STRING {
					return true
				}
				name := strings.Trim(lit.Value, "\"`")
				ast.Inspect(cc, func(n2 ast.Node) bool {
					call, ok := n2.(*ast.CallExpr)
					if !ok {
						return true
					}
					if id, ok := call.Fun.(*ast.Ident); !ok || id.Name != "append" || len(call.Args) != 2 {
						return true
					}
					arg, ok := call.Args[1].(*ast.Ident)
					if !ok || !strings.HasPrefix(arg.Name, "by") {
						return true
					}
					n++
					r.check(strings.EqualFold(arg.Name, "by"+name), "parseTiebreak:case \""+name+"\" appends by"+strings.Title(name), arg.Pos(), nil,
						"appends "+arg.Name, "the case for \""+name+"\" appends "+arg.Name)
					return true
				})
				return true
			})
		}
	}
	r.floor("named criteria in parseTiebreak", n, 5)
}

// c06r13: exec.Cmd.Wait closes the read end of the command's stdout pipe as soon as the process has exited.
// The reader therefore waits only after it has read the pipe to the end (round-9 mutant C06b9 reaped the process
// in a goroutine started before feed: the tail of a fast producer's output was lost, `seq 200000` ended at 193756).
func c06r13(c *Ctx, r *Report) {
	l := c.L
	r.rule("C06-R13", "A (Wait only after the stream has been read)", "P1",
		"in Reader.readFromCommand, every call of exec.Cmd.Wait — in the function itself or in a closure it starts — is dominated by the call of Reader.feed (for a closure: the statement that starts it is)",
		"the last records of a command's output never become items")
	fn := l.Fn("fzf", "(*Reader).readFromCommand")
	feed := l.Fn("fzf", "(*Reader).feed")
	if fn == nil || feed == nil {
		r.unest("anchors", token.NoPos, nil, "anchors Reader.readFromCommand / Reader.feed", "cannot resolve")
		return
	}
	var feedCall ssa.Instruction
	eachInstr(fn, func(in ssa.Instruction) {
		if staticCallee(in) == feed {
			feedCall = in
		}
	})
	if feedCall == nil {
		r.unest(relName(fn)+":feed", fn.Pos(), fn, "the call of Reader.feed", "not found")
		return
	}
	n := 0
	for _, g := range withClosures(fn) {
		eachInstr(g, func(in ssa.Instruction) {
			ci, ok := in.(ssa.CallInstruction)
			if !ok || calleeName(ci.Common()) != "(*os/exec.Cmd).Wait" {
				return
			}
			n++
			anchor := in
			if g != fn {
				// where the closure is made (and started)
				anchor = nil
				eachInstr(fn, func(i2 ssa.Instruction) {
					if mc, ok := i2.(*ssa.MakeClosure); ok && mc.Fn == ssa.Value(g) {
						anchor = i2
					}
				})
			}
			good := anchor != nil && dominates(feedCall, anchor)
			if _, isDefer := in.(*ssa.Defer); isDefer && g == fn {
				good = true // runs when the function returns, i.e. after feed
			}
			r.check(good, fmt.Sprintf("%s:Wait #%d happens after feed", relName(fn), n), in.Pos(), g,
				"the process is reaped after its output was read", "exec.Cmd.Wait can run while feed is still reading: Wait closes the pipe and the rest of the output is lost")
		})
	}
	r.floor("calls of exec.Cmd.Wait in readFromCommand", n, 1)
}

// c08r22: Terminal.Input hands the query to the coordinator goroutine, which keeps it as "the query in force"
// while the search is disabled. The editing actions change the prompt IN PLACE, so what is handed out has to be
// a copy (round-9 mutant C08b9 returned the live slice: with the search disabled, delete-char at the beginning
// of `abc` made the coordinator search for `bcc`, a query nobody typed).
func c08r22(c *Ctx, r *Report) {
	l := c.L
	r.rule("C08-R22", "F (the query leaves the terminal as a copy)", "P1",
		"every []rune returned by Terminal.Input is the result of copySlice",
		"the coordinator's remembered query shares storage with the prompt: in-place edits change what is searched without a request")
	fn := l.Fn("fzf", "(*Terminal).Input")
	cp := l.Fn("fzf", "copySlice")
	if fn == nil || cp == nil {
		r.unest("anchors", token.NoPos, nil, "anchors Terminal.Input / copySlice", "cannot resolve")
		return
	}
	n := 0
	eachInstr(fn, func(in ssa.Instruction) {
		ret, ok := in.(*ssa.Return)
		if !ok || len(ret.Results) != 2 {
			return
		}
		n++
		v := retResult(ret, 1)
		vals := []ssa.Value{v}
		if u, isLoad := v.(*ssa.UnOp); isLoad && u.Op == token.MUL {
			// the result variable of a function with a deferred call: every value assigned to it
			if al, isAlloc := u.X.(*ssa.Alloc); isAlloc {
				vals = nil
				for _, st := range storesToAlloc(al) {
					vals = append(vals, st.Val)
				}
			}
		}
		good := len(vals) > 0
		for _, x := range vals {
			call, ok := x.(*ssa.Call)
			if !ok || call.Common().StaticCallee() != cp {
				good = false
				v = x
			}
		}
		r.check(good, fmt.Sprintf("%s:return #%d hands out a copy", relName(fn), n), ret.Pos(), fn,
			"copySlice(..)", "the returned runes are "+describe(v)+", not a copy")
	})
	r.floor("returns of Terminal.Input", n, 1)
}

// c08r23: core.go accepts an exclusion only if the request was made against a compatible revision of the
// list, and it reads that revision from the merger on screen. Every constructor of a Merger therefore stores the
// revision it is given (round-9 mutant C08c9 dropped `revision:` from PassMerger's literal: after any reload the
// empty-query list reported revision {0,0} and `exclude` was ignored).
func c08r23(c *Ctx, r *Report) {
	l := c.L
	r.rule("C08-R23", "D (constructors store the revision they are given)", "P1",
		"every function of package fzf that builds a Merger value and has a parameter of type revision stores that parameter into the Merger's revision field",
		"exclusions made after a reload are dropped as stale: the item stays in the list")
	mg := l.Named("fzf", "Merger")
	rev := l.Named("fzf", "revision")
	if mg == nil || rev == nil {
		r.unest("anchors", token.NoPos, nil, "anchors Merger / revision", "cannot resolve")
		return
	}
	n := 0
	for _, fn := range l.AllFuncs() {
		if fn.Blocks == nil || fn.Pkg != l.pkg("fzf") || fn.Parent() != nil {
			continue
		}
		var rp *ssa.Parameter
		for _, p := range fn.Params {
			if nn, ok := p.Type().(*types.Named); ok && nn.Obj() == rev.Obj() {
				rp = p
			}
		}
		if rp == nil {
			continue
		}
		var allocs []*ssa.Alloc
		eachInstr(fn, func(in ssa.Instruction) {
			if al, ok := in.(*ssa.Alloc); ok {
				if nn, ok := deref(al.Type()).(*types.Named); ok && nn.Obj() == mg.Obj() {
					allocs = append(allocs, al)
				}
			}
		})
		for _, al := range allocs {
			n++
			stored := false
			eachInstr(fn, func(in ssa.Instruction) {
				st, ok := in.(*ssa.Store)
				if !ok {
					return
				}
				fld, base := fieldOf(st.Addr)
				if fld != nil && fld.Name() == "revision" && base == ssa.Value(al) && st.Val == ssa.Value(rp) {
					stored = true
				}
			})
			r.check(stored, relName(fn)+":the new Merger carries the given revision", al.Pos(), fn, "revision field set from the parameter", "a Merger is built without the revision it was created for")
		}
	}
	r.floor("Merger constructors with a revision parameter", n, 2)
}

// c09r17: accept-or-print-query accepts when there is something to accept and prints the query otherwise.
// "Something to accept" is the same as for accept-non-empty: a selection (also when the current query matches
// nothing) or a non-empty list (round-9 mutant C09a9 asked `t.currentItem() != nil`: with lines selected and a
// query without matches the query was printed instead of the selection).
func c09r17(c *Ctx, r *Report) {
	l := c.L
	r.rule("C09-R17", "E (sibling agreement of the accept family)", "P1",
		"in Terminal.Loop's action interpreter, the request reqPrintQuery of accept-or-print-query is posted under a condition that depends on len(Terminal.selected) and on Merger.Length(), like the reqClose of accept-non-empty",
		"with a selection and a query that matches nothing the query is printed and the selected lines are lost")
	loop := l.Fn("fzf", "(*Terminal).Loop")
	rpq := l.Const("fzf", "reqPrintQuery")
	fSel := l.Field("fzf", "Terminal", "selected")
	mlen := l.Fn("fzf", "(*Merger).Length")
	if loop == nil || rpq == nil || fSel == nil || mlen == nil {
		r.unest("anchors", token.NoPos, nil, "anchors Terminal.Loop / reqPrintQuery / selected / Merger.Length", "cannot resolve")
		return
	}
	kq, _ := constInt(rpq)
	cc := cdCache{}
	n := 0
	for _, fn := range withClosures(loop) {
		eachInstr(fn, func(in ssa.Instruction) {
			call, ok := in.(*ssa.Call)
			if !ok || call.Common().StaticCallee() != nil || call.Common().IsInvoke() {
				return
			}
			has := false
			for _, a := range call.Call.Args {
				// variadic: the constant is stored into a slice literal; look through it
				for w := range backwardSlice(a, nil, nil) {
					if k, isK := constIntVal(w); isK && k == kq {
						if nn, ok := w.Type().(*types.Named); ok && nn.Obj().Name() == "EventType" {
							has = true
						}
					}
				}
			}
			if !has {
				return
			}
			// only the posts that are conditional (the plain print-query action posts it unconditionally within its case)
			usesSel, usesLen, conditional := false, false, false
			for cond := range cc.of(in) {
				for w := range backwardSlice(cond, func(*ssa.CallCommon) bool { return true }, nil) {
					if fld, _ := loadedField(w); fld == fSel {
						usesSel = true
						conditional = true
					}
					if cl, ok := w.(*ssa.Call); ok {
						if cl.Common().StaticCallee() == mlen {
							usesLen = true
							conditional = true
						}
						if cal := cl.Common().StaticCallee(); cal != nil && cal.Name() == "currentItem" {
							conditional = true
						}
					}
				}
			}
			if !conditional {
				return
			}
			n++
			r.check(usesSel && usesLen, fmt.Sprintf("%s:conditional post #%d of reqPrintQuery", relName(rootFn(fn)), n), call.Pos(), fn,
				"decided by the selection and the length of the list", "the decision to print the query does not look at the selection and at the length of the list")
		})
	}
	r.floor("conditional posts of reqPrintQuery", n, 1)
}

// c09r18: selectItem answers "is the item selected now". select-all walks the list and STOPS at the first
// false (the limit is reached), so an item that was selected before has to count as success (round-9 mutant C09c9
// merged the two early returns: select-all stopped at the first line that had been selected by hand).
func c09r18(c *Ctx, r *Report) {
	l := c.L
	r.rule("C09-R18", "A (false only for a full selection)", "P1",
		"in Terminal.selectItem, every `return false` is reached only under len(Terminal.selected) >= Terminal.multi",
		"select-all (and the other loops over selectItem) stop at a line that was already selected: the lines after it stay unselected")
	fn := l.Fn("fzf", "(*Terminal).selectItem")
	fSel := l.Field("fzf", "Terminal", "selected")
	fMul := l.Field("fzf", "Terminal", "multi")
	if fn == nil || fSel == nil || fMul == nil {
		r.unest("anchors", token.NoPos, nil, "anchors Terminal.selectItem / selected / multi", "cannot resolve")
		return
	}
	pc := pathConds(fn)
	isLimit := func(atom ssa.Value, val bool) bool {
		b, ok := atom.(*ssa.BinOp)
		if !ok {
			return false
		}
		lenSel := func(v ssa.Value) bool {
			call, ok := v.(*ssa.Call)
			if !ok || calleeName(call.Common()) != "builtin.len" {
				return false
			}
			fld, _ := loadedField(call.Call.Args[0])
			return fld == fSel
		}
		multi := func(v ssa.Value) bool { fld, _ := loadedField(v); return fld == fMul }
		switch {
		case lenSel(b.X) && multi(b.Y):
			return b.Op == token.GEQ && val || b.Op == token.LSS && !val
		case multi(b.X) && lenSel(b.Y):
			return b.Op == token.LEQ && val || b.Op == token.GTR && !val
		}
		return false
	}
	n := 0
	eachInstr(fn, func(in ssa.Instruction) {
		ret, ok := in.(*ssa.Return)
		if !ok || len(ret.Results) != 1 {
			return
		}
		v, isK := constBool(retResult(ret, 0))
		if !isK || v {
			return
		}
		n++
		holds, reach := pc.Implies(ret.Block(), func(lits []Lit) bool { return hasLit(lits, isLimit) })
		r.check(holds && reach, fmt.Sprintf("%s:`return false` #%d means the limit is reached", relName(fn), n), ret.Pos(), fn,
			"only under len(selected) >= multi", "false is also returned where the limit is not reached (an already selected item)")
	})
	r.floor("`return false` in selectItem", n, 1)
}

// c10r11: when a request is folded into one the coordinator has not taken yet, the NEWER request wins for the
// fields that carry a complete new value (nth, the reload command): the older one only fills a field the newer
// one left empty (round-9 mutant C10a9 wrote `if pending.nth != nil { r.nth = pending.nth }`: of two quick
// change-nth the older one was searched while the terminal showed the newer).
func c10r11(c *Ctx, r *Report) {
	l := c.L
	r.rule("C10-R11", "A (fill only what the newer request left empty)", "P1",
		"in the function that folds a pending searchRequest into a new one, a store of the pending request's nth (command) into the result is reached only under `<receiver>.nth == nil` (`.command == nil`)",
		"of two field-selection changes posted before the coordinator wakes up, the older one is searched: the list contradicts the nth in force")
	req := l.Named("fzf", "searchRequest")
	if req == nil {
		r.unest("anchors", token.NoPos, nil, "anchor searchRequest", "cannot resolve")
		return
	}
	isReqT := func(t types.Type) bool { nn, ok := t.(*types.Named); return ok && nn.Obj() == req.Obj() }
	n := 0
	for _, fn := range l.AllFuncs() {
		if fn.Blocks == nil || fn.Pkg != l.pkg("fzf") || fn.Signature.Recv() == nil || !isReqT(fn.Signature.Recv().Type()) {
			continue
		}
		if fn.Signature.Params().Len() != 1 || !isReqT(fn.Signature.Params().At(0).Type()) || fn.Signature.Results().Len() != 1 || !isReqT(fn.Signature.Results().At(0).Type()) {
			continue
		}
		recv, pending := fn.Params[0], fn.Params[1]
		owner := func(base ssa.Value) *ssa.Parameter {
			for _, p := range []*ssa.Parameter{recv, pending} {
				if base == ssa.Value(p) {
					return p
				}
				if al, ok := base.(*ssa.Alloc); ok && al.Comment == p.Name() {
					return p
				}
			}
			return nil
		}
		fieldOfReq := func(v ssa.Value) (string, *ssa.Parameter) {
			v = stripConv(v)
			if f, ok := v.(*ssa.Field); ok {
				return f.X.Type().Underlying().(*types.Struct).Field(f.Field).Name(), owner(f.X)
			}
			if fld, base := loadedField(v); fld != nil && base != nil {
				return fld.Name(), owner(base)
			}
			return "", nil
		}
		pc := pathConds(fn)
		eachInstr(fn, func(in ssa.Instruction) {
			st, ok := in.(*ssa.Store)
			if !ok {
				return
			}
			fld, base := fieldOf(st.Addr)
			if fld == nil || base == nil || owner(base) != recv || (fld.Name() != "nth" && fld.Name() != "command") {
				return
			}
			name, from := fieldOfReq(st.Val)
			if from != pending || name != fld.Name() {
				return
			}
			n++
			holds, reach := pc.Implies(st.Block(), func(lits []Lit) bool {
				return hasLit(lits, func(atom ssa.Value, val bool) bool {
					b, ok := atom.(*ssa.BinOp)
					if !ok || (b.Op != token.EQL && b.Op != token.NEQ) {
						return false
					}
					// `x == nil` or `nil == x`
					x, y := b.X, b.Y
					if cx, isC := x.(*ssa.Const); isC && cx.IsNil() {
						x, y = y, x
					}
					cst, ok := y.(*ssa.Const)
					if !ok || !cst.IsNil() {
						return false
					}
					nm, who := fieldOfReq(x)
					return nm == fld.Name() && who == recv && (b.Op == token.EQL) == val
				})
			})
			r.check(holds && reach, fmt.Sprintf("%s:the pending %s only fills an empty %s", relName(fn), fld.Name(), fld.Name()), st.Pos(), fn,
				"stored under `own "+fld.Name()+" == nil`", "the pending request's "+fld.Name()+" overwrites the newer request's")
		})
	}
	r.floor("fill-if-missing stores in the fold of searchRequest", n, 2)
}

// c10r12: change-nth takes effect only if the new expression differs from the one in force, and
// compareRanges decides that (round-9 mutant C10c9 compared the begin bounds only: `2` -> `2..` was "no change").
func c10r12(c *Ctx, r *Report) {
	l := c.L
	r.rule("C10-R12", "D (ranges are compared as wholes)", "P1",
		"compareRanges compares its element pairs as whole Range values (or compares every field of Range)",
		"a change of the field selection that keeps one bound is ignored: the search keeps the old fields")
	fn := l.Fn("fzf", "compareRanges")
	rng := l.Named("fzf", "Range")
	if fn == nil || rng == nil {
		r.unest("anchors", token.NoPos, nil, "anchors compareRanges / Range", "cannot resolve")
		return
	}
	whole := 0
	fields := map[string]bool{}
	eachInstr(fn, func(in ssa.Instruction) {
		b, ok := in.(*ssa.BinOp)
		if !ok || (b.Op != token.EQL && b.Op != token.NEQ) {
			return
		}
		if nn, ok := b.X.Type().(*types.Named); ok && nn.Obj() == rng.Obj() {
			whole++
			return
		}
		for _, side := range []ssa.Value{b.X, b.Y} {
			if f, ok := side.(*ssa.Field); ok {
				if nn, ok := f.X.Type().(*types.Named); ok && nn.Obj() == rng.Obj() {
					fields[nn.Underlying().(*types.Struct).Field(f.Field).Name()] = true
				}
			}
			if fld, base := loadedField(side); fld != nil && base != nil {
				if nn, ok := deref(base.Type()).(*types.Named); ok && nn.Obj() == rng.Obj() {
					fields[fld.Name()] = true
				}
			}
		}
	})
	nf := rng.Underlying().(*types.Struct).NumFields()
	r.check(whole > 0 || len(fields) == nf, relName(fn)+":elements are compared completely", fn.Pos(), fn,
		"whole Range values are compared", fmt.Sprintf("only %d of the %d fields of Range are compared", len(fields), nf))
}

// c11r21: transformOffsets(diff, rightTrim) shifts the colour spans after the line was cut for display;
// rightTrim says that the RIGHT end was replaced by the ellipsis, which costs the spans that reach it two more
// cells. It may only be true where that cut happened on the path (round-9 mutant C11c9 passed true in the
// keep-right branch, which cuts on the left only: the last two visible characters of a colour span that reaches
// the right edge lost their colour).
func c11r21(c *Ctx, r *Report) {
	l := c.L
	r.rule("C11-R21", "D (the right-trim flag follows a cut of the right end)", "P1",
		"in Terminal.printHighlighted, every call of the span-shifting closure (parameters diff, rightTrim) that receives true for rightTrim — as a constant, or as the true edge of a phi — is reached through an append of the ellipsis to a left part of the line on that path",
		"with --keep-right the end of a coloured line is drawn without its colour")
	fn := l.Fn("fzf", "(*Terminal).printHighlighted")
	if fn == nil {
		r.unest("anchors", token.NoPos, nil, "anchor Terminal.printHighlighted", "cannot resolve")
		return
	}
	// the closure: two parameters (int32, bool)
	var shifter *ssa.Function
	for _, g := range fn.AnonFuncs {
		if len(g.Params) == 2 {
			if bt, ok := g.Params[1].Type().Underlying().(*types.Basic); ok && bt.Kind() == types.Bool {
				if it, ok := g.Params[0].Type().Underlying().(*types.Basic); ok && it.Kind() == types.Int32 {
					shifter = g
				}
			}
		}
	}
	if shifter == nil {
		r.unest(relName(fn)+":shifter", fn.Pos(), fn, "the closure transformOffsets(diff int32, rightTrim bool)", "not found")
		return
	}
	// a right cut: append(<slice of something>, ellipsis...) where the first operand is a Slice with a High bound
	isRightCut := func(in ssa.Instruction) bool {
		call, ok := in.(*ssa.Call)
		if !ok {
			return false
		}
		b, ok := call.Common().Value.(*ssa.Builtin)
		if !ok || b.Name() != "append" || len(call.Call.Args) != 2 {
			return false
		}
		sl, ok := call.Call.Args[0].(*ssa.Slice)
		return ok && sl.High != nil
	}
	n := 0
	eachInstr(fn, func(in ssa.Instruction) {
		call, ok := in.(*ssa.Call)
		if !ok {
			return
		}
		fs, _ := resolveFuncs(call.Common().Value)
		is := false
		for _, f := range fs {
			if f == shifter {
				is = true
			}
		}
		if !is {
			return
		}
		n++
		flag := call.Call.Args[len(call.Call.Args)-1]
		// blocks from which `true` arrives
		var trueFrom []*ssa.BasicBlock
		if v, isK := constBool(flag); isK {
			if v {
				trueFrom = append(trueFrom, call.Block())
			}
		} else if phi, ok := flag.(*ssa.Phi); ok {
			for i, e := range phi.Edges {
				if v, isK := constBool(e); isK && v {
					trueFrom = append(trueFrom, phi.Block().Preds[i])
				} else if !isK {
					trueFrom = append(trueFrom, nil)
				}
			}
		} else {
			trueFrom = append(trueFrom, nil)
		}
		good := true
		for _, bb := range trueFrom {
			if bb == nil {
				good = false
				continue
			}
			// a right cut in bb or in a block dominating it, inside the same branch
			found := false
			for d := bb; d != nil; d = d.Idom() {
				for _, i2 := range d.Instrs {
					if isRightCut(i2) && (d != call.Block() || instrIndex(i2) < instrIndex(in)) {
						found = true
					}
				}
				if found {
					break
				}
			}
			if !found {
				good = false
			}
		}
		r.check(good, fmt.Sprintf("%s:span shift #%d gets rightTrim=true only after a cut of the right end", relName(fn), n), call.Pos(), fn,
			"true arrives only from a path that appended the ellipsis on the right", "rightTrim can be true on a path that did not cut the right end of the line")
	})
	r.floor("calls of the span-shifting closure", n, 2)
}

// c13r13: Reader.event is a three-state flag shared by the loader (feed / fin) and the poller goroutine. The
// poller consumes "new items" by a compare-and-swap, so that a concurrent EvtReadFin written by the loader is
// never overwritten (round-9 mutant C13a9 replaced the CAS by load, Set, store: the store, delayed by Set while
// the coordinator held the box, overwrote EvtReadFin; Reader.fin then waited forever and the last items were
// never searched).
func c13r13(c *Ctx, r *Report) {
	l := c.L
	r.rule("C13-R13", "B (the poller changes the reader's event flag by compare-and-swap only)", "P1",
		"in Reader.startEventPoller and its closures, Reader.event is written only by atomic.CompareAndSwapInt32 (no atomic.StoreInt32, no plain store)",
		"the end-of-input event is lost: the final search never happens and fzf never finishes loading")
	fn := l.Fn("fzf", "(*Reader).startEventPoller")
	fEv := l.Field("fzf", "Reader", "event")
	if fn == nil || fEv == nil {
		r.unest("anchors", token.NoPos, nil, "anchors Reader.startEventPoller / Reader.event", "cannot resolve")
		return
	}
	onEvent := func(v ssa.Value) bool {
		for w := range backwardSlice(v, nil, nil) {
			if fld, _ := fieldOf(w); fld == fEv {
				return true
			}
		}
		return false
	}
	cas, bad := 0, 0
	for _, g := range withClosures(fn) {
		eachInstr(g, func(in ssa.Instruction) {
			switch x := in.(type) {
			case *ssa.Call:
				switch calleeName(x.Common()) {
				case "sync/atomic.CompareAndSwapInt32":
					if onEvent(x.Call.Args[0]) {
						cas++
					}
				case "sync/atomic.StoreInt32", "sync/atomic.SwapInt32", "sync/atomic.AddInt32":
					if onEvent(x.Call.Args[0]) {
						bad++
						r.bad(fmt.Sprintf("%s:unconditional write #%d of the event flag", relName(fn), bad), x.Pos(), g, "compare-and-swap", "the poller writes Reader.event unconditionally: a state written by the loader in the meantime is overwritten")
					}
				}
			case *ssa.Store:
				if onEvent(x.Addr) {
					if fld, _ := fieldOf(x.Addr); fld == fEv {
						bad++
						r.bad(fmt.Sprintf("%s:unconditional write #%d of the event flag", relName(fn), bad), x.Pos(), g, "compare-and-swap", "the poller stores into Reader.event without synchronisation")
					}
				}
			}
		})
	}
	if bad == 0 {
		r.ok(relName(fn)+":the poller only compare-and-swaps the event flag", fn.Pos(), fn, fmt.Sprintf("%d compare-and-swap sites, no other write", cas))
	}
	r.floor("compare-and-swap sites on Reader.event in the poller", cas, 1)
}

// c13r14: the `space` handed to matchChunk is a list owned by the chunk cache (the matches of a shorter
// query). It is read, never written: the matches are collected in a slice of their own (round-9 mutant C13c9
// started from `matches := space[:0]` "to filter without allocating": appending overwrote the cached list, and
// going back to the shorter query served the damaged list).
func c13r14(c *Ctx, r *Report) {
	l := c.L
	r.rule("C13-R14", "F (the cached search scope is not appended to)", "P1",
		"in Pattern.matchChunk, no append has as its first operand a value derived from the `space` parameter",
		"the cached result of a shorter query is overwritten while a longer one is searched: going back shows fewer lines than match")
	fn := l.Fn("fzf", "(*Pattern).matchChunk")
	if fn == nil || len(fn.Params) < 3 {
		r.unest("anchors", token.NoPos, nil, "anchor Pattern.matchChunk", "cannot resolve")
		return
	}
	var space *ssa.Parameter
	for _, p := range fn.Params {
		if p.Name() == "space" {
			space = p
		}
	}
	if space == nil {
		r.unest(relName(fn)+":space", fn.Pos(), fn, "the parameter holding the cached list", "no parameter named space")
		return
	}
	n := 0
	eachInstr(fn, func(in ssa.Instruction) {
		call, ok := in.(*ssa.Call)
		if !ok {
			return
		}
		b, ok := call.Common().Value.(*ssa.Builtin)
		if !ok || b.Name() != "append" {
			return
		}
		n++
		alias := false
		for w := range backwardSlice(call.Call.Args[0], nil, func(x ssa.Value) bool {
			c2, ok := x.(*ssa.Call)
			if !ok {
				return false
			}
			b2, isB := c2.Common().Value.(*ssa.Builtin)
			return !(isB && b2.Name() == "append")
		}) {
			if w == ssa.Value(space) {
				alias = true
			}
		}
		r.check(!alias, fmt.Sprintf("%s:append #%d collects into a slice of its own", relName(fn), n), call.Pos(), fn,
			"the destination does not share storage with the cached list", "matches are appended to (a re-slice of) the cached list handed in as `space`")
	})
	r.floor("appends in matchChunk", n, 4)
}

// c14r20: the terminal state that fzf restores on exit is the one it found when it started. It is saved
// once, by initPlatform; the raw mode that Resume re-enters after execute(...) or CTRL-Z is NOT a state to
// restore (round-9 mutant C14b9 let setupTerminal save MakeRaw's result as well: after an execute(stty ...) the
// terminal was left with ECHO and ICANON off).
func c14r20(c *Ctx, r *Report) {
	l := c.L
	r.rule("C14-R20", "B (who may write the saved terminal state)", "P1",
		"LightRenderer.origState is stored only by LightRenderer.initPlatform",
		"on exit the terminal is restored to a state a child process left behind (or to raw mode) instead of the one fzf found")
	fO := l.Field("tui", "LightRenderer", "origState")
	ip := l.Fn("tui", "(*LightRenderer).initPlatform")
	if fO == nil || ip == nil {
		r.unest("anchors", token.NoPos, nil, "anchors LightRenderer.origState / initPlatform", "cannot resolve")
		return
	}
	n, in0 := 0, 0
	for _, fn := range l.AllFuncs() {
		if fn.Blocks == nil || fn.Pkg == nil || !isModulePkg(fn.Pkg.Pkg) {
			continue
		}
		eachInstr(fn, func(in ssa.Instruction) {
			st, ok := in.(*ssa.Store)
			if !ok {
				return
			}
			if fld, _ := fieldOf(st.Addr); fld != fO {
				return
			}
			n++
			if rootFn(fn) == ip {
				in0++
				return
			}
			r.bad(fmt.Sprintf("%s:store into the saved terminal state", relName(fn)), st.Pos(), fn, "saved once at start-up", "the saved terminal state is overwritten after start-up")
		})
	}
	r.ok(relName(ip)+":the terminal state is saved once", ip.Pos(), ip, fmt.Sprintf("%d stores into origState, all in initPlatform", n))
	r.floor("stores into LightRenderer.origState in initPlatform", in0, 1)
}

// c12r14: the popup's script re-exports fzf's environment with `export NAME=VALUE` lines that a shell reads;
// VALUE therefore goes through the same single-quote escaping as the arguments (round-9 mutant C16a9 wrote it
// with %q: Go's double-quoted form lets the shell expand `$`, backquotes and backslashes — an API key `s3cr$t9`
// arrived as `s3cr`, and the truncated key was accepted).
func c12r14(c *Ctx, r *Report) {
	l := c.L
	r.rule("C12-R14", "D (exported values are single-quoted)", "P1",
		"in runProxy, every fmt.Sprintf whose constant format begins with `export ` has no %q verb, and the operand of its last %s is the result of escapeSingleQuote",
		"environment values containing $, ` or \\ reach the fzf inside the popup altered: the listener's API key is not the configured one, preview commands see other values")
	fn := l.Fn("fzf", "runProxy")
	esq := l.Fn("fzf", "escapeSingleQuote")
	if fn == nil || esq == nil {
		r.unest("anchors", token.NoPos, nil, "anchors runProxy / escapeSingleQuote", "cannot resolve")
		return
	}
	n := 0
	eachInstr(fn, func(in ssa.Instruction) {
		call, ok := in.(*ssa.Call)
		if !ok || calleeName(call.Common()) != "fmt.Sprintf" {
			return
		}
		format, isK := constString(call.Call.Args[0])
		if !isK || !strings.HasPrefix(format, "export ") {
			return
		}
		n++
		why := ""
		if strings.Contains(format, "%q") || strings.Contains(format, "%v") {
			why = "the format " + fmt.Sprintf("%q", format) + " renders the value with Go's quoting, which a shell expands"
		}
		// the variadic slice: the last element stored
		var last ssa.Value
		lastIdx := int64(-1)
		for w := range backwardSlice(call.Call.Args[1], nil, nil) {
			al, ok := w.(*ssa.Alloc)
			if !ok {
				continue
			}
			eachInstr(fn, func(i2 ssa.Instruction) {
				st, ok := i2.(*ssa.Store)
				if !ok {
					return
				}
				ia, ok := st.Addr.(*ssa.IndexAddr)
				if !ok || ia.X != ssa.Value(al) {
					return
				}
				if k, isK := constIntVal(ia.Index); isK && k > lastIdx {
					lastIdx, last = k, st.Val
				}
			})
		}
		if why == "" {
			quoted := false
			if mi, ok := last.(*ssa.MakeInterface); ok {
				if c2, ok := mi.X.(*ssa.Call); ok && c2.Common().StaticCallee() == esq {
					quoted = true
				}
			}
			if !quoted {
				why = "the exported value is " + describe(last) + ", not escapeSingleQuote(..)"
			}
		}
		r.check(why == "", fmt.Sprintf("%s:export line #%d single-quotes the value", relName(fn), n), call.Pos(), fn, "export NAME='...'", why)
	})
	r.floor("export lines built in runProxy", n, 1)
}

// c16r20: the action parser runs on the server goroutine (POST bodies) and on the terminal goroutine
// (transform output, --bind at start-up) without a common lock; it must be a function of its argument
// (round-9 mutant C16c9 cached compiled regexps in a package-level map: two goroutines wrote the map —
// "concurrent map writes", fzf died).
func c16r20(c *Ctx, r *Report) {
	l := c.L
	r.rule("C16-R20", "B (no writer of package-level state below the action parser)", "P1",
		"no function reachable from parseSingleActionList (static calls and the calls the VTA graph resolves) stores into a package-level variable or updates a package-level map",
		"a POST and a transform action parsed at the same time race on shared parser state: fzf can crash on a request")
	root := l.Fn("fzf", "parseSingleActionList")
	if root == nil {
		r.unest("anchors", token.NoPos, nil, "anchor parseSingleActionList", "cannot resolve")
		return
	}
	cg := l.CallGraph()
	reach := map[*ssa.Function]bool{}
	var walk func(f *ssa.Function)
	walk = func(f *ssa.Function) {
		if f == nil || reach[f] || f.Blocks == nil || f.Pkg == nil || !isModulePkg(f.Pkg.Pkg) {
			return
		}
		reach[f] = true
		if nd := cg.Nodes[f]; nd != nil {
			for _, e := range nd.Out {
				walk(e.Callee.Func)
			}
		}
		eachInstr(f, func(in ssa.Instruction) {
			walk(staticCallee(in))
			if mcl, ok := in.(*ssa.MakeClosure); ok {
				walk(mcl.Fn.(*ssa.Function))
			}
		})
	}
	walk(root)
	var fns []*ssa.Function
	for f := range reach {
		fns = append(fns, f)
	}
	sort.Slice(fns, func(i, j int) bool { return relName(fns[i]) < relName(fns[j]) })
	n := 0
	for _, f := range fns {
		k := 0
		eachInstr(f, func(in ssa.Instruction) {
			var addr ssa.Value
			switch x := in.(type) {
			case *ssa.Store:
				addr = x.Addr
			case *ssa.MapUpdate:
				addr = x.Map
			default:
				return
			}
			n++
			root := addrRoot(addr)
			if u, ok := root.(*ssa.UnOp); ok && u.Op == token.MUL {
				root = addrRoot(u.X)
			}
			if g, ok := root.(*ssa.Global); ok {
				k++
				r.bad(fmt.Sprintf("%s:write #%d to package-level %s", relName(f), k, g.Name()), in.Pos(), f, "the parser keeps no state", "a function the action parser runs writes the package-level variable "+g.Name()+" (server and terminal goroutines parse concurrently)")
			}
		})
	}
	r.ok(relName(root)+":no package-level state is written below the action parser", root.Pos(), root, fmt.Sprintf("%d functions reachable, %d stores inspected, none into a package-level variable", len(fns), n))
	r.floor("functions reachable from parseSingleActionList", len(fns), 10)
}

// c17r24: `--preview-window ...,<N(alt)` copies the options parsed so far as the base of the alternative
// layout. The copy includes the pointer to an alternative that an EARLIER --preview-window installed, so it is
// cleared before the alternative is parsed (round-9 mutant C17a9 dropped that line: with two occurrences of
// `<N(...)` the earlier layer's alternative came back at run time — later occurrences did not override earlier ones).
func c17r24(c *Ctx, r *Report) {
	l := c.L
	r.rule("C17-R24", "A (the copied options start without an alternative of their own)", "P1",
		"in parsePreviewWindowImpl, every path from the store of a fresh copy into previewOpts.alternative to the recursive call passes a store of nil into the copy's own alternative field",
		"the alternative layout of an earlier --preview-window resurfaces below the threshold: a later occurrence does not override the earlier one")
	fn := l.Fn("fzf", "parsePreviewWindowImpl")
	if fn == nil {
		r.unest("anchors", token.NoPos, nil, "anchor parsePreviewWindowImpl", "cannot resolve")
		return
	}
	n := 0
	eachInstr(fn, func(in ssa.Instruction) {
		st, ok := in.(*ssa.Store)
		if !ok {
			return
		}
		fld, _ := fieldOf(st.Addr)
		if fld == nil || fld.Name() != "alternative" {
			return
		}
		copyAl, ok := st.Val.(*ssa.Alloc)
		if !ok {
			return
		}
		n++
		isClear := func(i ssa.Instruction) bool {
			s2, ok := i.(*ssa.Store)
			if !ok {
				return false
			}
			f2, base := fieldOf(s2.Addr)
			if f2 == nil || f2.Name() != "alternative" {
				return false
			}
			cst, isNil := s2.Val.(*ssa.Const)
			if !isNil || !cst.IsNil() {
				return false
			}
			// base is the copy: the Alloc itself or a load of the field it was stored into
			if base == ssa.Value(copyAl) {
				return true
			}
			if f3, _ := loadedField(base); f3 != nil && f3.Name() == "alternative" {
				return true
			}
			return false
		}
		isRec := func(i ssa.Instruction) bool { return staticCallee(i) == fn }
		hit := pathAvoiding(st, isRec, isClear, nil)
		r.check(hit == nil, fmt.Sprintf("%s:alternative copy #%d is cleared before it is parsed", relName(fn), n), st.Pos(), fn,
			"copy.alternative = nil precedes the recursive call", "the copy keeps the alternative pointer of the options it was copied from")
	})
	r.floor("copies installed as previewOpts.alternative", n, 1)
}

// runeLiteral reconstructs the constant contents of a []rune / string(..[]rune{..}) literal value.
func runeLiteral(fn *ssa.Function, v ssa.Value) ([]rune, bool) {
	v = stripConv(v)
	if cv, ok := v.(*ssa.Convert); ok {
		v = cv.X
	}
	sl, ok := v.(*ssa.Slice)
	if !ok {
		return nil, false
	}
	al, ok := sl.X.(*ssa.Alloc)
	if !ok {
		return nil, false
	}
	arr, ok := deref(al.Type()).Underlying().(*types.Array)
	if !ok {
		return nil, false
	}
	out := make([]rune, arr.Len())
	seen := 0
	eachInstr(fn, func(in ssa.Instruction) {
		st, ok := in.(*ssa.Store)
		if !ok {
			return
		}
		ia, ok := st.Addr.(*ssa.IndexAddr)
		if !ok || ia.X != ssa.Value(al) {
			return
		}
		i, ok1 := constIntVal(ia.Index)
		k, ok2 := constIntVal(st.Val)
		if ok1 && ok2 && i >= 0 && i < int64(len(out)) {
			out[i] = rune(k)
			seen++
		}
	})
	return out, seen == len(out)
}

// c17r25: maskActionContents hides `,` `:` `+` where they are KEY NAMES by replacing them with the private
// escape characters; parseKeyChords maps the escape characters back. The replacement table therefore keeps the
// length and puts, at every position that changes, the escape character of the character it replaces
// (round-9 mutant C17b9 wrote escapedComma into the `,:,` entry: `--bind 'a,:,b:abort'` bound `,` instead of `:`).
func c17r25(c *Ctx, r *Report) {
	l := c.L
	r.rule("C17-R25", "E (encoder table: each changed position holds the escape of the character it replaces)", "P1",
		"in maskActionContents, every strings.ReplaceAll(masked, FROM, TO) with a constant FROM and a TO built from a rune literal has len(TO) == len(FROM) and, position by position, TO[i] == FROM[i] or TO[i] == the escape constant of FROM[i] (escapedColon for ':', escapedComma for ',', escapedPlus for '+')",
		"a key list that contains `:` `,` or `+` as key names binds the wrong key: a key does not receive the listed actions")
	fn := l.Fn("fzf", "maskActionContents")
	if fn == nil {
		r.unest("anchors", token.NoPos, nil, "anchor maskActionContents", "cannot resolve")
		return
	}
	esc := map[rune]rune{}
	for ch, name := range map[rune]string{':': "escapedColon", ',': "escapedComma", '+': "escapedPlus"} {
		cst := l.Const("fzf", name)
		if cst == nil {
			r.unest("anchors:"+name, token.NoPos, nil, "anchor "+name, "cannot resolve")
			return
		}
		v, _ := constInt(cst)
		esc[ch] = rune(v)
	}
	n := 0
	eachInstr(fn, func(in ssa.Instruction) {
		call, ok := in.(*ssa.Call)
		if !ok || calleeName(call.Common()) != "strings.ReplaceAll" {
			return
		}
		from, isK := constString(call.Call.Args[1])
		if !isK {
			return
		}
		to, ok := runeLiteral(fn, call.Call.Args[2])
		if !ok {
			return
		}
		n++
		fr := []rune(from)
		why := ""
		if len(fr) != len(to) {
			why = fmt.Sprintf("%q is replaced by %d characters", from, len(to))
		} else {
			for i := range fr {
				if to[i] != fr[i] && to[i] != esc[fr[i]] {
					why = fmt.Sprintf("position %d of the replacement for %q is not the escape of %q", i, from, string(fr[i]))
				}
			}
		}
		r.check(why == "", fmt.Sprintf("%s:replacement for %q", relName(fn), from), call.Pos(), fn, "same length, escapes of the characters they replace", why)
	})
	r.floor("escape replacements in maskActionContents", n, 5)
}

// c18r13: the history file is framed by the writer as lines joined with "\n" plus a final empty line; the
// reader may strip exactly that framing. Blanks at either end of a query belong to the query (round-9 mutant
// C18a9 read with strings.TrimSpace: the newest entry `git ` came back as `git` and was written back that way).
func c18r13(c *Ctx, r *Report) {
	l := c.L
	r.rule("C18-R13", "E (reader and writer of the history file agree on the framing)", "P1",
		"in NewHistory, the file's contents reach strings.Split only through conversions and strings.Trim / TrimRight / TrimSuffix / TrimLeft / TrimPrefix with the constant cut set \"\\n\"",
		"queries that begin or end with a blank are loaded without it: a new session does not load exactly the queries that were submitted")
	fn := l.Fn("fzf", "NewHistory")
	if fn == nil {
		r.unest("anchors", token.NoPos, nil, "anchor NewHistory", "cannot resolve")
		return
	}
	n := 0
	eachInstr(fn, func(in ssa.Instruction) {
		call, ok := in.(*ssa.Call)
		if !ok || calleeName(call.Common()) != "strings.Split" {
			return
		}
		n++
		why := ""
		for w := range backwardSlice(call.Call.Args[0], func(*ssa.CallCommon) bool { return true }, nil) {
			c2, ok := w.(*ssa.Call)
			if !ok {
				continue
			}
			nm := calleeName(c2.Common())
			switch nm {
			case "os.ReadFile", "io.ReadAll":
				continue
			case "strings.Trim", "strings.TrimRight", "strings.TrimLeft", "strings.TrimSuffix", "strings.TrimPrefix":
				if set, isK := constString(c2.Call.Args[1]); isK && set == "\n" {
					continue
				}
				why = nm + " with a cut set other than \"\\n\""
			default:
				if _, isB := c2.Common().Value.(*ssa.Builtin); isB {
					continue
				}
				why = "the contents pass through " + nm
			}
		}
		r.check(why == "", fmt.Sprintf("%s:split #%d sees the file minus its line framing only", relName(fn), n), call.Pos(), fn, "only \"\\n\" is stripped", why+": characters that belong to a stored query are removed")
	})
	r.floor("splits of the history file", n, 1)
}

// c18r14: `become` ends the session like accept does, so the query is recorded. There are two ways out:
// the process image is replaced on the spot, or — under --tmux — the request reqBecome makes the proxy do it.
// exit() does not record for the become status, so BOTH ways have the append in front of them (round-9 mutant
// C18b9 moved the append into the direct branch: a become inside a --tmux popup lost the query).
func c18r14(c *Ctx, r *Report) {
	l := c.L
	r.rule("C18-R14", "A (must-pass-through: the query is recorded before either way out of become)", "P1",
		"in Terminal.Loop's action interpreter, every path (with Terminal.history non-nil) from the call of tui.Close in the become case to Executor.Become or to the post of reqBecome passes History.append",
		"the query submitted by a become inside a --tmux popup is not stored in the history file")
	loop := l.Fn("fzf", "(*Terminal).Loop")
	app := l.Fn("fzf", "(*History).append")
	bec := l.Fn("util", "(*Executor).Become")
	rb := l.Const("fzf", "reqBecome")
	fH := l.Field("fzf", "Terminal", "history")
	if loop == nil || app == nil || bec == nil || rb == nil || fH == nil {
		r.unest("anchors", token.NoPos, nil, "anchors Terminal.Loop / History.append / Executor.Become / reqBecome / Terminal.history", "cannot resolve")
		return
	}
	kb, _ := constInt(rb)
	n := 0
	for _, fn := range withClosures(loop) {
		isSink := func(in ssa.Instruction) bool {
			if staticCallee(in) == bec {
				return true
			}
			call, ok := in.(*ssa.Call)
			if !ok || call.Common().StaticCallee() != nil || call.Common().IsInvoke() {
				return false
			}
			for _, a := range call.Call.Args {
				for w := range backwardSlice(a, nil, nil) {
					if k, isK := constIntVal(w); isK && k == kb {
						if nn, ok := w.Type().(*types.Named); ok && nn.Obj().Name() == "EventType" {
							return true
						}
					}
				}
			}
			return false
		}
		var sinks []ssa.Instruction
		eachInstr(fn, func(in ssa.Instruction) {
			if isSink(in) {
				sinks = append(sinks, in)
			}
		})
		if len(sinks) == 0 {
			continue
		}
		// start: the tui Close call that dominates the sinks
		var start ssa.Instruction
		eachInstr(fn, func(in ssa.Instruction) {
			ci, ok := in.(ssa.CallInstruction)
			if !ok || !ci.Common().IsInvoke() || ci.Common().Method.Name() != "Close" {
				return
			}
			all := true
			for _, s := range sinks {
				if !dominates(in, s) {
					all = false
				}
			}
			if all {
				start = in
			}
		})
		if start == nil {
			r.unest(relName(rootFn(fn))+":become", fn.Pos(), fn, "the tui.Close call of the become case", "not found")
			continue
		}
		edgeOK := func(from, to *ssa.BasicBlock) bool {
			iff, ok := from.Instrs[len(from.Instrs)-1].(*ssa.If)
			if !ok {
				return true
			}
			b, ok := iff.Cond.(*ssa.BinOp)
			if !ok {
				return true
			}
			if fld, _ := loadedField(b.X); fld != fH {
				return true
			}
			if cst, ok := b.Y.(*ssa.Const); !ok || !cst.IsNil() {
				return true
			}
			nonNilEdge := from.Succs[0]
			if b.Op == token.EQL {
				nonNilEdge = from.Succs[1]
			}
			return to == nonNilEdge
		}
		for _, s := range sinks {
			n++
			s := s
			hit := pathAvoiding(start, func(i ssa.Instruction) bool { return i == s }, func(i ssa.Instruction) bool { return staticCallee(i) == app }, edgeOK)
			r.check(hit == nil, fmt.Sprintf("%s:way out #%d of become records the query first", relName(rootFn(fn)), n), s.Pos(), fn,
				"History.append precedes it", "this way out of become is reached without History.append: the submitted query is not stored")
		}
	}
	r.floor("ways out of the become action", n, 2)
}

// c18r15: an entry the user edited while walking through the history is kept in History.modified and has to
// come back when the entry is visited again — from either direction. previous() and next() therefore both answer
// through current() (round-9 mutant C18c9 let next() return h.lines[h.cursor] after moving: coming back DOWN to an
// edited entry showed the stored text).
func c18r15(c *Ctx, r *Report) {
	l := c.L
	r.rule("C18-R15", "E (both directions of history navigation answer through current())", "P1",
		"every value returned by History.previous and History.next is the result of History.current",
		"an edited-but-unsubmitted entry is not returned when coming back to it from one of the two directions")
	cur := l.Fn("fzf", "(*History).current")
	if cur == nil {
		r.unest("anchors", token.NoPos, nil, "anchor History.current", "cannot resolve")
		return
	}
	n := 0
	for _, name := range []string{"(*History).previous", "(*History).next"} {
		fn := l.Fn("fzf", name)
		if fn == nil {
			r.unest("anchors:"+name, token.NoPos, nil, "anchor "+name, "cannot resolve")
			continue
		}
		k := 0
		eachInstr(fn, func(in ssa.Instruction) {
			ret, ok := in.(*ssa.Return)
			if !ok || len(ret.Results) != 1 {
				return
			}
			n++
			k++
			v := retResult(ret, 0)
			call, ok := v.(*ssa.Call)
			r.check(ok && call.Common().StaticCallee() == cur, fmt.Sprintf("%s:return #%d goes through current()", relName(fn), k), ret.Pos(), fn,
				"h.current()", "returns "+describe(v)+": the edits kept in History.modified are bypassed")
		})
	}
	r.floor("returns of History.previous / next", n, 2)
}

// c19r14: trimPath removes the leading `./` of a walked path. What follows a removed `./` can be further
// separators (`.//d` — fastwalk only cleans the END of a root), and they have to go with it, or the relative
// path turns into an absolute one (D77: `--walker-root .//d` printed `/d/f`, a path that does not exist, and
// the symlink test ran stat on it).
func c19r14(c *Ctx, r *Report) {
	l := c.L
	r.rule("C19-R14", "D (separators exposed by the strip are removed with it)", "P1",
		"in trimPath, besides the test of the SECOND byte with os.IsPathSeparator (the `./` recognition) there is a loop that tests the FIRST byte with os.IsPathSeparator and drops it, reachable after a `./` was removed",
		"a root spelled with a doubled separator is listed as absolute paths that do not exist")
	fn := l.Fn("fzf", "trimPath")
	if fn == nil {
		r.unest("anchors", token.NoPos, nil, "anchor trimPath", "cannot resolve")
		return
	}
	at := map[int64]int{}
	eachInstr(fn, func(in ssa.Instruction) {
		call, ok := in.(*ssa.Call)
		if !ok || calleeName(call.Common()) != "os.IsPathSeparator" {
			return
		}
		a := stripConv(call.Call.Args[0])
		if u, ok := a.(*ssa.UnOp); ok && u.Op == token.MUL {
			if ia, ok := u.X.(*ssa.IndexAddr); ok {
				if k, isK := constIntVal(ia.Index); isK {
					at[k]++
				}
			}
		}
	})
	r.check(at[1] > 0 && at[0] > 0, relName(fn)+":separators behind a removed `./` are removed too", fn.Pos(), fn,
		fmt.Sprintf("separator tests of byte 1: %d, of byte 0: %d", at[1], at[0]),
		"only the byte after the dot is tested: what follows a removed `./` is kept even if it is a separator, and the result becomes an absolute path")
}

// c19r15: the hidden test looks at the base name of a directory: a leading dot. The two names that begin
// with a dot without being hidden, `.` and `..`, are both exempt (D78: only `..` was: `--walker-root d/.` listed
// nothing, because the root's base name `.` was taken for a hidden directory).
func c19r15(c *Ctx, r *Report) {
	l := c.L
	r.rule("C19-R15", "A (`.` and `..` are not hidden directories)", "P1",
		"in the walk callback of Reader.readFiles, a SkipDir that is returned under `base[0] == '.'` is also under base != \".\" and base != \"..\"",
		"a root spelled `dir/.` is pruned as a whole: an empty list and exit status 1 for a directory full of files")
	rf := l.Fn("fzf", "(*Reader).readFiles")
	if rf == nil {
		r.unest("anchors", token.NoPos, nil, "anchor Reader.readFiles", "cannot resolve")
		return
	}
	n := 0
	for _, fn := range withClosures(rf) {
		pc := pathConds(fn)
		eachInstr(fn, func(in ssa.Instruction) {
			ret, ok := in.(*ssa.Return)
			if !ok || len(ret.Results) != 1 {
				return
			}
			if u, isLoad := retResult(ret, 0).(*ssa.UnOp); !isLoad || u.Op != token.MUL {
				return
			} else if g, isG := u.X.(*ssa.Global); !isG || g.Name() != "SkipDir" {
				return
			}
			// the prune that is taken BECAUSE of the leading dot: every path to it has base[0] == '.'
			isDot := func(atom ssa.Value, val bool) bool {
				b, ok := atom.(*ssa.BinOp)
				if !ok {
					return false
				}
				if k, isK := constIntVal(b.Y); isK && k == '.' && (b.Op == token.EQL) == val {
					switch b.X.(type) {
					case *ssa.Index, *ssa.Lookup:
						return true
					}
				}
				return false
			}
			if holds, reach := pc.Implies(ret.Block(), func(lits []Lit) bool { return hasLit(lits, isDot) }); !holds || !reach {
				return
			}
			for _, dj := range pc.At(ret.Block()) {
				dot := false
				names := map[string]bool{}
				for _, lt := range dj {
					b, ok := lt.Atom.(*ssa.BinOp)
					if !ok {
						continue
					}
					if k, isK := constIntVal(b.Y); isK && k == '.' && (b.Op == token.EQL) == lt.Val {
						switch b.X.(type) {
						case *ssa.Index, *ssa.Lookup:
							dot = true
						}
					}
					if bt, isB := b.Y.Type().Underlying().(*types.Basic); isB && bt.Info()&types.IsString != 0 {
						// a comparison of the BASE NAME (the result of filepath.Base), not of the whole path
						if bc, isCall := b.X.(*ssa.Call); isCall && calleeName(bc.Common()) == "path/filepath.Base" {
							if sv, isK := constString(b.Y); isK && (b.Op == token.NEQ) == lt.Val {
								names[sv] = true
							}
						}
					}
				}
				if !dot {
					continue
				}
				n++
				r.check(names["."] && names[".."], fmt.Sprintf("%s:hidden-directory prune #%d exempts `.` and `..`", relName(rf), n), ret.Pos(), fn,
					"not taken for the names . and ..", "a directory whose base name is `.` (a root spelled dir/.) is pruned as hidden")
			}
		})
	}
	r.floor("prunes under a leading-dot test", n, 1)
}

// c13r15: the info line shows matched/total; `total` is the size of the snapshot that is searched. The
// coordinator takes a new snapshot in two places — when the reader reports new items, and when a search request
// arrives — and in both the count that came with the snapshot has to reach Terminal.UpdateCount before the
// search is started (D79: the search-request branch replaced the snapshot and kept the old count; followed by a
// reload-sync the display said `800/500` for the whole reload).
func c13r15(c *Ctx, r *Report) {
	l := c.L
	r.rule("C13-R15", "A (must-pass-through: a new snapshot's count reaches the terminal before the search starts)", "P1",
		"in Run and its closures, every path from a store of a ChunkList.Snapshot result into the coordinator's snapshot variable to the next call of Matcher.Reset passes Terminal.UpdateCount, or a branch on a comparison of that Snapshot call's count with the count on display",
		"matched and total counts describe different lists: more matches than lines are shown, persistently during a reload-sync")
	run := l.Fn("fzf", "Run")
	snap := l.Fn("fzf", "(*ChunkList).Snapshot")
	reset := l.Fn("fzf", "(*Matcher).Reset")
	upd := l.Fn("fzf", "(*Terminal).UpdateCount")
	if run == nil || snap == nil || reset == nil || upd == nil {
		r.unest("anchors", token.NoPos, nil, "anchors Run / ChunkList.Snapshot / Matcher.Reset / Terminal.UpdateCount", "cannot resolve")
		return
	}
	n := 0
	for _, fn := range withClosures(run) {
		eachInstr(fn, func(in ssa.Instruction) {
			st, ok := in.(*ssa.Store)
			if !ok {
				return
			}
			// the stored value is result #0 of a Snapshot call (possibly through a local)
			var call *ssa.Call
			for w := range backwardSlice(st.Val, nil, func(x ssa.Value) bool { _, isAlloc := x.(*ssa.Alloc); return isAlloc }) {
				if ex, ok := w.(*ssa.Extract); ok && ex.Index == 0 {
					if c2, ok := ex.Tuple.(*ssa.Call); ok && c2.Common().StaticCallee() == snap {
						call = c2
					}
				}
			}
			if call == nil {
				return
			}
			// only stores into the long-lived snapshot variable (a captured cell), not into the temporaries
			if _, isFree := st.Addr.(*ssa.FreeVar); !isFree {
				return
			}
			if _, isSlice := deref(st.Addr.Type()).Underlying().(*types.Slice); !isSlice {
				return
			}
			n++
			var cnt ssa.Value
			if call.Referrers() != nil {
				for _, ref := range *call.Referrers() {
					if ex, ok := ref.(*ssa.Extract); ok && ex.Index == 1 {
						cnt = ex
					}
				}
			}
			handled := func(i ssa.Instruction) bool {
				if staticCallee(i) == upd {
					return true
				}
				iff, ok := i.(*ssa.If)
				if !ok || cnt == nil {
					return false
				}
				for w := range backwardSlice(iff.Cond, nil, nil) {
					if w == cnt {
						return true
					}
				}
				return false
			}
			hit := pathAvoiding(st, func(i ssa.Instruction) bool { return staticCallee(i) == reset }, handled, nil)
			r.check(hit == nil, fmt.Sprintf("%s:new snapshot #%d brings its count along", relName(run), n), st.Pos(), fn,
				"UpdateCount (or a test that the count is unchanged) precedes the search", "the snapshot is replaced and the search is started while the terminal still shows the count of the old snapshot")
		})
	}
	r.floor("places where the coordinator takes a new snapshot", n, 2)
}

// c13r16: change-nth and exclude do not change the input, so the coordinator only bumps the MINOR revision —
// that is what makes the matcher drop the mergers it cached per query string. The revision the matcher gets is
// the one of the snapshot being searched; when the coordinator keeps its snapshot (during a reload-sync, or when
// a reload has not delivered anything yet) that revision has to move as well (D80: it did not: during a
// reload-sync, `change-nth(2)` followed by a query that had been searched under nth=1 republished the old result).
func c13r16(c *Ctx, r *Report) {
	l := c.L
	r.rule("C13-R16", "A (must-pass-through: a minor bump of the input revision reaches the revision handed to the matcher)", "P1",
		"in Run's event callback, every path from a bumpMinor of the input revision that is not caused by a new snapshot (the nth / exclusion block) to Matcher.Reset passes a bumpMinor of, or an assignment to, the snapshot revision",
		"during reload-sync a change of --nth or an exclusion is ignored for every query that was searched before: the published result is that of an earlier search with other parameters")
	run := l.Fn("fzf", "Run")
	reset := l.Fn("fzf", "(*Matcher).Reset")
	bm := l.Fn("fzf", "(*revision).bumpMinor")
	if run == nil || reset == nil || bm == nil {
		r.unest("anchors", token.NoPos, nil, "anchors Run / Matcher.Reset / revision.bumpMinor", "cannot resolve")
		return
	}
	// the two revision cells of Run: the one passed to Reset is the snapshot revision; the other one that is bumped is the input revision
	n := 0
	cc := cdCache{}
	for _, fn := range withClosures(run) {
		var resets []*ssa.Call
		eachInstr(fn, func(in ssa.Instruction) {
			if call, ok := in.(*ssa.Call); ok && call.Common().StaticCallee() == reset {
				resets = append(resets, call)
			}
		})
		if len(resets) == 0 {
			continue
		}
		cellOfArg := func(v ssa.Value) ssa.Value {
			if u, ok := v.(*ssa.UnOp); ok && u.Op == token.MUL {
				return u.X
			}
			return nil
		}
		snapCell := cellOfArg(resets[0].Call.Args[len(resets[0].Call.Args)-1])
		if snapCell == nil {
			r.unest(relName(run)+":snapshot revision", fn.Pos(), fn, "the variable handed to Matcher.Reset as revision", "not a plain variable")
			return
		}
		eachInstr(fn, func(in ssa.Instruction) {
			call, ok := in.(*ssa.Call)
			if !ok || call.Common().StaticCallee() != bm {
				return
			}
			recv := call.Call.Args[0]
			if recv == snapCell {
				return
			}
			// bumps that follow a Snapshot call (`if changed { bumpMinor }`) are about a new snapshot, whose revision is assigned right after
			aboutSnapshot := false
			for cond := range cc.of(in) {
				for w := range backwardSlice(cond, nil, nil) {
					if ex, ok := w.(*ssa.Extract); ok {
						if c2, ok := ex.Tuple.(*ssa.Call); ok && c2.Common().StaticCallee() != nil && c2.Common().StaticCallee().Name() == "Snapshot" {
							aboutSnapshot = true
						}
					}
				}
			}
			if aboutSnapshot {
				return
			}
			n++
			touches := func(i ssa.Instruction) bool {
				if st, ok := i.(*ssa.Store); ok && st.Addr == snapCell {
					return true
				}
				if c2, ok := i.(*ssa.Call); ok && c2.Common().StaticCallee() == bm && c2.Call.Args[0] == snapCell {
					return true
				}
				return false
			}
			hit := pathAvoiding(in, func(i ssa.Instruction) bool { return staticCallee(i) == reset }, touches, nil)
			r.check(hit == nil, fmt.Sprintf("%s:minor bump #%d of the input revision reaches the matcher", relName(run), n), call.Pos(), fn,
				"the snapshot revision moves on every path to Matcher.Reset", "the input revision is bumped and Matcher.Reset can be reached with the snapshot revision unchanged: cached mergers of the old parameters are served")
		})
	}
	r.floor("minor bumps of the input revision in Run that are not about a new snapshot", n, 1)
}

// c09r19: jump mode turns a label into a list position: cursor = label index + scroll offset. Labels are
// handed out per window ROW, and with --gap, --wrap or multi-line items fewer items than rows are on screen, so
// the sum has to be checked against the length of the list itself (D81: the guard compared the bare label index
// with the length: the 7th label of a list of 8 scrolled by 2 put the cursor on position 8 — no result — and
// jump-accept then accepted the last item).
func c09r19(c *Ctx, r *Report) {
	l := c.L
	r.rule("C09-R19", "A (a position computed from a label is inside the list)", "P1",
		"in Terminal.Loop, every store into Terminal.cy of a sum `x + Terminal.offset` is reached only under a comparison `x + Terminal.offset < Merger.Length()` of the same sum",
		"the list cursor designates no result while the jump event's actions run, and jump-accept accepts an item the user did not point at")
	loop := l.Fn("fzf", "(*Terminal).Loop")
	fCy := l.Field("fzf", "Terminal", "cy")
	fOff := l.Field("fzf", "Terminal", "offset")
	mlen := l.Fn("fzf", "(*Merger).Length")
	if loop == nil || fCy == nil || fOff == nil || mlen == nil {
		r.unest("anchors", token.NoPos, nil, "anchors Terminal.Loop / cy / offset / Merger.Length", "cannot resolve")
		return
	}
	n := 0
	for _, fn := range withClosures(loop) {
		var pc *PathConds
		eachInstr(fn, func(in ssa.Instruction) {
			st, ok := in.(*ssa.Store)
			if !ok {
				return
			}
			if fld, _ := fieldOf(st.Addr); fld != fCy {
				return
			}
			sum, ok := st.Val.(*ssa.BinOp)
			if !ok || sum.Op != token.ADD {
				return
			}
			var x ssa.Value
			if fld, _ := loadedField(sum.Y); fld == fOff {
				x = sum.X
			} else if fld, _ := loadedField(sum.X); fld == fOff {
				x = sum.Y
			}
			if x == nil {
				return
			}
			if _, isK := constIntVal(x); isK {
				return
			}
			// only label-like addends: values that are not themselves derived from cy / offset
			derived := false
			for w := range backwardSlice(x, nil, nil) {
				if fld, _ := loadedField(w); fld == fCy || fld == fOff {
					derived = true
				}
			}
			if derived {
				return
			}
			if pc == nil {
				pc = pathConds(fn)
			}
			n++
			holds, reach := pc.Implies(st.Block(), func(lits []Lit) bool {
				return hasLit(lits, func(atom ssa.Value, val bool) bool {
					b, ok := atom.(*ssa.BinOp)
					if !ok || b.Op != token.LSS || !val {
						return false
					}
					call, ok := b.Y.(*ssa.Call)
					if !ok || call.Common().StaticCallee() != mlen {
						return false
					}
					s2, ok := b.X.(*ssa.BinOp)
					if !ok || s2.Op != token.ADD {
						return false
					}
					offY, _ := loadedField(s2.Y)
					offX, _ := loadedField(s2.X)
					return offY == fOff && s2.X == x || offX == fOff && s2.Y == x
				})
			})
			r.check(holds && reach, fmt.Sprintf("%s:position #%d computed from a label lies inside the list", relName(loop), n), st.Pos(), fn,
				"stored only under `label + offset < Length()`", "the cursor is set to label + offset without comparing that sum with the length of the list")
		})
	}
	r.floor("cursor positions computed as label + offset", n, 1)
}

// c17r26: parseActionList recognises an action with an argument on the LOWER-CASED spec and then cuts the
// argument out of the ORIGINAL spec at the length of the leading name. The two agree only if lower-casing did not
// change the length of the name — `İ` (two bytes) lower-cases to `i` (one byte) and is not matched by the name
// pattern in the original (D82: `prİnt(hello)` was bound as print with the argument `\xb0nt(hello`).
func c17r26(c *Ctx, r *Report) {
	l := c.L
	r.rule("C17-R26", "A (the offset taken from the original spelling is checked against the lower-cased one)", "P1",
		"in parseActionList, every character of the original spec that is read at the index len(<name pattern>.FindString(spec)) is dominated by a branch on a comparison of that length with the length of the same pattern's match in strings.ToLower(spec)",
		"an action name written with a character whose lower-case form has another length is bound with a garbage argument instead of being rejected")
	fn := l.Fn("fzf", "parseActionList")
	if fn == nil {
		r.unest("anchors", token.NoPos, nil, "anchor parseActionList", "cannot resolve")
		return
	}
	// lengths of FindString results, classified by whether the subject went through ToLower
	type lenOf struct {
		v       ssa.Value
		lowered bool
	}
	var lens []lenOf
	eachInstr(fn, func(in ssa.Instruction) {
		call, ok := in.(*ssa.Call)
		if !ok || calleeName(call.Common()) != "builtin.len" {
			return
		}
		fs, ok := call.Call.Args[0].(*ssa.Call)
		if !ok || !strings.HasSuffix(calleeName(fs.Common()), ".FindString") {
			return
		}
		lowered := false
		for w := range backwardSlice(fs.Call.Args[len(fs.Call.Args)-1], func(*ssa.CallCommon) bool { return true }, nil) {
			if c2, ok := w.(*ssa.Call); ok && calleeName(c2.Common()) == "strings.ToLower" {
				lowered = true
			}
		}
		lens = append(lens, lenOf{call, lowered})
	})
	n := 0
	eachInstr(fn, func(in ssa.Instruction) {
		var idx ssa.Value
		switch x := in.(type) {
		case *ssa.Index:
			idx = x.Index
		case *ssa.Lookup:
			idx = x.Index
		default:
			return
		}
		var off *lenOf
		for i := range lens {
			if !lens[i].lowered && lens[i].v == idx {
				off = &lens[i]
			}
		}
		if off == nil {
			return
		}
		n++
		guarded := false
		eachInstr(fn, func(i2 ssa.Instruction) {
			iff, ok := i2.(*ssa.If)
			if !ok || !iff.Block().Dominates(in.Block()) || iff.Block() == in.Block() {
				return
			}
			b, ok := iff.Cond.(*ssa.BinOp)
			if !ok || (b.Op != token.EQL && b.Op != token.NEQ) {
				return
			}
			for _, pr := range [][2]ssa.Value{{b.X, b.Y}, {b.Y, b.X}} {
				if pr[0] != off.v {
					continue
				}
				for _, lo := range lens {
					if lo.lowered && lo.v == pr[1] {
						guarded = true
					}
				}
			}
		})
		r.check(guarded, fmt.Sprintf("%s:read #%d of the original spec at the name's length", relName(fn), n), in.Pos(), fn,
			"the length was compared with that of the lower-cased name", "the original spec is indexed at the length of its leading name although the action was recognised on the lower-cased copy, whose name can have another length")
	})
	r.floor("reads of the original spec at the length of its leading name", n, 1)
}

// c17r27: `--tmux [POS][,SIZE][,SIZE][,border-native]` — once the position has been made explicit and
// border-native has been cut out, at most three tokens can remain, and every one of them is parsed. A value with
// more tokens has to be rejected; the parser must not return a configuration on a path on which it knows nothing
// about the number of tokens (D83: with four tokens neither size branch ran, `tokens[3]` was never looked at,
// and `--tmux center,10,20,garbage` was accepted with both sizes silently dropped).
func c17r27(c *Ctx, r *Report) {
	l := c.L
	r.rule("C17-R27", "A (every returned configuration is under a bound on the number of tokens)", "P1",
		"in parseTmuxOptions, every return of a non-nil option set is reached only under a test that bounds the length of the token list by 3 (== 2, == 3, <= 3, or not > 3)",
		"surplus text in --tmux is accepted and the sizes that were given are dropped without a message")
	fn := l.Fn("fzf", "parseTmuxOptions")
	if fn == nil {
		r.unest("anchors", token.NoPos, nil, "anchor parseTmuxOptions", "cannot resolve")
		return
	}
	pc := pathConds(fn)
	bounded := func(atom ssa.Value, val bool) bool {
		x, op, k, ok := cmpInt(atom)
		if !ok {
			return false
		}
		call, isCall := x.(*ssa.Call)
		if !isCall || calleeName(call.Common()) != "builtin.len" {
			return false
		}
		if _, isSl := call.Call.Args[0].Type().Underlying().(*types.Slice); !isSl {
			return false
		}
		switch op {
		case token.EQL:
			return val && k <= 3
		case token.GTR:
			return !val && k <= 3
		case token.GEQ:
			return !val && k <= 4
		case token.LEQ:
			return val && k <= 3
		case token.LSS:
			return val && k <= 4
		}
		return false
	}
	n := 0
	eachInstr(fn, func(in ssa.Instruction) {
		ret, ok := in.(*ssa.Return)
		if !ok || len(ret.Results) != 2 {
			return
		}
		if cst, isK := retResult(ret, 0).(*ssa.Const); isK && cst.IsNil() {
			return
		}
		n++
		// the bound has to be known about the FINAL token list: a literal that survives to the return block
		holds, reach := pc.Implies(ret.Block(), func(lits []Lit) bool { return hasLit(lits, bounded) })
		r.check(holds && reach, fmt.Sprintf("%s:configuration return #%d knows how many tokens there were", relName(fn), n), ret.Pos(), fn,
			"reached only with at most three tokens", "a configuration is returned on a path that never bounded the number of tokens: a fourth token is accepted unread")
	})
	r.floor("configuration returns of parseTmuxOptions", n, 1)
}

// round9 runs the round-9 rules of a property (own and shared).
func round9(c *Ctx, r *Report, prop string) {
	defer round10(c, r, prop)
	switch prop {
	case "C01":
		c01r14(c, r)
		c13r12(c, r) // the query searched is the latest one posted
	case "C02":
		c02r16(c, r)
	case "C03":
		c03r10(c, r)
		c03r11(c, r)
	case "C04":
		c04r16(c, r)
		c07r12(c, r) // sort and final are not swapped on the way to the matcher
	case "C05":
		c01r3(c, r) // a result cached under a narrower query is not served for a wider one
	case "C06":
		c06r13(c, r)
	case "C07":
		c06r11(c, r) // the non-streaming filter prints after the input has ended
		c09r17(c, r)
	case "C08":
		c13r16(c, r)
		c08r22(c, r)
		c08r23(c, r)
		c13r12(c, r)
	case "C09":
		c09r19(c, r)
		c09r17(c, r)
		c09r18(c, r)
		c04r14(c, r) // the position under the cursor designates the item that is accepted
	case "C10":
		c13r16(c, r) // change-nth takes effect also while a reload-sync is in progress
		c10r11(c, r)
		c10r12(c, r)
	case "C13":
		c13r16(c, r)
		c13r15(c, r)
		c13r12(c, r)
		c13r13(c, r)
		c13r14(c, r)
	case "C11":
		c11r21(c, r)
	case "C12":
		c12r14(c, r)
	case "C14":
		c14r20(c, r)
		c16r6(c, r) // a GET with a negative or oversized number cannot reach the indexing code
	case "C15":
		c11r15(c, r) // the header lines of a reloaded input replace those of the old one
		c11r21(c, r)
	case "C16":
		c12r14(c, r) // the API key reaches the listener inside the popup unchanged
		c16r20(c, r)
	case "C17":
		c17r27(c, r)
		c17r26(c, r)
		c17r24(c, r)
		c17r25(c, r)
	case "C19":
		c19r14(c, r)
		c19r15(c, r)
	case "C18":
		c18r13(c, r)
		c18r14(c, r)
		c18r15(c, r)
	}
}
