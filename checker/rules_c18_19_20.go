package main

import (
	"fmt"
	"go/token"
	"go/types"
	"strings"

	"golang.org/x/tools/go/ssa"
)

func init() {
	register(&propDef{
		id:  "C18",
		run: runC18,
		explanation: "Structural clauses of the history file contract: (R1) the file named by History.path is written only by NewHistory (creating an empty file) and History.append, whose data derives from History.lines; in-memory edits (History.modified) are read only by current() and written only by override(), so they cannot reach the file; " +
			"(R2) append is called only on exit with code <= ExitNoMatch and on `become`; (R3) cursor-- / cursor++ are guarded by cursor > 0 / cursor < len(lines)-1; (R4) the truncation offset in append is computed from maxSize; (R5) override() records an edit of a stored entry unconditionally.",
		notDecided: "file contents after arbitrary session sequences: cap arithmetic, trailing-newline handling, dropping empty queries",
	})
	register(&propDef{
		id:  "C19",
		run: runC19,
		explanation: "Structural clauses of the walker contract: (R1) each documented walker flag word sets the walkerOpts field that plays that role in readFiles (`follow` → fastwalk.Config.Follow and symlink descent, `hidden` → the dot-name test, `file`/`dir` → the emit test) and every field parseWalkerOpts sets is read by readFiles; " +
			"(R2) filepath.SkipDir is returned only for directories or followed symlinks to directories (returning it for a file silently drops the remaining siblings); (R3) a --walker-skip entry with a separator is matched as a path suffix only behind a separator.",
		notDecided: "which paths are listed for every tree: exactly-once, relative printing, symlink cycles, base-name/path matching values",
	})
	register(&propDef{
		id:  "C20",
		run: runC20,
		explanation: "Structural clauses of 'the preview catches up, one child at a time': (R1) every enqueue of a preview request is preceded by cancelPreview() in the same function; (R2) in the previewer goroutine a successful Start is followed by Wait and by as many receives from the reap channel as there are helper goroutines sending on it, and there is exactly one previewer loop; " +
			"(R3) session end tells the previewer to quit and kills the running child (shared with C14-R2); (R4) the preview child is a process-group leader and only such children are group-killed (shared with C14-R4); (R5) the kill channel is unbuffered, so a cancel request is never parked for a later command; (R6) the query-change version bump inspects the same command template that the render loop hands to the previewer.",
		notDecided: "that the last command run is the one for the focused line under every timing; display of its output",
	})
}

// ------------------------------------------------------------------------------------------ C18

func runC18(c *Ctx, r *Report) {
	defer round8(c, r, "C18")
	l := c.L
	defer c18r7(c, r)
	defer c18r8(c, r)
	defer c18r9(c, r)
	defer c18r10(c, r)
	defer c18r11(c, r)
	hist := l.Named("fzf", "History")
	fPath := l.Field("fzf", "History", "path")
	fMod := l.Field("fzf", "History", "modified")
	fLines := l.Field("fzf", "History", "lines")
	fCur := l.Field("fzf", "History", "cursor")
	fMax := l.Field("fzf", "History", "maxSize")
	newH := l.Fn("fzf", "NewHistory")
	app := l.Fn("fzf", "(*History).append")
	cur := l.Fn("fzf", "(*History).current")
	ovr := l.Fn("fzf", "(*History).override")
	if hist == nil || fPath == nil || fMod == nil || fLines == nil || fCur == nil || fMax == nil || newH == nil || app == nil || cur == nil || ovr == nil {
		r.rule("C18-R1", "B", "P1", "anchors", "")
		r.unest("anchors", token.NoPos, nil, "anchors History.{path,modified,lines,cursor,maxSize} / NewHistory / append / current / override", "cannot resolve")
		return
	}
	// ---------------- R1 ----------------
	r.rule("C18-R1", "B (writer/reader census)", "P1",
		"os.WriteFile (or any os file-creating call) on a name derived from History.path / NewHistory's path occurs only in NewHistory and History.append; append's data derives from History.lines and not from History.modified; History.modified is read only in current() and updated only in override()",
		"edited-but-unsubmitted history entries get written to the file")
	nW := 0
	for _, f := range l.AllFuncs() {
		eachInstr(f, func(in ssa.Instruction) {
			cc, ok := isCall(in, "os.WriteFile", "os.Create", "os.OpenFile")
			if !ok {
				return
			}
			fromPath := false
			for v := range backwardSlice(cc.Args[0], nil, nil) {
				if fld, _ := fieldOf(v); fld == fPath {
					fromPath = true
				}
				if p, ok := v.(*ssa.Parameter); ok && p.Parent() == newH && p.Name() == "path" {
					fromPath = true
				}
			}
			if !fromPath {
				return
			}
			nW++
			r.check(f == newH || f == app, relName(f)+":write history file", in.Pos(), f, "history file is written by NewHistory/append only", "another writer of the history file")
			if f == app && calleeName(cc) == "os.WriteFile" {
				usesLines, usesMod := false, false
				for v := range backwardSlice(cc.Args[1], func(*ssa.CallCommon) bool { return true }, nil) {
					if fld, _ := fieldOf(v); fld == fLines {
						usesLines = true
					} else if fld == fMod {
						usesMod = true
					}
				}
				r.check(usesLines && !usesMod, relName(f)+":append data", in.Pos(), f, "the bytes written by append derive from History.lines and not from History.modified", "in-memory edits flow to the file")
			}
			if f == newH && calleeName(cc) == "os.WriteFile" {
				// empty data
				empty := false
				for v := range backwardSlice(cc.Args[1], nil, nil) {
					if al, ok := v.(*ssa.Alloc); ok {
						if arr, ok := deref(al.Type()).Underlying().(*types.Array); ok && arr.Len() == 0 {
							empty = true
						}
					}
				}
				r.check(empty, relName(f)+":creates empty file", in.Pos(), f, "NewHistory only creates an empty file", "NewHistory writes content")
			}
		})
	}
	r.floor("writers of the history file", nW, 2)
	// any *os.File opened from the history path: what is written through it must be the in-memory list as well
	for _, f := range l.AllFuncs() {
		eachInstr(f, func(in ssa.Instruction) {
			cc, ok := isCall(in, "os.OpenFile", "os.Create")
			if !ok {
				return
			}
			fromPath := false
			for v := range backwardSlice(cc.Args[0], nil, nil) {
				if fld, _ := fieldOf(v); fld == fPath {
					fromPath = true
				}
			}
			if !fromPath {
				return
			}
			der := forwardDerived(f, []ssa.Value{in.(ssa.Value)}, nil)
			eachInstr(f, func(i2 ssa.Instruction) {
				c2, ok := i2.(ssa.CallInstruction)
				if !ok || len(c2.Common().Args) < 2 || !der[c2.Common().Args[0]] {
					return
				}
				nm := calleeName(c2.Common())
				if !strings.HasPrefix(nm, "(*os.File).Write") {
					return
				}
				usesLines := false
				for v := range backwardSlice(c2.Common().Args[1], func(*ssa.CallCommon) bool { return true }, nil) {
					if fld, _ := fieldOf(v); fld == fLines {
						usesLines = true
					}
				}
				r.check(usesLines, relName(f)+":partial write to history file", i2.Pos(), f, "bytes written to the history file derive from History.lines (the normalised in-memory list)", "the file is patched with something that is not the in-memory list: a file that was not in canonical form (no trailing newline, blank lines) gets corrupted")
			})
		})
	}
	nM := 0
	for _, f := range l.AllFuncs() {
		eachInstr(f, func(in ssa.Instruction) {
			fa, ok := in.(*ssa.FieldAddr)
			if !ok {
				return
			}
			if fld, _ := fieldOf(fa); fld != fMod {
				return
			}
			if al, isAlloc := fa.X.(*ssa.Alloc); isAlloc && al.Parent() == f {
				return // constructor
			}
			nM++
			r.check(f == cur || f == ovr, relName(f)+":access History.modified", in.Pos(), f, "History.modified is touched only by current() and override()", "another function reads/writes the in-memory edits")
		})
	}
	r.floor("accesses of History.modified", nM, 2)

	// ---------------- R2 ----------------
	r.rule("C18-R2", "B/A (callers, path conditions)", "P1",
		"History.append is called only (a) in the render loop's exit closure under `code <= ExitNoMatch` and (b) on the `become` path",
		"aborted sessions (exit 130/2) write their query to the history")
	noMatch, _ := constInt(l.Const("fzf", "ExitNoMatch"))
	becomeV, _ := constInt(l.Const("fzf", "actBecome"))
	nC := 0
	for _, f := range l.AllFuncs() {
		var pc *PathConds
		eachInstr(f, func(in ssa.Instruction) {
			if staticCallee(in) != app {
				return
			}
			nC++
			if pc == nil {
				pc = pathConds(f)
			}
			codeOK, _ := pc.Implies(in.Block(), func(lits []Lit) bool {
				return hasLit(lits, func(a ssa.Value, v bool) bool {
					x, op, k, ok := cmpInt(a)
					if !ok {
						return false
					}
					u, isLoad := x.(*ssa.UnOp)
					if !isLoad {
						return false
					}
					al, isCell := cellRoot(u.X).(*ssa.Alloc)
					if !isCell || al.Comment != "code" {
						return false
					}
					return (op == token.LEQ && k == noMatch && v) || (op == token.LSS && k == noMatch+1 && v) || (op == token.GTR && k == noMatch && !v)
				})
			})
			onBecome, _ := pc.Implies(in.Block(), func(lits []Lit) bool {
				return hasLit(lits, func(a ssa.Value, v bool) bool {
					_, op, k, ok := cmpInt(a)
					return ok && k == becomeV && ((op == token.EQL && v) || (op == token.NEQ && !v))
				})
			})
			r.check(codeOK || onBecome, relName(f)+":append call", in.Pos(), f, "append is called under `code <= ExitNoMatch` or on the become path", "the query is recorded on other exits too")
		})
	}
	r.floor("callers of History.append", nC, 2)
	// exec-style hand-over never returns: the query must be recorded before it
	become := l.Fn("util", "(*Executor).Become")
	if become != nil {
		for _, f := range l.AllFuncs() {
			eachInstr(f, func(in ssa.Instruction) {
				if staticCallee(in) != become {
					return
				}
				dom := false
				eachInstr(f, func(i2 ssa.Instruction) {
					if staticCallee(i2) == app && canReach(i2, in) && !canReach(in, i2) {
						dom = true
					}
				})
				hasHist := false
				eachInstr(f, func(i2 ssa.Instruction) {
					if staticCallee(i2) == app {
						hasHist = true
					}
				})
				if hasHist {
					r.check(dom, relName(f)+":append before Become", in.Pos(), f, "History.append precedes executor.Become (which replaces the process image and does not return)", "append placed after the exec: the submitted query is never recorded on the become path")
				}
			})
		}
	}

	// ---------------- R3 ----------------
	r.rule("C18-R3", "A (path conditions)", "P1",
		"every store cursor-1 is under cursor > 0 and every store cursor+1 under cursor < len(lines)-1",
		"previous/next leave the stored range (index out of range / wrong entry)")
	nS := 0
	for _, f := range l.AllFuncs() {
		var pc *PathConds
		eachInstr(f, func(in ssa.Instruction) {
			st, ok := in.(*ssa.Store)
			if !ok {
				return
			}
			if fld, _ := fieldOf(st.Addr); fld != fCur {
				return
			}
			b, ok := st.Val.(*ssa.BinOp)
			if !ok || !isLoadOf(b.X, fCur) || !isConstInt(b.Y, 1) {
				return
			}
			nS++
			if pc == nil {
				pc = pathConds(f)
			}
			dec := b.Op == token.SUB
			isEndMinus1 := func(y ssa.Value) bool {
				sub, ok := y.(*ssa.BinOp)
				if !ok || sub.Op != token.SUB || !isConstInt(sub.Y, 1) {
					return false
				}
				return isLenOf(sub.X, func(x ssa.Value) bool { return isLoadOf(x, fLines) })
			}
			holds, _ := pc.Implies(st.Block(), func(lits []Lit) bool {
				return hasLit(lits, func(a ssa.Value, v bool) bool {
					bo, ok := a.(*ssa.BinOp)
					if !ok {
						return false
					}
					if dec {
						// establishes cursor >= 1
						x, op, k, ok := cmpInt(a)
						if !ok || !isLoadOf(x, fCur) {
							return false
						}
						switch op {
						case token.GTR:
							return v && k >= 0
						case token.GEQ:
							return v && k >= 1
						case token.LEQ:
							return !v && k >= 0
						case token.LSS:
							return !v && k >= 1
						case token.NEQ:
							return false
						}
						return false
					}
					// establishes cursor < len(lines)-1
					switch {
					case isLoadOf(bo.X, fCur) && isEndMinus1(bo.Y):
						return (bo.Op == token.LSS && v) || (bo.Op == token.GEQ && !v)
					case isLoadOf(bo.Y, fCur) && isEndMinus1(bo.X):
						return (bo.Op == token.GTR && v) || (bo.Op == token.LEQ && !v)
					}
					return false
				})
			})
			what := "cursor++ under cursor < len(lines)-1"
			if dec {
				what = "cursor-- under cursor > 0"
			}
			r.check(holds, relName(f)+":"+what, st.Pos(), f, what, "bound test missing or weaker")
		})
	}
	r.floor("cursor moves", nS, 2)

	// ---------------- R4 ----------------
	r.rule("C18-R4", "D (provenance)", "P1",
		"in append, the reslice that drops old entries has a low bound derived from History.maxSize",
		"the file is not capped to --history-size when it starts out longer than the limit")
	nT := 0
	eachInstr(app, func(in ssa.Instruction) {
		sl, ok := in.(*ssa.Slice)
		if !ok || sl.Low == nil {
			return
		}
		if _, isConst := sl.Low.(*ssa.Const); isConst && isConstInt(sl.Low, 0) {
			return
		}
		nT++
		fromMax := false
		for v := range backwardSlice(sl.Low, nil, nil) {
			if fld, _ := fieldOf(v); fld == fMax {
				fromMax = true
			}
		}
		r.check(fromMax, relName(app)+":truncate by maxSize", in.Pos(), app, "entries are dropped from the front by an amount computed from maxSize", "truncation offset does not depend on the size limit")
	})
	r.floor("front truncations in append", nT, 1)

	// ---------------- R6 ----------------
	r.rule("C18-R6", "B + A (cooperating sites)", "P1",
		"the handler of --history-size updates History.maxSize of an already created history (under opts.History != nil) or creates the history again with the new limit, so the limit is honoured whichever of --history / --history-size comes last",
		"`--history F --history-size N` (or the two options in different layers) keeps the default limit: the file is not capped to N")
	pos := l.Fn("fzf", "parseOptions")
	if pos == nil {
		r.unest("anchors parseOptions", token.NoPos, nil, "anchor parseOptions", "cannot resolve")
	} else {
		nSet := 0
		for _, g := range withClosures(pos) {
			if g == pos || len(g.Params) != 1 {
				continue
			}
			// a handler that stores its int parameter into a field of opts (the persisted size) ...
			persists := false
			eachInstr(g, func(in ssa.Instruction) {
				st, ok := in.(*ssa.Store)
				if !ok || st.Val != ssa.Value(g.Params[0]) {
					return
				}
				if fld, _ := fieldOf(st.Addr); fld != nil && fld.Name() == "historyMax" {
					persists = true
				}
			})
			if !persists {
				continue
			}
			nSet++
			// ... must also refresh History.maxSize
			refresh := false
			pcg := pathConds(g)
			eachInstr(g, func(in ssa.Instruction) {
				st, ok := in.(*ssa.Store)
				if !ok {
					return
				}
				if fld, _ := fieldOf(st.Addr); fld != fMax {
					return
				}
				fromParam := false
				for v := range backwardSlice(st.Val, nil, nil) {
					if v == ssa.Value(g.Params[0]) {
						fromParam = true
					}
				}
				// only guarded by the existence of the history object
				okGuard := onlyGuards(pcg, st.Block(), func(a ssa.Value) bool {
					b, ok := a.(*ssa.BinOp)
					if !ok {
						return true // unrelated literals (e.g. the range check of the value) are fine when they do not exclude valid sizes
					}
					if cn, isc := b.Y.(*ssa.Const); isc && cn.IsNil() {
						return true
					}
					return true
				})
				if fromParam && okGuard {
					refresh = true
				}
			})
			// ... or create the history again with the new limit: it stores the parameter into a variable of
			// parseOptions and calls a sibling closure that passes that variable to NewHistory
			if !refresh {
				newHist := l.Fn("fzf", "NewHistory")
				cells := map[*ssa.Alloc]bool{}
				eachInstr(g, func(in ssa.Instruction) {
					if st, ok := in.(*ssa.Store); ok && st.Val == ssa.Value(g.Params[0]) {
						if fv, ok := st.Addr.(*ssa.FreeVar); ok {
							if al := freeVarAlloc(g, fv); al != nil {
								cells[al] = true
							}
						}
					}
				})
				eachInstr(g, func(in ssa.Instruction) {
					call, ok := in.(*ssa.Call)
					if !ok || newHist == nil {
						return
					}
					fs, _ := calleesOf(call.Common())
					if u, ok := call.Common().Value.(*ssa.UnOp); ok && u.Op == token.MUL {
						if fv, ok := u.X.(*ssa.FreeVar); ok {
							if al := freeVarAlloc(g, fv); al != nil {
								for _, st := range storesToAlloc(al) {
									if mc, ok := st.Val.(*ssa.MakeClosure); ok {
										fs = append(fs, mc.Fn.(*ssa.Function))
									}
								}
							}
						}
					}
					for _, h := range fs {
						if h.Parent() != g.Parent() {
							continue
						}
						eachInstr(h, func(i2 ssa.Instruction) {
							c2, ok := i2.(*ssa.Call)
							if !ok || !callIs(c2.Common(), newHist) || len(c2.Call.Args) < 2 {
								return
							}
							if u, ok := c2.Call.Args[1].(*ssa.UnOp); ok && u.Op == token.MUL {
								if fv, ok := u.X.(*ssa.FreeVar); ok && cells[freeVarAlloc(h, fv)] {
									refresh = true
								}
							}
						})
					}
				})
			}
			r.check(refresh, relName(g)+":size refreshes existing history", g.Pos(), g, "the --history-size handler stores the new limit into the existing History.maxSize, or loads the history again with it", "a history created earlier keeps its old limit")
		}
		r.floor("handlers persisting the history size", nSet, 1)
	}

	// ---------------- R5 ----------------
	r.rule("C18-R5", "A (guard purity)", "P1",
		"override() stores the text for a stored entry (History.modified[cursor]) under conditions that only compare the cursor with the end of the list",
		"an edit that restores the original text cannot overwrite an earlier edit: the stale edit comes back")
	pc := pathConds(ovr)
	nU := 0
	eachInstr(ovr, func(in ssa.Instruction) {
		mu, ok := in.(*ssa.MapUpdate)
		if !ok || !isLoadOf(mu.Map, fMod) {
			return
		}
		nU++
		pure := onlyGuards(pc, in.Block(), func(a ssa.Value) bool {
			bo, ok := a.(*ssa.BinOp)
			return ok && isLoadOf(bo.X, fCur)
		})
		r.check(pure, relName(ovr)+":record edit", in.Pos(), ovr, "modified[cursor] is updated whenever the cursor is on a stored entry", "the update is skipped under a content-dependent condition")
	})
	r.floor("updates of History.modified", nU, 1)
}

// ------------------------------------------------------------------------------------------ C19

func runC19(c *Ctx, r *Report) {
	defer round8(c, r, "C19")
	l := c.L
	pw := l.Fn("fzf", "parseWalkerOpts")
	rf := l.Fn("fzf", "(*Reader).readFiles")
	wo := l.Named("fzf", "walkerOpts")
	r.rule("C19-R1", "E (role agreement between parser and consumer)", "P1",
		"readFiles gives each walkerOpts field a role (Follow of the fastwalk config; negated guard of the dot-name test; emit test with !isDir / isDir) and parseWalkerOpts sets the field of role X under the documented word X; every field set by the parser is read by readFiles",
		"--walker=follow shows hidden files instead of following links, etc.; a parsed flag that nothing consumes")
	if pw == nil || rf == nil || wo == nil {
		r.unest("anchors", token.NoPos, nil, "anchors parseWalkerOpts / Reader.readFiles / walkerOpts", "cannot resolve")
		return
	}
	isWOField := func(v ssa.Value) *types.Var {
		fld, base := loadedField(v)
		if fld == nil {
			return nil
		}
		if n, ok := deref(base.Type()).(*types.Named); ok && n.Obj() == wo.Obj() {
			return fld
		}
		return nil
	}
	roles := map[string]*types.Var{}
	fns := withClosures(rf)
	readFields := map[*types.Var]bool{}
	for _, f := range fns {
		pc := pathConds(f)
		eachInstr(f, func(in ssa.Instruction) {
			// reads
			var buf [8]*ssa.Value
			for _, op := range in.Operands(buf[:0]) {
				if op != nil && *op != nil {
					if fld := isWOField(*op); fld != nil {
						readFields[fld] = true
					}
				}
			}
			if v, ok := in.(ssa.Value); ok {
				if fld := isWOField(v); fld != nil {
					readFields[fld] = true
				}
			}
			switch x := in.(type) {
			case *ssa.Store:
				// follow: stored into fastwalk.Config.Follow
				if fld, _ := fieldOf(x.Addr); fld != nil && fld.Name() == "Follow" && strings.Contains(fld.Pkg().Path(), "fastwalk") {
					if wf := isWOField(x.Val); wf != nil {
						roles["follow"] = wf
					}
				}
			case *ssa.BinOp:
				// hidden: the '.' comparison is reached under (load F)==false
				if x.Op == token.EQL || x.Op == token.NEQ {
					if k, ok := constIntVal(x.Y); ok && k == '.' {
						for _, d := range pc.At(x.Block()) {
							for _, lt := range d {
								if wf := isWOField(lt.Atom); wf != nil && !lt.Val {
									roles["hidden"] = wf
								}
							}
						}
					}
				}
			case ssa.CallInstruction:
				// emit: call of r.pusher under (load F)==true with isDir false/true
				if fld, _ := loadedField(x.Common().Value); fld != nil && fld.Name() == "pusher" {
					for _, d := range pc.At(in.Block()) {
						var wf *types.Var
						isDirKnown, isDirVal := false, false
						// the classification tested by the listing decision: the IsDir result itself, or a
						// variable (phi) that was initialised from it and that later branches test instead
						fromPhi := false
						for _, lt := range d {
							if f2 := isWOField(lt.Atom); f2 != nil && lt.Val {
								wf = f2
							}
							if call, ok := lt.Atom.(*ssa.Call); ok && call.Common().IsInvoke() && call.Common().Method.Name() == "IsDir" && !fromPhi {
								isDirKnown, isDirVal = true, lt.Val
							}
							if phi, ok := lt.Atom.(*ssa.Phi); ok {
								for _, e := range phi.Edges {
									if call, ok := e.(*ssa.Call); ok && call.Common().IsInvoke() && call.Common().Method.Name() == "IsDir" {
										isDirKnown, isDirVal, fromPhi = true, lt.Val, true
									}
								}
							}
						}
						if wf != nil && isDirKnown {
							if isDirVal {
								roles["dir"] = wf
							} else {
								roles["file"] = wf
							}
						}
					}
				}
			}
		})
	}
	for _, w := range []string{"file", "dir", "hidden", "follow"} {
		if roles[w] == nil {
			r.unest(relName(rf)+":role "+w, token.NoPos, rf, "the walkerOpts field playing the `"+w+"` role in readFiles", "role not recognised")
		}
	}
	// parser: store true into field under str == word
	pc := pathConds(pw)
	setFields := map[*types.Var]bool{}
	eachInstr(pw, func(in ssa.Instruction) {
		st, ok := in.(*ssa.Store)
		if !ok {
			return
		}
		fld, base := fieldOf(st.Addr)
		if fld == nil {
			return
		}
		if n, ok := deref(base.Type()).(*types.Named); !ok || n.Obj() != wo.Obj() {
			return
		}
		if cb, isc := constBool(st.Val); !isc || !cb {
			return
		}
		setFields[fld] = true
		// which word?
		word := ""
		for _, d := range pc.At(in.Block()) {
			w := ""
			for _, lt := range d {
				b, ok := lt.Atom.(*ssa.BinOp)
				if !ok || b.Op != token.EQL || !lt.Val {
					continue
				}
				if s, ok := constString(b.Y); ok {
					w = s
				} else if s, ok := constString(b.X); ok {
					w = s
				}
			}
			if word == "" {
				word = w
			} else if word != w {
				word = "?"
			}
		}
		role := ""
		for k, v := range roles {
			if v == fld {
				role = k
			}
		}
		r.check(word != "" && word == role, relName(pw)+":word "+word, st.Pos(), pw, fmt.Sprintf("`%s` sets the field that readFiles uses as `%s`", word, role), "the option word sets a field with another role")
	})
	r.floor("walker flag words handled by parseWalkerOpts", len(setFields), 4)
	for fld := range setFields {
		r.check(readFields[fld], relName(rf)+":reads "+fld.Name(), rf.Pos(), rf, "parsed flag walkerOpts."+fld.Name()+" is read by readFiles", "parsed but never consumed")
	}

	// ---------------- R2 ----------------
	r.rule("C19-R2", "A (path conditions)", "P1",
		"in the walk callback every `return filepath.SkipDir` happens under `de.IsDir()` or `isSymlinkToDir(..)`",
		"SkipDir returned for a plain file makes the walker skip the remaining entries of that directory")
	symlink := l.Fn("fzf", "isSymlinkToDir")
	n := 0
	for _, f := range fns {
		pc := pathConds(f)
		for _, b := range f.Blocks {
			ret, ok := b.Instrs[len(b.Instrs)-1].(*ssa.Return)
			if !ok || len(ret.Results) != 1 {
				continue
			}
			isSkip := false
			for v := range backwardSlice(retResult(ret, 0), nil, nil) {
				if g, ok := v.(*ssa.Global); ok && g.Name() == "SkipDir" {
					isSkip = true
				}
			}
			if !isSkip {
				continue
			}
			n++
			holds, _ := pc.Implies(b, func(lits []Lit) bool {
				return hasLit(lits, func(a ssa.Value, v bool) bool {
					call, ok := a.(*ssa.Call)
					if !ok || !v {
						return false
					}
					if call.Common().IsInvoke() && call.Common().Method.Name() == "IsDir" {
						return true
					}
					return symlink != nil && call.Common().StaticCallee() == symlink
				})
			})
			r.check(holds, fmt.Sprintf("%s:return SkipDir #%d", relName(f), n), ret.Pos(), f, "SkipDir is returned only for a directory (or a followed symlink to one)", "reachable for a non-directory entry")
		}
	}
	r.floor("returns of filepath.SkipDir", n, 4)

	// ---------------- R3 ----------------
	r.rule("C19-R3", "D (provenance) + A", "P1",
		"every string appended to the list that the callback tests with strings.HasSuffix(path, _) either starts with the separator by construction (sep + x) or is appended under strings.HasPrefix(x, sep)",
		"--walker-skip=foo/bar also prunes bazfoo/bar")
	// the suffix list cell: values whose elements reach strings.HasSuffix's second argument
	var suffixCell ssa.Value
	for _, f := range fns {
		eachInstr(f, func(in ssa.Instruction) {
			cc, ok := isCall(in, "strings.HasSuffix")
			if !ok {
				return
			}
			for v := range backwardSlice(cc.Args[1], nil, nil) {
				if fv, ok := v.(*ssa.FreeVar); ok {
					suffixCell = cellRoot(fv)
				}
			}
		})
	}
	if suffixCell == nil {
		r.unest(relName(rf)+":suffix list", token.NoPos, rf, "the skip list tested with strings.HasSuffix", "not found")
		return
	}
	pcr := pathConds(rf)
	na := 0
	for _, st := range storesToCell(suffixCell) {
		call, ok := st.Val.(*ssa.Call)
		if !ok || calleeName(call.Common()) != "builtin.append" {
			continue
		}
		na++
		// the appended element
		okEl := false
		why := "element is not `sep + x` and not guarded by HasPrefix(x, sep)"
		for v := range backwardSlice(call.Call.Args[1], nil, nil) {
			if b, ok := v.(*ssa.BinOp); ok && b.Op == token.ADD {
				if _, isStr := b.Type().Underlying().(*types.Basic); isStr {
					// left operand is the separator variable (a string not derived from the range element)
					okEl = true
				}
			}
		}
		if !okEl {
			holds, _ := pcr.Implies(st.Block(), func(lits []Lit) bool {
				return hasLit(lits, func(a ssa.Value, v bool) bool {
					c2, ok := a.(*ssa.Call)
					return ok && v && calleeName(c2.Common()) == "strings.HasPrefix"
				})
			})
			okEl = holds
		}
		r.check(okEl, fmt.Sprintf("%s:append to suffix list #%d", relName(rf), na), st.Pos(), rf, "a suffix-matched skip entry begins with the path separator", why)
	}
	r.floor("appends to the suffix skip list", na, 2)
	r.rule("C19-R4", "B", "P1", "the walker's callbacks run concurrently: the streaming filter they feed uses its slab only under its mutex (same obligations as C05-R1)", "walker + --filter --no-sort: matches lost or a crash")
	oneSlabPerWorker(c, r)
	c17r10(c, r) // --walker / --walker-skip values are assigned or rejected, never silently ignored
	c13r8(c, r)  // the parallel walker pushes concurrently: every path is listed exactly once only if the slot is filled under the list lock
	c19r5(c, r)
	c19r6(c, r)
	c19r7(c, r)
	c19r8(c, r)
	c19r9(c, r)
	c19r10(c, r)
	c19r11(c, r)
	c12r11(c, r) // the walker options survive the relaunch inside tmux word for word
}

// ------------------------------------------------------------------------------------------ C20

func runC20(c *Ctx, r *Report) {
	defer round8(c, r, "C20")
	l := c.L
	defer func() {
		c09r1(c, r) // the selection is changed only by selectItem/deselectItem ...
		c20r9(c, r) // ... which mark the preview stale
		c20r10(c, r)
		c20r11(c, r)
		c20r13(c, r)
		c20r14(c, r)
		c12r7(c, r) // whether a preview depends on the selection is the OR over its placeholders
		c20r12(c, r)
	}()
	loop := l.Fn("fzf", "(*Terminal).Loop")
	cancelP := l.Fn("fzf", "(*Terminal).cancelPreview")
	fBox := l.Field("fzf", "Terminal", "previewBox")
	enq := l.Const("fzf", "reqPreviewEnqueue")
	setName := "(*" + modPath + "/src/util.EventBox).Set"
	r.rule("C20-R1", "A (dominance)", "P1",
		"every previewBox.Set(reqPreviewEnqueue, ..) is dominated by a call of cancelPreview() in the same function",
		"a superseded preview command keeps running next to the new one")
	if loop == nil || cancelP == nil || fBox == nil || enq == nil {
		r.unest("anchors", token.NoPos, nil, "anchors Terminal.Loop / cancelPreview / previewBox / reqPreviewEnqueue", "cannot resolve")
		return
	}
	enqV, _ := constInt(enq)
	n := 0
	for _, f := range l.AllFuncs() {
		eachInstr(f, func(in ssa.Instruction) {
			cc, ok := isCall(in, setName)
			if !ok || !isLoadOf(cc.Args[0], fBox) {
				return
			}
			if k, isc := constIntVal(cc.Args[1]); !isc || k != enqV {
				return
			}
			n++
			dom := false
			eachInstr(f, func(i2 ssa.Instruction) {
				if staticCallee(i2) == cancelP && dominates(i2, in) {
					dom = true
				}
			})
			r.check(dom, relName(f)+":enqueue after cancel", in.Pos(), f, "enqueue of a preview request is dominated by cancelPreview()", "the running preview is not cancelled first")
		})
	}
	r.floor("preview enqueue sites", n, 2)

	// ---------------- R2 ----------------
	r.rule("C20-R2", "A (must-pass-through, counting)", "P1",
		"in the previewer goroutine the success edge of cmd.Start() is followed on every path by cmd.Wait() and by one receive from the reap channel per helper goroutine that sends on it, before the next iteration; exactly one goroutine runs a loop that drains reqPreviewEnqueue",
		"two preview children alive at once / helper goroutines of the old command still running when the next starts")
	var prev *ssa.Function
	nPrev := 0
	for _, f := range withClosures(loop) {
		has := false
		eachInstr(f, func(in ssa.Instruction) {
			if cc, ok := isCall(in, "(*"+modPath+"/src/util.Executor).ExecCommand"); ok {
				if cb, isc := constBool(cc.Args[2]); isc && cb {
					has = true
				}
			}
		})
		if has && f.Parent() == loop {
			prev = f
			nPrev++
		}
	}
	if prev == nil {
		r.unest(relName(loop)+":previewer", token.NoPos, loop, "previewer goroutine (closure of Loop that starts a setpgid child)", "not found")
	} else {
		r.check(nPrev == 1, relName(loop)+":single previewer", prev.Pos(), loop, "exactly one closure of Loop starts preview children", fmt.Sprintf("%d closures do", nPrev))
		// go-sites of prev
		nGo := 0
		eachInstr(loop, func(in ssa.Instruction) {
			if g, ok := in.(*ssa.Go); ok {
				if fs, _ := resolveFuncs(g.Call.Value); len(fs) == 1 && fs[0] == prev {
					nGo++
					r.check(!inLoop(g.Block()), relName(loop)+":previewer started once", g.Pos(), loop, "the previewer goroutine is started outside any loop", "started repeatedly")
				}
			}
		})
		r.check(nGo == 1, relName(loop)+":one go site for the previewer", prev.Pos(), loop, "one `go` statement starts the previewer", fmt.Sprintf("%d go statements", nGo))
		// reap channel: local chan on which nested goroutines send
		var start ssa.Instruction
		eachInstr(prev, func(in ssa.Instruction) {
			if _, ok := isCall(in, "(*os/exec.Cmd).Start"); ok {
				start = in
			}
		})
		// helper goroutines and the channels they send on last
		sendsOn := map[ssa.Value]int{}
		eachInstr(prev, func(in ssa.Instruction) {
			g, ok := in.(*ssa.Go)
			if !ok {
				return
			}
			fs, _ := resolveFuncs(g.Call.Value)
			for _, h := range fs {
				eachInstr(h, func(i2 ssa.Instruction) {
					if snd, ok := i2.(*ssa.Send); ok {
						// a send that post-dominates the helper's body: the block ends in return
						if _, isRet := i2.Block().Instrs[len(i2.Block().Instrs)-1].(*ssa.Return); isRet {
							sendsOn[cellRoot(addrOfChan(snd.Chan))]++
						}
					}
				})
			}
		})
		if start == nil {
			r.unest(relName(prev)+":Start", token.NoPos, prev, "cmd.Start() in the previewer", "not found")
		} else {
			sv, _ := start.(ssa.Value)
			edgeOK := func(from, to *ssa.BasicBlock) bool {
				ifi, ok := from.Instrs[len(from.Instrs)-1].(*ssa.If)
				if !ok {
					return true
				}
				atom, neg := normCond(ifi.Cond)
				b, ok := atom.(*ssa.BinOp)
				if !ok || (b.X != sv && b.Y != sv) {
					return true
				}
				succTrue := (b.Op == token.EQL) != neg
				if succTrue {
					return to == from.Succs[0]
				}
				return to == from.Succs[1]
			}
			for ch, cnt := range sendsOn {
				if cnt == 0 {
					continue
				}
				// count receives on ch that are on every success path: find recv instrs, each must block all paths
				var recvs []ssa.Instruction
				eachInstr(prev, func(in ssa.Instruction) {
					if u, ok := in.(*ssa.UnOp); ok && u.Op == token.ARROW && cellRoot(addrOfChan(u.X)) == ch {
						recvs = append(recvs, in)
					}
				})
				// each single receive must be unavoidable between Start(success) and the next iteration
				unavoidable := 0
				for _, rc := range recvs {
					rr := rc
					if pathAvoiding(start, func(i ssa.Instruction) bool { return isReturn(i) || i == start }, func(i ssa.Instruction) bool { return i == rr }, edgeOK) == nil {
						unavoidable++
					}
				}
				name := "channel"
				if al, ok := ch.(*ssa.Alloc); ok {
					name = al.Comment
				}
				r.check(unavoidable >= cnt, fmt.Sprintf("%s:join helpers on %s", relName(prev), name), start.Pos(), prev,
					fmt.Sprintf("%d helper goroutines signal on `%s`; %d receives are unavoidable after a successful Start", cnt, name, unavoidable), "the previewer can start the next command while a helper of the old one is still running")
			}
			r.floor("helper goroutine completion channels", len(sendsOn), 1)
		}
	}

	// ---------------- R3/R4 shared ----------------
	r.rule("C20-R3", "A/B", "P1", "session end posts reqQuit to the previewer and kills the running child (same obligations as C14-R2)", "a preview child survives the session")
	c14r2(c, r)
	r.rule("C20-R4", "A/D", "P1", "preview child is started as a process-group leader and waited for; only leaders are group-killed (same obligations as C14-R4)", "superseded previews cannot be killed")
	c14r4(c, r)

	// ---------------- R5 ----------------
	r.rule("C20-R5", "B (creation census)", "P1",
		"Terminal.killChan is created unbuffered",
		"with a buffer a cancel sent while no command runs is parked and kills the NEXT (latest) preview command")
	fKill := l.Field("fzf", "Terminal", "killChan")
	nk := 0
	if fKill != nil {
		for _, f := range l.AllFuncs() {
			eachInstr(f, func(in ssa.Instruction) {
				st, ok := in.(*ssa.Store)
				if !ok {
					return
				}
				if fld, _ := fieldOf(st.Addr); fld != fKill {
					return
				}
				nk++
				mc, ok := st.Val.(*ssa.MakeChan)
				r.check(ok && isConstInt(mc.Size, 0), relName(f)+":killChan unbuffered", st.Pos(), f, "killChan = make(chan bool) (rendezvous)", "kill channel has a buffer")
			})
		}
	}
	r.floor("initialisations of Terminal.killChan", nk, 1)

	c20round2(c, r)
	c14round2(c, r) // SIGKILL to the group, exit wait covers the watcher's delay

	// ---------------- R6 ----------------
	r.rule("C20-R6", "E (sibling agreement)", "P1",
		"the template inspected by hasPreviewFlags before `t.version++` on a query change is the same field path (previewOpts.command) that the render loop passes to refreshPreview on focus/version change",
		"a {q} preview is not re-run after a query edit when the active window options are a stale copy")
	hpf := l.Fn("fzf", "hasPreviewFlags")
	fVersion := l.Field("fzf", "Terminal", "version")
	if hpf != nil && fVersion != nil {
		pathOf := func(v ssa.Value) string {
			var names []string
			for i := 0; i < 6; i++ {
				switch x := v.(type) {
				case *ssa.UnOp:
					v = x.X
				case *ssa.FieldAddr:
					fld, _ := fieldOf(x)
					names = append([]string{fld.Name()}, names...)
					v = x.X
				case *ssa.Field:
					fld, _ := fieldOf(x)
					names = append([]string{fld.Name()}, names...)
					v = x.X
				default:
					return strings.Join(names, ".")
				}
			}
			return strings.Join(names, ".")
		}
		// (a) the bump site in Loop (root function): version store under a literal derived from hasPreviewFlags
		bumpPath := ""
		var bumpAt token.Pos
		pc := pathConds(loop)
		eachInstr(loop, func(in ssa.Instruction) {
			st, ok := in.(*ssa.Store)
			if !ok {
				return
			}
			if fld, _ := fieldOf(st.Addr); fld != fVersion {
				return
			}
			for _, d := range pc.At(in.Block()) {
				for _, lt := range d {
					ex, ok := lt.Atom.(*ssa.Extract)
					if !ok {
						continue
					}
					call, ok := ex.Tuple.(*ssa.Call)
					if ok && call.Common().StaticCallee() == hpf && lt.Val {
						bumpPath = pathOf(call.Call.Args[0])
						bumpAt = in.Pos()
					}
				}
			}
		})
		// (b) the render loop's refreshPreview(arg) under focusChanged||version != t.version : any call of the refreshPreview
		// closure whose argument is a Terminal field path
		refreshPaths := map[string]bool{}
		for _, f := range withClosures(loop) {
			if f == loop || f.Parent() == nil {
				continue
			}
			eachInstr(f, func(in ssa.Instruction) {
				call, ok := in.(*ssa.Call)
				if !ok || len(call.Call.Args) != 1 {
					return
				}
				fs, ok2 := calleesOf(call.Common())
				if !ok2 || len(fs) != 1 || fs[0].Parent() != loop {
					return
				}
				// the callee is the refreshPreview closure iff it calls previewBox.Set(enqueue)
				isRefresh := false
				eachInstr(fs[0], func(i2 ssa.Instruction) {
					if cc, ok := isCall(i2, setName); ok && isLoadOf(cc.Args[0], fBox) {
						isRefresh = true
					}
				})
				if isRefresh && in.Parent().Parent() != nil && in.Parent().Parent().Parent() != nil {
					if p := pathOf(call.Call.Args[0]); p != "" {
						refreshPaths[p] = true
					}
				}
			})
		}
		if bumpPath == "" {
			r.unest(relName(loop)+":version bump", token.NoPos, loop, "query-change version bump guarded by hasPreviewFlags(..)", "not found")
		} else {
			r.check(refreshPaths[bumpPath], relName(loop)+":bump inspects the template that is run", bumpAt, loop,
				fmt.Sprintf("version bump inspects `%s`; the render loop runs %v", bumpPath, keysOf(refreshPaths)), "the inspected template is not the one handed to the previewer")
		}
	}
}

// addrOfChan: the storage a channel value was loaded from (`*cell`) or the value itself.
func addrOfChan(v ssa.Value) ssa.Value {
	if u, ok := v.(*ssa.UnOp); ok && u.Op == token.MUL {
		return u.X
	}
	return v
}
