package main

import (
	"fmt"
	"go/token"
	"go/types"
	"regexp/syntax"

	"golang.org/x/tools/go/ssa"
)

func init() {
	register(&propDef{
		id:  "C16",
		run: runC16,
		explanation: "Structural clauses of the --listen access rules, decided on the SSA/CFG of server.go and its wiring in terminal.go: " +
			"(R1) both effects of a request — the state dump through getHandler and the delivery of actions on actionChannel — happen only on paths whose branch conditions imply 'no key configured OR constant-time compare succeeded'; " +
			"(R2) net.Listen happens only on paths implying 'local address OR key present', and the key stored in the server is the tested one; " +
			"(R3) nothing reachable from the GET handler writes Terminal state; (R4) the configured key is only ever measured with len or compared with crypto/subtle.ConstantTimeCompare; " +
			"(R5) the POST body goes through the same parser (parseSingleActionList) as `transform` and the received list reaches the same doActions interpreter as key bindings.",
		notDecided: "totality of the hand-rolled HTTP request scanner over arbitrary byte streams (malformed, oversized, early close); well-formedness of every answer",
	})
}

func isLenOf(v ssa.Value, match func(ssa.Value) bool) bool {
	c, ok := v.(*ssa.Call)
	if !ok {
		return false
	}
	b, ok := c.Call.Value.(*ssa.Builtin)
	return ok && b.Name() == "len" && match(stripConv(c.Call.Args[0]))
}

// cmpShape decodes `x OP const` / `const OP x` comparisons.
func cmpInt(v ssa.Value) (x ssa.Value, op token.Token, k int64, ok bool) {
	b, isb := v.(*ssa.BinOp)
	if !isb {
		return
	}
	if n, isc := constIntVal(b.Y); isc {
		return b.X, b.Op, n, true
	}
	if n, isc := constIntVal(b.X); isc {
		// mirror
		m := map[token.Token]token.Token{token.LSS: token.GTR, token.GTR: token.LSS, token.LEQ: token.GEQ, token.GEQ: token.LEQ, token.EQL: token.EQL, token.NEQ: token.NEQ}
		return b.Y, m[b.Op], n, true
	}
	return
}

// intFact: does literal (atom,val) establish `x == k` (eq=true) or `x != k` (eq=false) for an x accepted by match?
func intFact(atom ssa.Value, val bool, k int64, eq bool, match func(ssa.Value) bool) bool {
	x, op, n, ok := cmpInt(atom)
	if !ok || !match(x) {
		return false
	}
	if n == k {
		if op == token.EQL && val == eq {
			return true
		}
		if op == token.NEQ && val != eq {
			return true
		}
	}
	// for k==0 and non-negative x (len): x > 0 true  <=> x != 0 ; x <= 0 true <=> x == 0 ; x >= 1, x < 1
	if k == 0 {
		if op == token.GTR && n == 0 {
			return val != eq
		}
		if op == token.LEQ && n == 0 {
			return val == eq
		}
		if op == token.GEQ && n == 1 {
			return val != eq
		}
		if op == token.LSS && n == 1 {
			return val == eq
		}
	}
	return false
}

func runC16(c *Ctx, r *Report) {
	defer round8(c, r, "C16")
	l := c.L
	defer c16r9(c, r)
	defer c16r10(c, r)
	defer c16r11(c, r)
	defer c16r12(c, r)
	defer c16r15(c, r)
	h := l.Fn("fzf", "(*httpServer).handleHttpRequest")
	start := l.Fn("fzf", "startHttpServer")
	fApiKey := l.Field("fzf", "httpServer", "apiKey")
	fChan := l.Field("fzf", "httpServer", "actionChannel")
	fGet := l.Field("fzf", "httpServer", "getHandler")

	// ---------------- R1 ----------------
	r.rule("C16-R1", "A (path conditions)", "P1",
		"in handleHttpRequest every send on httpServer.actionChannel and every call of httpServer.getHandler is reached only under (len(apiKey)==0 OR ConstantTimeCompare(..)==1)",
		"a request without the key changes state or reads it")
	if h == nil || fApiKey == nil || fChan == nil || fGet == nil {
		r.unest("anchors", token.NoPos, h, "anchors handleHttpRequest / httpServer.{apiKey,actionChannel,getHandler}", "cannot resolve")
	} else {
		isKeyLoad := func(v ssa.Value) bool { f, _ := loadedField(v); return f == fApiKey }
		isCTC := func(v ssa.Value) bool {
			call, ok := v.(*ssa.Call)
			if !ok || calleeName(call.Common()) != "crypto/subtle.ConstantTimeCompare" {
				return false
			}
			return isKeyLoad(stripConv(call.Call.Args[0])) || isKeyLoad(stripConv(call.Call.Args[1]))
		}
		auth := func(lits []Lit) bool {
			return hasLit(lits, func(a ssa.Value, v bool) bool {
				return intFact(a, v, 0, true, func(x ssa.Value) bool { return isLenOf(x, isKeyLoad) }) ||
					intFact(a, v, 1, true, isCTC) || intFact(a, v, 0, false, isCTC) // ConstantTimeCompare returns 0 or 1
			})
		}
		nSinks := 0
		for _, f := range withClosures(h) {
			pc := pathConds(f)
			eachInstr(f, func(in ssa.Instruction) {
				what, key := "", ""
				switch x := in.(type) {
				case *ssa.Send:
					if fld, _ := loadedField(x.Chan); fld == fChan {
						what, key = "send on actionChannel", "send actionChannel"
					}
				case *ssa.Select:
					for _, st := range x.States {
						if fld, _ := loadedField(st.Chan); fld == fChan && st.Dir == types.SendOnly {
							what, key = "select-send on actionChannel", "send actionChannel"
						}
					}
				case ssa.CallInstruction:
					if fld, _ := loadedField(x.Common().Value); fld == fGet {
						what, key = "call of getHandler (state dump)", "call getHandler"
					}
				}
				if what == "" {
					return
				}
				nSinks++
				if f != h {
					r.unest(relName(h)+":"+key, in.Pos(), f, what, "effect sits in a nested closure; guard cannot be established intraprocedurally")
					return
				}
				holds, reach := pc.Implies(in.Block(), auth)
				if !reach {
					r.ok(relName(h)+":"+key, in.Pos(), f, what+" (unreachable)")
					return
				}
				r.check(holds, relName(h)+":"+key, in.Pos(), f, what+" is dominated by the API-key check",
					"reachable on a path where neither `len(apiKey)==0` nor `ConstantTimeCompare(...)==1` has been established")
			})
		}
		r.floor("request effects (send + getHandler call)", nSinks, 2)
	}

	// ---------------- R2 ----------------
	r.rule("C16-R2", "A (path conditions)", "P1",
		"in startHttpServer net.Listen is reached only under (address.IsLocal() OR len(apiKey) != 0); the key stored into httpServer.apiKey is the tested value",
		"a non-local listener starts without a key")
	if start == nil {
		r.unest("anchors", token.NoPos, nil, "anchor startHttpServer", "cannot resolve")
	} else {
		isLocal := l.Fn("fzf", "listenAddress.IsLocal")
		var keyVals []ssa.Value // values stored into httpServer.apiKey
		for _, f := range withClosures(start) {
			eachInstr(f, func(in ssa.Instruction) {
				if st, ok := in.(*ssa.Store); ok {
					if fld, _ := fieldOf(st.Addr); fld == fApiKey {
						keyVals = append(keyVals, stripConv(st.Val))
					}
				}
			})
		}
		if len(keyVals) != 1 {
			r.unest(relName(start)+":store apiKey", token.NoPos, start, "exactly one store to httpServer.apiKey in startHttpServer", "found a different number")
		} else {
			kv := keyVals[0]
			r.ok(relName(start)+":store apiKey", kv.Pos(), start, "httpServer.apiKey is initialised from "+kv.String())
			guard := func(lits []Lit) bool {
				return hasLit(lits, func(a ssa.Value, v bool) bool {
					if call, ok := a.(*ssa.Call); ok && isLocal != nil && call.Common().StaticCallee() == isLocal && v {
						return true
					}
					return intFact(a, v, 0, false, func(x ssa.Value) bool {
						return isLenOf(x, func(y ssa.Value) bool { return y == kv })
					})
				})
			}
			pc := pathConds(start)
			n := 0
			eachInstr(start, func(in ssa.Instruction) {
				if _, ok := isCall(in, "net.Listen"); ok {
					n++
					holds, _ := pc.Implies(in.Block(), guard)
					r.check(holds, relName(start)+":net.Listen", in.Pos(), start, "net.Listen is dominated by the remote-needs-key check",
						"reachable although neither IsLocal() nor len(key)!=0 is established for the key that the server will enforce")
				}
			})
			r.floor("net.Listen sites", n, 1)
		}
		// who else listens?
		for _, f := range l.AllFuncs() {
			if rootFn(f) == start {
				continue
			}
			eachInstr(f, func(in ssa.Instruction) {
				if _, ok := isCall(in, "net.Listen"); ok {
					r.bad(relName(f)+":net.Listen", in.Pos(), f, "net.Listen outside startHttpServer", "a second listener bypasses the key requirement")
				}
			})
		}
	}

	// ---------------- R3 ----------------
	r.rule("C16-R3", "B (census over call graph)", "P1",
		"no function reachable from the GET handler (*Terminal).dumpStatus stores to a field of Terminal (or updates a map/slice held in one)",
		"GET changes state")
	dump := l.Fn("fzf", "(*Terminal).dumpStatus")
	term := l.Named("fzf", "Terminal")
	if dump == nil || term == nil {
		r.unest("anchors", token.NoPos, nil, "anchor (*Terminal).dumpStatus", "cannot resolve")
	} else {
		cg := l.CallGraph()
		reach := map[*ssa.Function]bool{}
		var visit func(f *ssa.Function)
		visit = func(f *ssa.Function) {
			if reach[f] || f.Pkg == nil || !isModulePkg(f.Pkg.Pkg) {
				return
			}
			reach[f] = true
			for _, a := range f.AnonFuncs {
				visit(a)
			}
			if n := cg.Nodes[f]; n != nil {
				for _, e := range n.Out {
					visit(e.Callee.Func)
				}
			}
		}
		visit(dump)
		isTermField := func(addr ssa.Value) *types.Var {
			fld, base := fieldOf(addr)
			if fld == nil {
				return nil
			}
			if n, ok := deref(base.Type()).(*types.Named); ok && n.Obj() == term.Obj() {
				return fld
			}
			return nil
		}
		nf := 0
		for f := range reach {
			nf++
			r.analysed(f)
			eachInstr(f, func(in ssa.Instruction) {
				switch x := in.(type) {
				case *ssa.Store:
					if fld := isTermField(x.Addr); fld != nil {
						r.bad(relName(f)+":store Terminal."+fld.Name(), in.Pos(), f, "store to Terminal."+fld.Name()+" reachable from GET handler", "GET must not change state")
					}
					if ia, ok := x.Addr.(*ssa.IndexAddr); ok {
						if fld, _ := loadedField(ia.X); fld != nil {
							if tf := isTermFieldVar(fld, term); tf {
								r.bad(relName(f)+":elem store Terminal."+fld.Name(), in.Pos(), f, "element store into Terminal."+fld.Name()+" reachable from GET handler", "GET must not change state")
							}
						}
					}
				case *ssa.MapUpdate:
					if fld, _ := loadedField(x.Map); fld != nil && isTermFieldVar(fld, term) {
						r.bad(relName(f)+":mapupdate Terminal."+fld.Name(), in.Pos(), f, "map update of Terminal."+fld.Name()+" reachable from GET handler", "GET must not change state")
					}
				}
			})
		}
		r.ok(relName(dump)+":reach", dump.Pos(), dump, "functions reachable from the GET handler inspected for Terminal writes")
		r.floor("functions reachable from dumpStatus", nf, 6)
		r.exempt("Merger.merged/cursors", "lazy k-way merge memoisation inside (*Merger).mergedGet is not Terminal state (exempt by type: only Terminal fields are judged)")
	}

	// ---------------- R4 ----------------
	r.rule("C16-R4", "B (census of uses)", "P1",
		"every use of a load of httpServer.apiKey is len(...) or an argument of crypto/subtle.ConstantTimeCompare",
		"timing side channel or prefix acceptance through ==/bytes.Equal/HasPrefix")
	if fApiKey != nil {
		n := 0
		for _, f := range l.AllFuncs() {
			eachInstr(f, func(in ssa.Instruction) {
				u, ok := in.(*ssa.UnOp)
				if !ok || u.Op != token.MUL {
					return
				}
				if fld, _ := fieldOf(u.X); fld != fApiKey {
					return
				}
				for _, ref := range *u.Referrers() {
					n++
					okUse := false
					if call, isCall := ref.(*ssa.Call); isCall {
						nm := calleeName(call.Common())
						okUse = nm == "builtin.len" || nm == "crypto/subtle.ConstantTimeCompare"
					}
					r.check(okUse, relName(f)+":use apiKey:"+instrKind(ref), ref.Pos(), f, "use of the configured key: "+instrKind(ref),
						"the key may only be measured with len or compared with subtle.ConstantTimeCompare")
				}
			})
		}
		r.floor("uses of httpServer.apiKey", n, 2)
	}

	// ---------------- R5 ----------------
	r.rule("C16-R5", "D (derivation) + B", "P1",
		"the list sent on actionChannel is result 0 of parseSingleActionList (the parser `transform` uses); the channel is Terminal.serverInputChan and the list received from it reaches the doActions interpreter used for key bindings",
		"POST bodies are interpreted differently from --bind")
	parse := l.Fn("fzf", "parseSingleActionList")
	loop := l.Fn("fzf", "(*Terminal).Loop")
	fSrv := l.Field("fzf", "Terminal", "serverInputChan")
	if h == nil || parse == nil || loop == nil || fSrv == nil {
		r.unest("anchors", token.NoPos, nil, "anchors parseSingleActionList / Loop / Terminal.serverInputChan", "cannot resolve")
	} else {
		// (a) sent value derives from parseSingleActionList result 0
		eachInstr(h, func(in ssa.Instruction) {
			var sent ssa.Value
			switch x := in.(type) {
			case *ssa.Send:
				if fld, _ := loadedField(x.Chan); fld == fChan {
					sent = x.X
				}
			case *ssa.Select:
				for _, st := range x.States {
					if fld, _ := loadedField(st.Chan); fld == fChan && st.Dir == types.SendOnly {
						sent = st.Send
					}
				}
			}
			if sent == nil {
				return
			}
			ex, ok := sent.(*ssa.Extract)
			good := false
			if ok && ex.Index == 0 {
				if call, ok := ex.Tuple.(*ssa.Call); ok && call.Common().StaticCallee() == parse {
					good = true
				}
			}
			r.check(good, relName(h)+":sent value", in.Pos(), h, "value sent on actionChannel is parseSingleActionList(...) result 0", "the delivered list is not the direct result of the shared parser")
		})
		// (b) transform uses the same parser and feeds doActions
		var doActions *ssa.Function
		nParseInLoop := 0
		for _, f := range withClosures(loop) {
			eachInstr(f, func(in ssa.Instruction) {
				if call, ok := in.(*ssa.Call); ok && call.Common().StaticCallee() == parse {
					nParseInLoop++
					// result 0 flows into a call: which callee?
					der := forwardDerived(loop, []ssa.Value{call}, nil)
					eachInstr(f, func(in2 ssa.Instruction) {
						c2, ok := in2.(ssa.CallInstruction)
						if !ok || len(c2.Common().Args) == 0 || !der[c2.Common().Args[0]] {
							return
						}
						if fs, ok := calleesOf(c2.Common()); ok && len(fs) == 1 && fs[0].Parent() != nil && rootFn(fs[0]) == loop {
							doActions = fs[0]
						}
					})
				}
			})
		}
		if doActions == nil {
			r.unest(relName(loop)+":transform interpreter", token.NoPos, loop, "`transform` hands parseSingleActionList's result to a local interpreter closure", "shape not found")
		} else {
			r.ok(relName(loop)+":transform interpreter", doActions.Pos(), loop, "`transform` parses with parseSingleActionList and runs the list through "+relName(doActions))
			// (c) receive from serverInputChan reaches doActions
			var recv []ssa.Value
			eachInstr(loop, func(in ssa.Instruction) {
				switch x := in.(type) {
				case *ssa.UnOp:
					if x.Op == token.ARROW {
						if fld, _ := loadedField(x.X); fld == fSrv {
							recv = append(recv, x)
						}
					}
				case *ssa.Select:
					for _, st := range x.States {
						if fld, _ := loadedField(st.Chan); fld == fSrv && st.Dir == types.RecvOnly {
							recv = append(recv, x)
						}
					}
				}
			})
			if len(recv) == 0 {
				r.unest(relName(loop)+":recv serverInputChan", token.NoPos, loop, "receive from Terminal.serverInputChan in Loop", "not found")
			} else {
				der := forwardDerived(loop, recv, nil)
				reaches := false
				var at token.Pos
				for _, f := range withClosures(loop) {
					eachInstr(f, func(in ssa.Instruction) {
						c2, ok := in.(ssa.CallInstruction)
						if !ok || len(c2.Common().Args) == 0 {
							return
						}
						fs, ok := calleesOf(c2.Common())
						if ok && len(fs) == 1 && fs[0] == doActions && der[c2.Common().Args[0]] {
							reaches = true
							at = in.Pos()
						}
					})
				}
				r.check(reaches, relName(loop)+":server list -> doActions", at, loop, "actions received from serverInputChan are executed by the same doActions closure as key bindings", "the received list does not reach doActions")
			}
		}
		// (d) wiring: startHttpServer(actionChannel := t.serverInputChan, getHandler := t.dumpStatus)
		nWire := 0
		for _, f := range l.AllFuncs() {
			eachInstr(f, func(in ssa.Instruction) {
				call, ok := in.(*ssa.Call)
				if !ok || call.Common().StaticCallee() != start {
					return
				}
				nWire++
				fld, _ := loadedField(call.Call.Args[1])
				r.check(fld == fSrv, relName(f)+":wire actionChannel", in.Pos(), f, "startHttpServer's action channel is Terminal.serverInputChan", "another channel is wired")
				okH := false
				if mc, ok := call.Call.Args[2].(*ssa.MakeClosure); ok {
					if fn, ok := mc.Fn.(*ssa.Function); ok && (fn == dump || (fn.Synthetic != "" && containsCallTo(fn, dump))) {
						okH = true
					}
				}
				r.check(okH, relName(f)+":wire getHandler", in.Pos(), f, "startHttpServer's GET handler is (*Terminal).dumpStatus", "another handler is wired")
			})
		}
		r.floor("startHttpServer call sites", nWire, 1)
		r.floor("parseSingleActionList uses in Loop (transform)", nParseInLoop, 1)
	}
	// ---------------- R6 ----------------
	c16r6(c, r)

	c16round2(c, r)

	// reported only
	r.note("reported, not judged: the remote-action filter processExecution lists execute/become/reload-style actions; transform-* variants that it omits are outside the property's text")
}

func isModulePkg(p *types.Package) bool {
	return p != nil && len(p.Path()) >= len(modPath) && p.Path()[:len(modPath)] == modPath
}

func isTermFieldVar(fld *types.Var, term *types.Named) bool {
	st := term.Underlying().(*types.Struct)
	for i := 0; i < st.NumFields(); i++ {
		if st.Field(i) == fld {
			return true
		}
	}
	return false
}

func instrKind(in ssa.Instruction) string {
	switch x := in.(type) {
	case *ssa.Call:
		return "call " + calleeName(x.Common())
	case *ssa.BinOp:
		return "binop " + x.Op.String()
	case *ssa.Store:
		return "store"
	case *ssa.Convert:
		return "convert to " + x.Type().String()
	case *ssa.Slice:
		return "slice"
	case *ssa.MakeInterface:
		return "make-interface"
	case *ssa.Phi:
		return "phi"
	}
	s := in.String()
	if len(s) > 40 {
		s = s[:40]
	}
	return s
}

func containsCallTo(fn, target *ssa.Function) bool {
	found := false
	eachInstr(fn, func(in ssa.Instruction) {
		if c, ok := in.(ssa.CallInstruction); ok && c.Common().StaticCallee() == target {
			found = true
		}
	})
	return found
}

func c16r6(c *Ctx, r *Report) {
	l := c.L
	r.rule("C16-R6", "E (regexp/syntax language of a constant pattern) ", "P1",
		"the request-line pattern getRegex admits no sign character in the GET parameter group (so limit/offset parse as non-negative integers), or dumpStatus checks the sign itself",
		"GET /?offset=-1 indexes a slice with a negative number: fzf panics on the server goroutine (remote crash)")
	g := l.Global("fzf", "getRegex")
	if g == nil {
		r.unest("anchors", token.NoPos, nil, "anchor getRegex", "cannot resolve")
		return
	}
	// the constant pattern stored into getRegex (in init)
	var pat string
	var at token.Pos
	found := 0
	for _, f := range l.AllFuncs() {
		eachInstr(f, func(in ssa.Instruction) {
			st, ok := in.(*ssa.Store)
			if !ok || st.Addr != ssa.Value(g) {
				return
			}
			call, ok := st.Val.(*ssa.Call)
			if !ok {
				return
			}
			if nm := calleeName(call.Common()); nm != "regexp.MustCompile" && nm != "regexp.Compile" {
				return
			}
			if s, ok := constString(call.Call.Args[0]); ok {
				pat, at = s, in.Pos()
				found++
			}
		})
	}
	if found != 1 {
		r.unest("getRegex pattern", token.NoPos, nil, "constant pattern assigned to getRegex", fmt.Sprintf("%d constant assignments found", found))
		return
	}
	re, err := syntax.Parse(pat, syntax.Perl)
	if err != nil {
		r.unest("getRegex pattern", at, nil, "pattern parses", err.Error())
		return
	}
	// alphabet of capture group 1
	var cap1 *syntax.Regexp
	var walk func(x *syntax.Regexp)
	walk = func(x *syntax.Regexp) {
		if x.Op == syntax.OpCapture && x.Cap == 1 {
			cap1 = x
		}
		for _, s := range x.Sub {
			walk(s)
		}
	}
	walk(re)
	signFree := cap1 != nil
	var admits func(x *syntax.Regexp, ch rune) bool
	admits = func(x *syntax.Regexp, ch rune) bool {
		switch x.Op {
		case syntax.OpLiteral:
			for _, rr := range x.Rune {
				if rr == ch {
					return true
				}
			}
		case syntax.OpCharClass:
			for i := 0; i+1 < len(x.Rune); i += 2 {
				if x.Rune[i] <= ch && ch <= x.Rune[i+1] {
					return true
				}
			}
		case syntax.OpAnyChar, syntax.OpAnyCharNotNL:
			return true
		}
		for _, s := range x.Sub {
			if admits(s, ch) {
				return true
			}
		}
		return false
	}
	if cap1 != nil && (admits(cap1, '-') || admits(cap1, '+')) {
		signFree = false
	}
	if signFree {
		r.ok("getRegex:param alphabet", at, nil, "GET parameter group of getRegex cannot contain '-' or '+': limit/offset are non-negative")
		return
	}
	// otherwise dumpStatus / parseGetParams must test the sign: a comparison of the parsed value with 0
	okGuard := false
	for _, name := range []string{"parseGetParams", "(*Terminal).dumpStatus"} {
		f := l.Fn("fzf", name)
		if f == nil {
			continue
		}
		eachInstr(f, func(in ssa.Instruction) {
			if b, ok := in.(*ssa.BinOp); ok && (b.Op == token.LSS || b.Op == token.GEQ) && isConstInt(b.Y, 0) {
				for v := range backwardSlice(b.X, nil, nil) {
					if fld, _ := fieldOf(v); fld != nil && (fld.Name() == "offset" || fld.Name() == "limit") {
						okGuard = true
					}
					if call, ok := v.(*ssa.Call); ok && calleeName(call.Common()) == "strconv.Atoi" {
						okGuard = true
					}
				}
			}
		})
	}
	r.check(okGuard, "getRegex:param alphabet", at, nil, "GET parameters are sign-checked because the pattern admits a sign", "the pattern lets '-' through and nothing rejects a negative offset/limit before it is used as a slice index")
}
