package main

import (
	"encoding/json"
	"flag"
	"fmt"
	"os"
	"sort"
	"strconv"
	"strings"
	"time"
)

type propDef struct {
	id          string
	run         func(c *Ctx, r *Report)
	explanation string
	notDecided  string
	assumptions []string
}

// Ctx carries the loads for one run.
type Ctx struct {
	Repo   string
	Tier   string
	L      *Loaded            // linux/amd64
	alt    map[string]*Loaded // other configurations, lazily
	Verif  string
	report *Report
}

func (c *Ctx) thorough() bool { return c.Tier == "thorough" }

func (c *Ctx) Alt(goos, goarch string) (*Loaded, error) {
	k := goos + "/" + goarch
	if l, ok := c.alt[k]; ok {
		return l, nil
	}
	l, err := load(c.Repo, goos, goarch, "")
	if err != nil {
		return nil, err
	}
	c.alt[k] = l
	if c.report != nil {
		c.report.Alts = append(c.report.Alts, l)
	}
	return l, nil
}

var props = map[string]*propDef{}

func register(p *propDef) { props[p.id] = p }

func main() {
	repo := flag.String("repo", "/repo", "repository to analyse")
	prop := flag.String("prop", "", "property id (C01..C20)")
	tier := flag.String("tier", "quick", "quick|thorough")
	evid := flag.String("evidence", "", "evidence file to write")
	known := flag.String("known", "", "known findings file")
	dump := flag.String("dump", "", "debug: dump SSA of function (pkg:name)")
	verbose := flag.Bool("v", false, "print every obligation")
	flag.Parse()
	start := time.Now()

	if *dump != "" {
		l, err := load(*repo, "linux", "amd64", "")
		if err != nil {
			fmt.Fprintln(os.Stderr, err)
			os.Exit(3)
		}
		parts := strings.SplitN(*dump, ":", 2)
		if parts[0] == "div" {
			debugDiv(l)
			os.Exit(0)
		}
		if parts[0] == "constidx" {
			debugConstIdx(l)
			os.Exit(0)
		}
		if parts[0] == "bytes" {
			debugByteSites(l, parts[1])
			os.Exit(0)
		}
		fn := l.Fn(parts[0], parts[1])
		if fn == nil {
			fmt.Fprintln(os.Stderr, "no such function")
			os.Exit(3)
		}
		for _, f := range withClosures(fn) {
			f.WriteTo(os.Stdout)
		}
		if os.Getenv("DEBUG_PC") != "" {
			debugPC(fn)
		}
		return
	}

	p := props[*prop]
	if p == nil {
		fmt.Fprintf(os.Stderr, "unknown property %q\n", *prop)
		os.Exit(3)
	}
	seed := 0
	if s := os.Getenv("VERIF_SEED"); s != "" {
		seed, _ = strconv.Atoi(s)
	}
	code := 3
	func() {
		defer func() {
			if e := recover(); e != nil {
				fmt.Fprintf(os.Stderr, "ANALYSIS-PANIC property=%s: %v\n", *prop, e)
				panic(e)
			}
		}()
		l, err := load(*repo, "linux", "amd64", "")
		if err != nil {
			fmt.Fprintf(os.Stderr, "LOAD-FAILED property=%s: %v\n", *prop, err)
			os.Exit(3)
		}
		c := &Ctx{Repo: *repo, Tier: *tier, L: l, alt: map[string]*Loaded{"linux/amd64": l}}
		r := newReport(p.id, l)
		c.report = r
		p.run(c, r)
		code = finish(c, p, r, *evid, *known, seed, start, *verbose)
	}()
	os.Exit(code)
}

func finish(c *Ctx, p *propDef, r *Report, evid, knownPath string, seed int, start time.Time, verbose bool) int {
	kf, err := loadKnown(knownPath)
	if knownPath != "" && err != nil {
		fmt.Fprintf(os.Stderr, "cannot read known findings: %v\n", err)
		return 3
	}
	knownKeys := map[string]KnownFinding{}
	for _, k := range kf {
		if k.Status == "known" && k.Property == p.id {
			knownKeys[k.Key] = k
		}
	}
	sortObls(r.Obls)
	nOK, nBad, nUnest, nInfo, nKnown := 0, 0, 0, 0, 0
	var bads []Obligation
	for i := range r.Obls {
		o := &r.Obls[i]
		if o.Status == BAD {
			if k, ok := knownKeys[o.Key]; ok {
				o.Status = KNOWN
				fmt.Printf("KNOWN-FINDING: property=%s %s [%s at %s]\n", p.id, k.What, o.Key, o.Site)
			}
		}
		switch o.Status {
		case OK:
			nOK++
		case BAD:
			nBad++
			bads = append(bads, *o)
		case UNEST:
			nUnest++
			bads = append(bads, *o)
		case INFO:
			nInfo++
		case KNOWN:
			nKnown++
		}
	}
	judged := nOK + nBad + nUnest + nKnown
	// distinct non-trivial = distinct (rule,key) among judged obligations that are tied to a code site
	distinct := map[string]bool{}
	for _, o := range r.Obls {
		if o.Status != INFO && !strings.Contains(o.Key, ":floor:") {
			distinct[o.Key] = true
		}
	}
	perRule := map[string]map[string]int{}
	for _, o := range r.Obls {
		if perRule[o.Rule] == nil {
			perRule[o.Rule] = map[string]int{}
		}
		perRule[o.Rule][string(o.Status)]++
	}
	// samples: all failures + a spread of discharged ones per rule
	var samples []Obligation
	samples = append(samples, bads...)
	cnt := map[string]int{}
	for _, o := range r.Obls {
		if o.Status == OK || o.Status == KNOWN || o.Status == INFO {
			if cnt[o.Rule] < 6 {
				cnt[o.Rule]++
				samples = append(samples, o)
			}
		}
	}
	var fns []string
	for f := range r.funcs {
		fns = append(fns, f)
	}
	sort.Strings(fns)
	var cfgs []string
	for k := range c.alt {
		cfgs = append(cfgs, k)
	}
	sort.Strings(cfgs)
	var fixed []KnownFinding
	for _, k := range kf {
		if k.Property == p.id {
			fixed = append(fixed, k)
		}
	}
	ev := evidence{
		PropertyID: p.id, Tier: c.Tier, Seed: seed, Level: "other",
		Coverage: map[string]any{
			"explanation":           p.explanation,
			"not_decided":           p.notDecided,
			"obligations":           judged,
			"discharged":            nOK,
			"evaluations":           judged,
			"distinct_nontrivial":   len(distinct),
			"rule":                  "an obligation = one (rule, program construct) pair re-derived from /repo's current source on this run; distinct = distinct construct keys (function + field/callee/role, never a line); non-trivial = tied to a code site (vacuity floors excluded); reported-only (info) entries are not counted",
			"samples":               samples,
			"rules":                 r.Rules,
			"per_rule":              perRule,
			"violated":              nBad,
			"not_established":       nUnest,
			"known_findings_hit":    nKnown,
			"info_reported":         nInfo,
			"functions_analysed":    fns,
			"n_functions_analysed":  len(fns),
			"packages_loaded":       len(c.L.Pkgs),
			"build_configurations":  cfgs,
			"exemptions":            r.Exemptions,
			"notes":                 r.Notes,
			"findings_file_entries": fixed,
			"checker_cmd":           strings.Join(os.Args, " "),
			"exhaustive":            false,
		},
		Assumptions: append([]string{
			"go/types, go/ssa (x/tools v0.29.0) and `go list` model the program the compiler builds for the listed configurations",
			"a structural clause is a necessary condition of the property; the behaviour listed under not_decided is not decided",
		}, p.assumptions...),
		WallS:      time.Since(start).Seconds(),
		Violations: nBad + nUnest,
	}
	if evid != "" {
		b, _ := json.MarshalIndent(ev, "", " ")
		if err := os.WriteFile(evid, append(b, '\n'), 0644); err != nil {
			fmt.Fprintf(os.Stderr, "cannot write evidence: %v\n", err)
			return 3
		}
	}
	fmt.Printf("property=%s tier=%s config=%s rules=%d obligations=%d discharged=%d violated=%d not-established=%d known=%d info=%d functions=%d wall=%.1fs\n",
		p.id, c.Tier, strings.Join(cfgs, ","), len(r.Rules), judged, nOK, nBad, nUnest, nKnown, nInfo, len(fns), time.Since(start).Seconds())
	if verbose {
		for _, o := range r.Obls {
			fmt.Printf("  %-16s %-14s %s  %s  %s %s\n", o.Status, o.Rule, o.Site, o.Func, o.What, o.Reason)
		}
	}
	if len(bads) > 0 {
		for _, o := range bads {
			tag := ""
			if o.Status == UNEST {
				tag = "not-established: "
			}
			fmt.Printf("%s  %s  %s  %s  %s%s\n", o.Site, o.Func, o.Rule, o.What, tag, o.Reason)
		}
		fmt.Printf("VIOLATION property=%s replay=%s\n", p.id, evid)
		return 1
	}
	return 0
}
