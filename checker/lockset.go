package main

import (
	"go/token"
	"go/types"
	"sort"
	"strings"

	"golang.org/x/tools/go/ssa"
)

// Engine C: must-hold lockset per instruction + belief rule.
// A lock is identified by the path of field names from a module struct type to the sync primitive,
// e.g. "ChunkList.mutex" or "EventBox.cond.L" (instance-insensitive).

type lockOp struct {
	key     string
	acquire bool
}

// lockPath walks v (the receiver of a Lock/Unlock call) back to a field of a module struct.
func lockPath(v ssa.Value) string {
	var names []string
	for i := 0; i < 12; i++ {
		switch x := v.(type) {
		case *ssa.UnOp:
			if x.Op != token.MUL {
				return ""
			}
			v = x.X
		case *ssa.FieldAddr:
			st := deref(x.X.Type()).Underlying().(*types.Struct)
			names = append([]string{st.Field(x.Field).Name()}, names...)
			if n, ok := deref(x.X.Type()).(*types.Named); ok && isModulePkg(n.Obj().Pkg()) {
				return n.Obj().Name() + "." + strings.Join(names, ".")
			}
			v = x.X
		case *ssa.Field:
			st := x.X.Type().Underlying().(*types.Struct)
			names = append([]string{st.Field(x.Field).Name()}, names...)
			if n, ok := x.X.Type().(*types.Named); ok && isModulePkg(n.Obj().Pkg()) {
				return n.Obj().Name() + "." + strings.Join(names, ".")
			}
			v = x.X
		case *ssa.FreeVar:
			// a mutex declared in an enclosing function and captured by the closure
			if isSyncMutex(deref(x.Type())) {
				return "local." + x.Name()
			}
			return ""
		case *ssa.Alloc:
			if isSyncMutex(deref(x.Type())) && x.Comment != "" {
				return "local." + x.Comment
			}
			return ""
		default:
			return ""
		}
	}
	return ""
}

func isSyncMutex(t types.Type) bool {
	n, ok := t.(*types.Named)
	return ok && n.Obj().Pkg() != nil && n.Obj().Pkg().Path() == "sync" && (n.Obj().Name() == "Mutex" || n.Obj().Name() == "RWMutex")
}

func lockOpOf(in ssa.Instruction) (lockOp, bool) {
	ci, ok := in.(ssa.CallInstruction)
	if !ok {
		return lockOp{}, false
	}
	if _, isDefer := in.(*ssa.Defer); isDefer {
		return lockOp{}, false // a deferred Unlock keeps the lock until the function returns
	}
	if _, isGo := in.(*ssa.Go); isGo {
		return lockOp{}, false
	}
	c := ci.Common()
	name := calleeName(c)
	var recv ssa.Value
	acquire := false
	switch name {
	case "(*sync.Mutex).Lock", "(*sync.RWMutex).Lock", "(*sync.RWMutex).RLock", "(sync.Locker).Lock":
		acquire = true
	case "(*sync.Mutex).Unlock", "(*sync.RWMutex).Unlock", "(*sync.RWMutex).RUnlock", "(sync.Locker).Unlock":
	default:
		return lockOp{}, false
	}
	if c.IsInvoke() {
		recv = c.Value
	} else {
		recv = c.Args[0]
	}
	k := lockPath(recv)
	if k == "" {
		return lockOp{}, false
	}
	// a read lock is a different (weaker) key: it does not license writes
	if name == "(*sync.RWMutex).RLock" || name == "(*sync.RWMutex).RUnlock" {
		k += "#R"
	}
	return lockOp{k, acquire}, true
}

type lockState map[string]bool // nil = TOP (unvisited)

func (s lockState) clone() lockState {
	n := lockState{}
	for k := range s {
		n[k] = true
	}
	return n
}

func meetLS(a, b lockState) lockState {
	if a == nil {
		return b.clone()
	}
	if b == nil {
		return a.clone()
	}
	n := lockState{}
	for k := range a {
		if b[k] {
			n[k] = true
		}
	}
	return n
}

func eqLS(a, b lockState) bool {
	if (a == nil) != (b == nil) || len(a) != len(b) {
		return false
	}
	for k := range a {
		if !b[k] {
			return false
		}
	}
	return true
}

// locksets computes, for every instruction of fn, the set of locks held on every path reaching it.
func locksets(fn *ssa.Function, entry lockState) map[ssa.Instruction]lockState {
	in := map[*ssa.BasicBlock]lockState{}
	out := map[*ssa.BasicBlock]lockState{}
	if len(fn.Blocks) == 0 {
		return nil
	}
	res := map[ssa.Instruction]lockState{}
	for iter := 0; iter < 100; iter++ {
		changed := false
		for _, b := range fn.Blocks {
			var cur lockState
			if b == fn.Blocks[0] {
				cur = entry.clone()
			} else {
				for _, p := range b.Preds {
					if out[p] != nil {
						cur = meetLS(cur, out[p])
					}
				}
				if cur == nil {
					continue // all preds unvisited (TOP)
				}
			}
			in[b] = cur
			st := cur.clone()
			for _, ins := range b.Instrs {
				res[ins] = st.clone()
				if op, ok := lockOpOf(ins); ok {
					if op.acquire {
						st[op.key] = true
					} else {
						delete(st, op.key)
					}
				}
			}
			if !eqLS(out[b], st) {
				out[b] = st
				changed = true
			}
		}
		if !changed {
			break
		}
	}
	return res
}

type fieldAccess struct {
	typ, field string
	fld        *types.Var
	in         ssa.Instruction
	fn         *ssa.Function
	write      bool
	ctor       bool
	held       lockState
}

type lockAnalysis struct {
	entry    map[*ssa.Function]lockState
	sets     map[*ssa.Function]map[ssa.Instruction]lockState
	accesses []fieldAccess
	lockOf   map[string][]string // struct type -> lock keys
	summary  []string
}

// analyseLocks runs the lockset dataflow over all module functions with caller-holds-lock summaries
// for functions that have no lock operation of their own and are only called statically.
func analyseLocks(l *Loaded, skipTypes map[string]bool) *lockAnalysis {
	la := &lockAnalysis{entry: map[*ssa.Function]lockState{}, sets: map[*ssa.Function]map[ssa.Instruction]lockState{}, lockOf: map[string][]string{}}
	fns := l.AllFuncs()
	hasOps := map[*ssa.Function]bool{}
	for _, f := range fns {
		eachInstr(f, func(in ssa.Instruction) {
			if op, ok := lockOpOf(in); ok {
				hasOps[f] = true
				t := op.key[:strings.Index(op.key, ".")]
				found := false
				for _, k := range la.lockOf[t] {
					if k == op.key {
						found = true
					}
				}
				if !found {
					la.lockOf[t] = append(la.lockOf[t], op.key)
				}
			}
		})
	}
	// address-taken functions (used as values) cannot get a caller summary
	addrTaken := map[*ssa.Function]bool{}
	for _, f := range fns {
		eachInstr(f, func(in ssa.Instruction) {
			var buf [10]*ssa.Value
			for _, op := range in.Operands(buf[:0]) {
				if op == nil || *op == nil {
					continue
				}
				switch x := (*op).(type) {
				case *ssa.Function:
					if ci, ok := in.(ssa.CallInstruction); ok && ci.Common().Value == *op {
						continue
					}
					addrTaken[x] = true
				case *ssa.MakeClosure:
					_ = x
				}
			}
		})
	}
	for _, f := range fns {
		la.entry[f] = lockState{}
	}
	for round := 0; round < 6; round++ {
		for _, f := range fns {
			la.sets[f] = locksets(f, la.entry[f])
		}
		// recompute entry summaries
		callSites := map[*ssa.Function][]lockState{}
		for _, f := range fns {
			eachInstr(f, func(in ssa.Instruction) {
				ci, ok := in.(ssa.CallInstruction)
				if !ok {
					return
				}
				if _, isGo := in.(*ssa.Go); isGo {
					if g := ci.Common().StaticCallee(); g != nil {
						callSites[g] = append(callSites[g], lockState{})
					}
					return
				}
				g := ci.Common().StaticCallee()
				if g == nil {
					return
				}
				if _, isDefer := in.(*ssa.Defer); isDefer {
					callSites[g] = append(callSites[g], lockState{})
					return
				}
				callSites[g] = append(callSites[g], la.sets[f][in])
			})
		}
		changed := false
		for _, f := range fns {
			if hasOps[f] || addrTaken[f] || f.Parent() != nil || len(callSites[f]) == 0 {
				continue
			}
			if f.Object() != nil && f.Object().Exported() {
				continue // may be called from outside the analysed set
			}
			var e lockState
			for _, s := range callSites[f] {
				e = meetLS(e, s)
			}
			if !eqLS(e, la.entry[f]) {
				la.entry[f] = e
				changed = true
			}
		}
		if !changed {
			break
		}
	}
	for _, f := range fns {
		if len(la.entry[f]) > 0 {
			var ks []string
			for k := range la.entry[f] {
				ks = append(ks, k)
			}
			sort.Strings(ks)
			la.summary = append(la.summary, relName(f)+" requires "+strings.Join(ks, ","))
		}
	}
	sort.Strings(la.summary)
	// field accesses of lock-owning struct types
	for _, f := range fns {
		eachInstr(f, func(in ssa.Instruction) {
			fa, ok := in.(*ssa.FieldAddr)
			if !ok {
				return
			}
			n, ok := deref(fa.X.Type()).(*types.Named)
			if !ok || !isModulePkg(n.Obj().Pkg()) {
				return
			}
			tname := n.Obj().Name()
			if len(la.lockOf[tname]) == 0 || skipTypes[tname] {
				return
			}
			st := n.Underlying().(*types.Struct)
			fld := st.Field(fa.Field)
			// skip the lock fields themselves
			for _, k := range la.lockOf[tname] {
				if strings.HasPrefix(k, tname+"."+fld.Name()) {
					return
				}
			}
			acc := fieldAccess{typ: tname, field: fld.Name(), fld: fld, in: in, fn: f, held: la.sets[f][in]}
			// constructor: base is a fresh allocation in this function
			if al, ok := fa.X.(*ssa.Alloc); ok && al.Parent() == f {
				acc.ctor = true
			}
			for _, ref := range *fa.Referrers() {
				switch x := ref.(type) {
				case *ssa.Store:
					if x.Addr == ssa.Value(fa) {
						acc.write = true
					}
				case *ssa.UnOp:
					// loaded map/slice then updated in place
					for _, r2 := range *x.Referrers() {
						switch y := r2.(type) {
						case *ssa.MapUpdate:
							if y.Map == ssa.Value(x) {
								acc.write = true
							}
						case *ssa.Call:
							if calleeName(y.Common()) == "builtin.delete" && y.Call.Args[0] == ssa.Value(x) {
								acc.write = true
							}
						case *ssa.IndexAddr:
							for _, r3 := range *y.Referrers() {
								if st, ok := r3.(*ssa.Store); ok && st.Addr == ssa.Value(y) {
									acc.write = true
								}
							}
						}
					}
				}
			}
			la.accesses = append(la.accesses, acc)
		})
	}
	return la
}
