package main

import (
	"fmt"
	"go/token"
	"go/types"

	"golang.org/x/tools/go/ssa"
)

// c06r6: the rune storage of an item is only ever read.
//
// Chars.ToRunes returns the item's OWN []rune when the line is not plain ASCII (and a fresh slice
// otherwise). Whoever receives that slice may read it, copy from it or convert it, but must not write
// through it, append to it, keep it in longer-lived state or hand it on by returning it: the next
// in-place edit of such an alias rewrites the item (the list, the printed output, the next search).
func c06r6(c *Ctx, r *Report) {
	l := c.L
	r.rule("C06-R6", "F (ownership: aliases of an item's rune storage)", "P1",
		"every result of Chars.ToRunes in the module is used read-only: source of copy/append, element reads, len, string conversion, argument of a function that does the same — never written through, appended to, stored into a field / container / global, or returned",
		"an in-place edit of the alias (query editing after replace-query, ellipsis insertion when drawing) rewrites the stored item: the list shows and prints something that was never read")
	toRunes := l.Fn("util", "(*Chars).ToRunes")
	if toRunes == nil {
		r.unest("anchors", token.NoPos, nil, "anchor Chars.ToRunes", "cannot resolve")
		return
	}
	type verdict struct {
		bad string
		at  ssa.Instruction
	}
	var judge func(fn *ssa.Function, seeds []ssa.Value, depth int) *verdict
	judge = func(fn *ssa.Function, seeds []ssa.Value, depth int) *verdict {
		vals := map[ssa.Value]bool{}
		var work []ssa.Value
		add := func(v ssa.Value) {
			if !vals[v] {
				vals[v] = true
				work = append(work, v)
			}
		}
		for _, s := range seeds {
			add(s)
		}
		for len(work) > 0 {
			v := work[len(work)-1]
			work = work[:len(work)-1]
			if v.Referrers() == nil {
				continue
			}
			for _, ref := range *v.Referrers() {
				switch x := ref.(type) {
				case *ssa.Slice:
					if x.X == v {
						add(x)
					}
				case *ssa.Phi:
					add(x)
				case *ssa.ChangeType:
					add(x)
				case *ssa.Convert:
					// []rune -> string: a copy
				case *ssa.Index, *ssa.Range, *ssa.Lookup:
				case *ssa.IndexAddr:
					if x.X != v || x.Referrers() == nil {
						continue
					}
					for _, r2 := range *x.Referrers() {
						if st, ok := r2.(*ssa.Store); ok && st.Addr == ssa.Value(x) {
							return &verdict{"an element is written through the alias", st}
						}
					}
				case *ssa.Store:
					if x.Val != v {
						continue
					}
					if a, ok := x.Addr.(*ssa.Alloc); ok && !a.Heap {
						// a local variable: follow its loads
						for _, r2 := range *a.Referrers() {
							if u, ok := r2.(*ssa.UnOp); ok && u.Op == token.MUL {
								add(u)
							}
						}
						continue
					}
					return &verdict{"the alias is stored into longer-lived state (" + describe(x.Addr) + ")", x}
				case *ssa.Return:
					return &verdict{"the alias is returned to the caller", x}
				case *ssa.MakeInterface:
					return &verdict{"the alias is boxed into an interface", x}
				case ssa.CallInstruction:
					cc := x.Common()
					if b, ok := cc.Value.(*ssa.Builtin); ok {
						switch b.Name() {
						case "copy":
							if cc.Args[0] == v {
								return &verdict{"the alias is the destination of copy", x}
							}
						case "append":
							if cc.Args[0] == v {
								return &verdict{"append extends the alias in place when capacity allows", x}
							}
						}
						continue
					}
					callee := cc.StaticCallee()
					if callee == nil || callee.Blocks == nil || callee.Pkg == nil || !isModulePkg(callee.Pkg.Pkg) {
						if callee != nil && callee.Pkg != nil && !isModulePkg(callee.Pkg.Pkg) {
							continue // library readers (strings, unicode, utf8 ...) take strings or read-only slices
						}
						return &verdict{"the alias is passed to a call that cannot be resolved", x}
					}
					if depth >= 3 {
						return &verdict{"the alias is passed on more than three calls deep", x}
					}
					var ps []ssa.Value
					for i, a := range cc.Args {
						if a == v && i < len(callee.Params) {
							ps = append(ps, callee.Params[i])
						}
					}
					if vd := judge(callee, ps, depth+1); vd != nil {
						return &verdict{"passed to " + relName(callee) + ", where " + vd.bad, x}
					}
				}
			}
		}
		return nil
	}
	n := 0
	for _, fn := range l.AllFuncs() {
		if fn == toRunes || fn.Pkg == nil || !isModulePkg(fn.Pkg.Pkg) {
			continue
		}
		eachInstr(fn, func(in ssa.Instruction) {
			call, ok := in.(*ssa.Call)
			if !ok || !callIs(call.Common(), toRunes) {
				return
			}
			n++
			key := fmt.Sprintf("%s:ToRunes result #%d is only read", relName(fn), n)
			if vd := judge(fn, []ssa.Value{call}, 0); vd != nil {
				r.bad(key, call.Pos(), fn, "the item's runes are only read", vd.bad+" at "+l.pos(vd.at.Pos()))
			} else {
				r.ok(key, call.Pos(), fn, "the result of ToRunes is read, copied from or converted, nothing else")
			}
		})
	}
	r.floor("call sites of Chars.ToRunes", n, 4)
	_ = types.Typ
}
