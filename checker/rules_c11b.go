package main

import (
	"fmt"
	"go/token"
	"go/types"
	"regexp/syntax"
	"sort"
	"strings"

	"golang.org/x/tools/go/ssa"
)

// ---------------------------------------------------------------------------
// Byte-class folding: for a byte read `c = s[k]` in a scanner function, the
// partition of the 256 byte values by where control goes next, computed by
// constant folding of the SSA with c (and every structurally identical read)
// bound to each value in turn.  Nothing else is bound: the first branch whose
// condition does not fold ends the walk and names the class.
// ---------------------------------------------------------------------------

type foldOutcome struct {
	kind  string // "ret" | "cond" | "loop"
	block int
	known bool
	val   int64
}

func (o foldOutcome) label() string {
	if o.kind == "ret" && o.known {
		return fmt.Sprintf("ret@%d=%d", o.block, o.val)
	}
	return fmt.Sprintf("%s@%d", o.kind, o.block)
}

func normInt(t types.Type, v int64) int64 {
	bt, ok := t.Underlying().(*types.Basic)
	if !ok {
		return v
	}
	switch bt.Kind() {
	case types.Uint8:
		return int64(uint8(v))
	case types.Int8:
		return int64(int8(v))
	case types.Uint16:
		return int64(uint16(v))
	case types.Int16:
		return int64(int16(v))
	case types.Uint32:
		return int64(uint32(v))
	case types.Int32:
		return int64(int32(v))
	}
	return v
}

// foldCapture, when non-nil, receives the bindings at the point where a top-level fold stops.
var foldCapture func(env map[ssa.Value]int64)

func foldFrom(fn *ssa.Function, b *ssa.BasicBlock, idx int, env map[ssa.Value]int64, depth int) (out foldOutcome) {
	if depth == 0 && foldCapture != nil {
		defer func() { foldCapture(env) }()
	}
	get := func(v ssa.Value) (int64, bool) {
		if k, ok := env[v]; ok {
			return k, true
		}
		if c, ok := v.(*ssa.Const); ok {
			if k, isc := constIntVal(c); isc {
				return k, true
			}
			if c.Value != nil && c.Value.Kind().String() == "Bool" {
				if c.Value.String() == "true" {
					return 1, true
				}
				return 0, true
			}
		}
		return 0, false
	}
	b2i := func(x bool) int64 {
		if x {
			return 1
		}
		return 0
	}
	var prev *ssa.BasicBlock
	seen := map[*ssa.BasicBlock]bool{}
	for steps := 0; steps < 400; steps++ {
		if idx == 0 {
			if seen[b] {
				return foldOutcome{kind: "loop", block: b.Index}
			}
			seen[b] = true
		}
		var next *ssa.BasicBlock
		for _, in := range b.Instrs[idx:] {
			switch x := in.(type) {
			case *ssa.Phi:
				if prev != nil {
					for i, p := range b.Preds {
						if p == prev {
							if k, ok := get(x.Edges[i]); ok {
								env[x] = k
							} else {
								delete(env, x)
							}
						}
					}
				}
			case *ssa.BinOp:
				l, ok1 := get(x.X)
				r, ok2 := get(x.Y)
				if !ok1 || !ok2 {
					continue
				}
				var v int64
				switch x.Op {
				case token.ADD:
					v = l + r
				case token.SUB:
					v = l - r
				case token.MUL:
					v = l * r
				case token.AND:
					v = l & r
				case token.OR:
					v = l | r
				case token.XOR:
					v = l ^ r
				case token.AND_NOT:
					v = l &^ r
				case token.SHL:
					v = l << uint(r)
				case token.SHR:
					v = l >> uint(r)
				case token.EQL:
					v = b2i(l == r)
				case token.NEQ:
					v = b2i(l != r)
				case token.LSS:
					v = b2i(l < r)
				case token.LEQ:
					v = b2i(l <= r)
				case token.GTR:
					v = b2i(l > r)
				case token.GEQ:
					v = b2i(l >= r)
				default:
					continue
				}
				env[x] = normInt(x.Type(), v)
			case *ssa.UnOp:
				if k, ok := get(x.X); ok {
					switch x.Op {
					case token.NOT:
						env[x] = 1 - k
					case token.SUB:
						env[x] = normInt(x.Type(), -k)
					}
				}
			case *ssa.Convert:
				if k, ok := get(x.X); ok {
					env[x] = normInt(x.Type(), k)
				}
			case *ssa.ChangeType:
				if k, ok := get(x.X); ok {
					env[x] = k
				}
			case *ssa.Call:
				callee := x.Common().StaticCallee()
				if callee == nil || callee.Blocks == nil || depth >= 3 || callee.Pkg != fn.Pkg || len(callee.Params) != len(x.Call.Args) {
					continue
				}
				sub := map[ssa.Value]int64{}
				all := true
				for i, a := range x.Call.Args {
					if k, ok := get(a); ok {
						sub[callee.Params[i]] = k
					} else {
						all = false
					}
				}
				if !all {
					continue
				}
				if o := foldFrom(callee, callee.Blocks[0], 0, sub, depth+1); o.kind == "ret" && o.known {
					env[x] = o.val
				}
			case *ssa.If:
				k, ok := get(x.Cond)
				if !ok {
					return foldOutcome{kind: "cond", block: b.Index}
				}
				if k != 0 {
					next = b.Succs[0]
				} else {
					next = b.Succs[1]
				}
			case *ssa.Jump:
				next = b.Succs[0]
			case *ssa.Return:
				o := foldOutcome{kind: "ret", block: b.Index}
				if len(x.Results) > 0 {
					if k, ok := get(x.Results[0]); ok {
						o.known, o.val = true, k
					}
				}
				return o
			case *ssa.Panic:
				return foldOutcome{kind: "panic", block: b.Index}
			}
		}
		if next == nil {
			return foldOutcome{kind: "end", block: b.Index}
		}
		if next.Dominates(b) {
			// back edge: values of the previous iteration are stale
			for k := range env {
				delete(env, k)
			}
		}
		prev, b, idx = b, next, 0
	}
	return foldOutcome{kind: "loop", block: b.Index}
}

type byteSet [256]bool

func (s byteSet) String() string {
	var parts []string
	for i := 0; i < 256; {
		if !s[i] {
			i++
			continue
		}
		j := i
		for j+1 < 256 && s[j+1] {
			j++
		}
		if i == j {
			parts = append(parts, fmt.Sprintf("%02x", i))
		} else {
			parts = append(parts, fmt.Sprintf("%02x-%02x", i, j))
		}
		i = j + 1
	}
	return "{" + strings.Join(parts, ",") + "}"
}

func setOf(bs ...int) byteSet {
	var s byteSet
	for _, b := range bs {
		s[b] = true
	}
	return s
}

func (s byteSet) union(t byteSet) byteSet {
	for i := range s {
		s[i] = s[i] || t[i]
	}
	return s
}

func (s byteSet) subsetOf(t byteSet) bool {
	for i := range s {
		if s[i] && !t[i] {
			return false
		}
	}
	return true
}

func (s byteSet) empty() bool { return s == byteSet{} }

// sameExpr: structural equality of two pure index expressions.
func sameExpr(a, b ssa.Value, d int) bool {
	if a == b {
		return true
	}
	if d > 4 {
		return false
	}
	switch x := a.(type) {
	case *ssa.Const:
		y, ok := b.(*ssa.Const)
		if !ok {
			return false
		}
		k1, ok1 := constIntVal(x)
		k2, ok2 := constIntVal(y)
		return ok1 && ok2 && k1 == k2
	case *ssa.BinOp:
		y, ok := b.(*ssa.BinOp)
		return ok && x.Op == y.Op && sameExpr(x.X, y.X, d+1) && sameExpr(x.Y, y.Y, d+1)
	}
	return false
}

type byteSite struct {
	fn      *ssa.Function
	at      *ssa.Index
	classes map[string]byteSet
	out     map[string]foldOutcome
}

// byteSites folds every byte read of a string in fn.
func byteSites(fn *ssa.Function) []*byteSite {
	var looks []*ssa.Index
	eachInstr(fn, func(in ssa.Instruction) {
		if lk, ok := in.(*ssa.Index); ok {
			if bt, ok := lk.Type().Underlying().(*types.Basic); ok && bt.Kind() == types.Uint8 {
				looks = append(looks, lk)
			}
		}
	})
	var sites []*byteSite
	for _, lk := range looks {
		// every structurally identical read of the same string is the same byte
		// (strings are immutable, SSA values are not reassigned); the binding is
		// dropped when the walk takes a back edge
		var eq []*ssa.Index
		for _, o := range looks {
			if o.X == lk.X && sameExpr(o.Index, lk.Index, 0) {
				eq = append(eq, o)
			}
		}
		// start right after the read
		idx := 0
		for i, in := range lk.Block().Instrs {
			if in == ssa.Instruction(lk) {
				idx = i + 1
			}
		}
		st := &byteSite{fn: fn, at: lk, classes: map[string]byteSet{}, out: map[string]foldOutcome{}}
		for bv := 0; bv < 256; bv++ {
			env := map[ssa.Value]int64{}
			for _, o := range eq {
				env[o] = int64(bv)
			}
			o := foldFrom(fn, lk.Block(), idx, env, 0)
			cs := st.classes[o.label()]
			cs[bv] = true
			st.classes[o.label()] = cs
			st.out[o.label()] = o
		}
		sites = append(sites, st)
	}
	return sites
}

func (s *byteSite) hasClass(want byteSet) bool {
	for _, c := range s.classes {
		if c == want {
			return true
		}
	}
	return false
}

// continueSet: bytes after which control returns to a loop header dominating the read.
func (s *byteSite) continueSet() byteSet {
	var r byteSet
	for lb, c := range s.classes {
		o := s.out[lb]
		if (o.kind == "cond" || o.kind == "loop") && s.fn.Blocks[o.block] != s.at.Block() && s.fn.Blocks[o.block].Dominates(s.at.Block()) {
			r = r.union(c)
		}
	}
	return r
}

func (s *byteSite) describe() string {
	var ls []string
	for lb, c := range s.classes {
		ls = append(ls, lb+":"+c.String())
	}
	sort.Strings(ls)
	return strings.Join(ls, " ")
}

// predicateSet folds a func(uint8) bool over its 256 inputs.
func predicateSet(fn *ssa.Function) (byteSet, bool) {
	var s byteSet
	if fn == nil || len(fn.Params) != 1 || fn.Blocks == nil {
		return s, false
	}
	for bv := 0; bv < 256; bv++ {
		o := foldFrom(fn, fn.Blocks[0], 0, map[ssa.Value]int64{fn.Params[0]: int64(bv)}, 0)
		if o.kind != "ret" || !o.known {
			return s, false
		}
		s[bv] = o.val != 0
	}
	return s, true
}

// ---------------------------------------------------------------------------
// The documented regular expression, one alternative per entry.
// ---------------------------------------------------------------------------

var ansiRegexAlts = []string{
	`\x1b[\[()][0-9;:?]*[a-zA-Z@]`, // the comment gives it as a Go interpreted string: "\x1b[\\[()]..." - the backslash escapes '[', it is not a member
	`\x1b][0-9]+[;:][[:print:]]+(?:\x1b\\|\x07)`,
	`\x1b.`,
	`[\x0e\x0f]`,
	`.\x08`,
}

func ccSets(re *syntax.Regexp, out *[]byteSet) {
	switch re.Op {
	case syntax.OpCharClass:
		var s byteSet
		for i := 0; i+1 < len(re.Rune); i += 2 {
			for c := re.Rune[i]; c <= re.Rune[i+1] && c < 256; c++ {
				s[c] = true
			}
		}
		*out = append(*out, s)
	case syntax.OpAnyCharNotNL:
		var s byteSet
		for i := range s {
			s[i] = i != '\n'
		}
		*out = append(*out, s)
	}
	for _, sub := range re.Sub {
		ccSets(sub, out)
	}
}

func c11scanner(c *Ctx, r *Report) {
	l := c.L
	r.rule("C11-R6", "E (byte-class tables of the scanner vs the documented regular expression; classes by constant folding of the SSA over the 256 byte values)", "P1",
		"the byte classes the hand-written scanner branches on are those of the documented regular expression: CSI introducers [[()], parameters [0-9;:?] (continue), finals [a-zA-Z@] (accept), everything else rejects; OSC digits, separators [;:], printable range, terminators BEL and ESC backslash; `.` excludes exactly the newline; the main loop handles exactly 08 0e 0f 1b and every pre-filter loop lets all of them through",
		"a class of sequences is no longer stripped (stays in the text and is matched/printed) or ordinary text is swallowed")
	var spec [][]byteSet
	for _, alt := range ansiRegexAlts {
		re, err := syntax.Parse(alt, syntax.Perl)
		if err != nil {
			r.unest("spec:"+alt, token.NoPos, nil, "documented regex parses", err.Error())
			return
		}
		var sets []byteSet
		ccSets(re, &sets)
		spec = append(spec, sets)
	}
	introducers, params, finals := spec[0][0], spec[0][1], spec[0][2]
	digits, seps, printable := spec[1][0], spec[1][1], spec[1][2]
	notNL := spec[2][0]
	shifts := spec[3][0]
	var nl byteSet
	for i := range nl {
		nl[i] = !notNL[i]
	}
	next := l.Fn("fzf", "nextAnsiEscapeSequence")
	mcs := l.Fn("fzf", "matchControlSequence")
	osc := l.Fn("fzf", "matchOperatingSystemCommand")
	if next == nil || mcs == nil || osc == nil {
		r.unest("anchors", token.NoPos, nil, "anchors nextAnsiEscapeSequence / matchControlSequence / matchOperatingSystemCommand", "cannot resolve")
		return
	}
	// CSI introducer: the predicate called from the scanner on the byte after ESC
	pred := func(name string, want byteSet, what string) {
		fn := l.Fn("fzf", name)
		got, ok := predicateSet(fn)
		if !ok {
			r.unest("fzf."+name+":fold", token.NoPos, fn, what, "predicate does not fold to a constant for every byte")
			return
		}
		r.check(got == want, "fzf."+name+":class", fn.Pos(), fn, fmt.Sprintf("%s = %s", what, want), fmt.Sprintf("accepts %s, documented class is %s", got, want))
	}
	pred("isCtrlSeqStart", introducers, "CSI introducer class")
	pred("isPrint", printable, "[[:print:]]")
	pred("isNumeric", digits, "[0-9]")

	// matchControlSequence
	ms := byteSites(mcs)
	okM := false
	for _, s := range ms {
		cont := s.continueSet()
		if cont.empty() {
			continue
		}
		okM = true
		var acc, rej byteSet
		for lb, cs := range s.classes {
			o := s.out[lb]
			if o.kind == "ret" && o.known && o.val == -1 {
				rej = rej.union(cs)
			} else if o.kind == "ret" {
				acc = acc.union(cs)
			}
		}
		r.check(cont == params, "fzf.matchControlSequence:parameter bytes", s.at.Pos(), mcs, "parameter bytes (scan continues) = "+params.String(), "continues on "+cont.String())
		r.check(acc == finals, "fzf.matchControlSequence:final bytes", s.at.Pos(), mcs, "final bytes (sequence ends) = "+finals.String(), "accepts "+acc.String())
		var all byteSet
		all = all.union(cont).union(acc).union(rej)
		full := true
		for i := range all {
			full = full && all[i]
		}
		r.check(full, "fzf.matchControlSequence:other bytes reject", s.at.Pos(), mcs, "every other byte rejects (-1)", "some byte neither continues, accepts nor rejects: "+s.describe())
	}
	if !okM {
		r.unest("fzf.matchControlSequence:dispatch", mcs.Pos(), mcs, "byte dispatch in the parameter loop", "no byte read with a continue class found")
	}

	// nextAnsiEscapeSequence: loops
	ns := byteSites(next)
	var loops []*byteSite
	for _, s := range ns {
		if !s.continueSet().empty() {
			if _, isPhi := s.at.Index.(*ssa.Phi); isPhi {
				loops = append(loops, s)
			}
		}
	}
	sort.Slice(loops, func(i, j int) bool { return loops[i].at.Pos() < loops[j].at.Pos() })
	if len(loops) == 0 {
		r.unest("fzf.nextAnsiEscapeSequence:dispatch", next.Pos(), next, "main dispatch loop", "not found")
		return
	}
	main := loops[len(loops)-1]
	var handled byteSet
	cont := main.continueSet()
	for i := range handled {
		handled[i] = !cont[i]
	}
	wantHandled := shifts.union(setOf(0x1b, 0x08))
	r.check(handled == wantHandled, "fzf.nextAnsiEscapeSequence:handled bytes", main.at.Pos(), next, "the main loop handles exactly "+wantHandled.String(), "handles "+handled.String())
	// SI/SO return immediately
	var direct byteSet
	for lb, cs := range main.classes {
		if main.out[lb].kind == "ret" {
			direct = direct.union(cs)
		}
	}
	r.check(direct == shifts, "fzf.nextAnsiEscapeSequence:shift in/out", main.at.Pos(), next, "0e/0f are one-byte sequences", "bytes returning at once: "+direct.String())
	for i, pf := range loops[:len(loops)-1] {
		pc := pf.continueSet()
		var leave byteSet
		for j := range leave {
			leave[j] = !pc[j]
		}
		r.check(wantHandled.subsetOf(leave), fmt.Sprintf("fzf.nextAnsiEscapeSequence:pre-filter %d", i), pf.at.Pos(), next, "the fast pre-filter stops at every byte the main loop handles", "pre-filter skips over "+wantHandled.String()+" \\ "+leave.String())
	}
	// single-class sites
	need := func(sites []*byteSite, fn *ssa.Function, want byteSet, n int, what string) {
		cnt := 0
		var at token.Pos = fn.Pos()
		for _, s := range sites {
			if s.hasClass(want) {
				cnt++
				at = s.at.Pos()
			}
		}
		r.check(cnt >= n, fmt.Sprintf("%s:%s", shortFn(fn), what), at, fn, fmt.Sprintf("%s: %d byte test(s) separating exactly %s", what, cnt, want), fmt.Sprintf("%d byte test(s) separate exactly %s, %d expected", cnt, want, n))
	}
	need(ns, next, nl, 2, "`.` excludes only the newline")
	need(ns, next, setOf(']'), 1, "OSC introducer")
	need(ns, next, seps, 1, "OSC separator")
	need(ns, next, digits, 1, "OSC number")
	need(ns, next, printable, 1, "OSC first printable")
	os := byteSites(osc)
	need(os, osc, printable, 1, "OSC printable run")
	need(os, osc, setOf(0x07), 1, "OSC terminator BEL")
	need(os, osc, setOf(0x1b), 1, "OSC terminator ESC")
	need(os, osc, setOf('\\'), 1, "OSC terminator backslash")
	r.note(fmt.Sprintf("byte reads folded: %d in nextAnsiEscapeSequence, %d in matchControlSequence, %d in matchOperatingSystemCommand", len(ns), len(ms), len(os)))
}

func shortFn(fn *ssa.Function) string {
	if fn == nil {
		return "?"
	}
	return "fzf." + fn.Name()
}

func debugByteSites(l *Loaded, name string) {
	fn := l.Fn("fzf", name)
	for _, s := range byteSites(fn) {
		fmt.Printf("%s %s: %s cont=%s\n", name, l.pos(s.at.Pos()), s.describe(), s.continueSet())
	}
}
