package main

import (
	"fmt"
	"go/ast"
	"go/token"
	"go/types"
	"regexp/syntax"
	"sort"
	"strconv"
	"strings"
	"unicode"

	"golang.org/x/tools/go/ssa"
)

// Round 8: rules written for the round-8 mutants that arrived undetected.

func isPtrToNamed(t types.Type, n *types.Named) bool {
	pt, ok := t.(*types.Pointer)
	if !ok || n == nil {
		return false
	}
	nn, ok := pt.Elem().(*types.Named)
	return ok && nn.Obj() == n.Obj()
}

// c05r14: the scratch slab is the memory FuzzyMatchV2 keeps the rune copy of the line and its score matrices
// in; it belongs to ONE match at a time. The matcher's workers get theirs as a parameter of the goroutine; a
// slab that a closure takes from its enclosing function is shared by every caller of that closure, and the
// reader's pusher is called from all walker goroutines at once (round-8 mutant C02c8 narrowed the streaming
// filter's mutex to the item builder and the printing "because the item itself is private": two matches ran
// in one slab, lines containing the query were dropped and FuzzyMatchV2 panicked).
func c05r14(c *Ctx, r *Report) {
	l := c.L
	r.rule("C05-R14", "A (lock held wherever a captured slab is handed on)", "P1",
		"a *util.Slab that a closure captures from its enclosing function is passed to a callee only while a mutex is held (slabs that are parameters of the function using them are that goroutine's own)",
		"two walker goroutines match in the same scratch memory: a line is compared with another line's characters — wrong match decisions and index-out-of-range panics in FuzzyMatchV2")
	slab := l.Named("util", "Slab")
	if slab == nil {
		r.unest("anchors", token.NoPos, nil, "anchor util.Slab", "cannot resolve")
		return
	}
	la := analyseLocks(l, map[string]bool{"Terminal": true})
	n := 0
	for _, fn := range l.AllFuncs() {
		if fn.Blocks == nil || fn.Parent() == nil || fn.Pkg == nil || !isModulePkg(fn.Pkg.Pkg) {
			continue
		}
		k := 0
		eachInstr(fn, func(in ssa.Instruction) {
			ci, ok := in.(ssa.CallInstruction)
			if !ok {
				return
			}
			for _, a := range ci.Common().Args {
				if !isPtrToNamed(a.Type(), slab) {
					continue
				}
				root := stripConv(a)
				if u, ok := root.(*ssa.UnOp); ok && u.Op == token.MUL {
					root = u.X
				}
				if _, captured := root.(*ssa.FreeVar); !captured {
					continue
				}
				n++
				k++
				held := []string{}
				for key, v := range la.sets[fn][in] {
					if v && !strings.HasSuffix(key, "#R") {
						held = append(held, key)
					}
				}
				sort.Strings(held)
				_, isGo := in.(*ssa.Go)
				r.check(len(held) > 0 && !isGo, fmt.Sprintf("%s:use #%d of a captured slab", relName(fn), k), in.Pos(), fn,
					"the captured slab is handed to "+calleeName(ci.Common())+" under "+strings.Join(held, ","),
					"a slab shared by every caller of this closure is used with no lock held: concurrent pushers match in the same scratch memory")
			}
		})
	}
	r.floor("uses of a captured slab", n, 1)
}

// c05r15: the capacity of a slab decides whether FuzzyMatchV2 runs or falls back to V1 (N*M against
// cap(slab.I16)), and the two algorithms do not give the same range and score. All slabs are created with the
// same sizes, so the decision is a function of the line and the query; it stays one only as long as nobody
// replaces a slab's arrays afterwards (round-8 mutant C05a8 let alloc16 grow the slab "instead of allocating a
// throw-away slice": the worker that had seen a long line scored the next long line with V2, the others with V1).
func c05r15(c *Ctx, r *Report) {
	l := c.L
	r.rule("C05-R15", "B (who may write: the arrays of a slab)", "P1",
		"the fields of util.Slab are stored only by util.MakeSlab",
		"a slab that has grown on one worker sends a long line to FuzzyMatchV2 there and to V1 on the other workers: score and range depend on which worker got the line and on what it processed before")
	slab := l.Named("util", "Slab")
	mk := l.Fn("util", "MakeSlab")
	if slab == nil || mk == nil {
		r.unest("anchors", token.NoPos, nil, "anchors util.Slab / util.MakeSlab", "cannot resolve")
		return
	}
	n, inMk := 0, 0
	for _, fn := range l.AllFuncs() {
		if fn.Blocks == nil || fn.Pkg == nil || !isModulePkg(fn.Pkg.Pkg) {
			continue
		}
		k := 0
		eachInstr(fn, func(in ssa.Instruction) {
			st, ok := in.(*ssa.Store)
			if !ok {
				return
			}
			fa, ok := st.Addr.(*ssa.FieldAddr)
			if !ok || !isPtrToNamed(fa.X.Type(), slab) {
				return
			}
			n++
			if rootFn(fn) == mk {
				inMk++
				return
			}
			k++
			r.bad(fmt.Sprintf("%s:store #%d into a field of the slab", relName(fn), k), st.Pos(), fn, "only MakeSlab sets the arrays of a slab", "the slab's array is replaced after construction: its capacity, and with it the choice between the two fuzzy algorithms, now depends on what this worker processed before")
		})
	}
	r.ok(relName(mk)+":only MakeSlab stores the fields of a slab", mk.Pos(), mk, fmt.Sprintf("%d stores into util.Slab fields, %d of them in MakeSlab", n, inMk))
	r.floor("stores into util.Slab fields in MakeSlab", inMk, 2)
}

// c05r16: everything below Pattern.MatchItem runs on all matcher workers at once and has to be a function of
// its arguments. A package-level variable written there is state shared by the workers (round-8 mutant C03a8
// remembered "the class of the last non-ASCII character" in two globals: a worker read the character one
// worker had stored together with the class another one had stored, and the bonus of a CJK or accented
// character — hence the score and the order — depended on scheduling).
func c05r16(c *Ctx, r *Report) {
	l := c.L
	r.rule("C05-R16", "B (no writer of package-level state on the workers' path)", "P1",
		"no function reachable from Pattern.MatchItem (static calls and the calls the VTA call graph resolves for the matcher function values) stores into a package-level variable (or into memory reached through one)",
		"workers race on a package-level variable: the score of a line depends on what the other workers were matching at that moment")
	mi := l.Fn("fzf", "(*Pattern).MatchItem")
	if mi == nil {
		r.unest("anchors", token.NoPos, nil, "anchor Pattern.MatchItem", "cannot resolve")
		return
	}
	// the matcher functions are called through a function value (Pattern.procFun / fuzzyAlgo): resolved calls of the VTA graph
	cg := l.CallGraph()
	reach := map[*ssa.Function]bool{}
	var walk func(f *ssa.Function)
	walk = func(f *ssa.Function) {
		if f == nil || reach[f] || f.Blocks == nil || f.Pkg == nil || !isModulePkg(f.Pkg.Pkg) {
			return
		}
		reach[f] = true
		if nd := cg.Nodes[f]; nd != nil {
			for _, e := range nd.Out {
				walk(e.Callee.Func)
			}
		}
		eachInstr(f, func(in ssa.Instruction) {
			walk(staticCallee(in))
			if mcl, ok := in.(*ssa.MakeClosure); ok {
				walk(mcl.Fn.(*ssa.Function))
			}
		})
	}
	walk(mi)
	var fns []*ssa.Function
	for f := range reach {
		fns = append(fns, f)
	}
	sort.Slice(fns, func(i, j int) bool { return relName(fns[i]) < relName(fns[j]) })
	n := 0
	for _, f := range fns {
		k := 0
		eachInstr(f, func(in ssa.Instruction) {
			var addr ssa.Value
			switch x := in.(type) {
			case *ssa.Store:
				addr = x.Addr
			case *ssa.MapUpdate:
				addr = x.Map
			default:
				return
			}
			n++
			root := addrRoot(addr)
			if u, ok := root.(*ssa.UnOp); ok && u.Op == token.MUL {
				root = addrRoot(u.X)
			}
			if g, ok := root.(*ssa.Global); ok {
				k++
				r.bad(fmt.Sprintf("%s:write #%d to package-level %s", relName(f), k, g.Name()), in.Pos(), f, "matching writes no package-level state", "a function every worker runs writes the package-level variable "+g.Name())
			}
		})
	}
	r.ok(relName(mi)+":no package-level state is written below MatchItem", mi.Pos(), mi, fmt.Sprintf("%d functions reachable from MatchItem, %d stores inspected, none into a package-level variable", len(fns), n))
	r.floor("functions reachable from Pattern.MatchItem (resolved calls)", len(fns), 20)
}

// c03r8: parseTerms decides per TERM whether it is matched case-sensitively (smart case looks at the term)
// and whether it is matched accent-insensitively (a term that itself contains an accented letter is not). The
// matcher call in extendedMatch therefore takes typ, caseSensitive, normalize and text from the one term it is
// matching (round-8 mutant C03b8 passed the pattern-wide p.normalize: the term `café` matched `cafe`).
func c03r8(c *Ctx, r *Report) {
	l := c.L
	r.rule("C03-R8", "D (provenance of the per-term arguments of the matcher call)", "P1",
		"in Pattern.extendedMatch, the matcher function is selected by term.typ and is called (through Pattern.iter) with caseSensitive, normalize and text read from the same term",
		"a term is matched with another term's (or the pattern-wide) folding: an accented term matches unaccented text, a capitalised term matches lower-case text")
	em := l.Fn("fzf", "(*Pattern).extendedMatch")
	iter := l.Fn("fzf", "(*Pattern).iter")
	term := l.Named("fzf", "term")
	if em == nil || iter == nil || term == nil {
		r.unest("anchors", token.NoPos, nil, "anchors Pattern.extendedMatch / Pattern.iter / term", "cannot resolve")
		return
	}
	// fieldOfTerm: v is field `name` of a term value or of *term; returns the term it is read from
	fieldOfTerm := func(v ssa.Value) (string, ssa.Value) {
		v = stripConv(v)
		if f, ok := v.(*ssa.Field); ok {
			if nn, ok := f.X.Type().(*types.Named); ok && nn.Obj() == term.Obj() {
				return nn.Underlying().(*types.Struct).Field(f.Field).Name(), f.X
			}
		}
		if fld, base := loadedField(v); fld != nil && base != nil {
			if nn, ok := deref(base.Type()).(*types.Named); ok && nn.Obj() == term.Obj() {
				return fld.Name(), base
			}
		}
		return "", nil
	}
	n := 0
	eachInstr(em, func(in ssa.Instruction) {
		call, ok := in.(*ssa.Call)
		if !ok || call.Common().StaticCallee() != iter {
			return
		}
		n++
		sig := iter.Signature
		args := call.Call.Args[1:] // receiver first
		var owner ssa.Value
		why := ""
		want := map[string]string{"caseSensitive": "caseSensitive", "normalize": "normalize", "pattern": "text"}
		for i := 0; i < sig.Params().Len() && i < len(args); i++ {
			pn := sig.Params().At(i).Name()
			if pn == "pfun" {
				// p.procFun[term.typ]
				key := ssa.Value(nil)
				if lk, ok := stripConv(args[i]).(*ssa.Lookup); ok {
					key = lk.Index
				} else if u, ok := stripConv(args[i]).(*ssa.UnOp); ok && u.Op == token.MUL {
					if ia, ok := u.X.(*ssa.IndexAddr); ok {
						key = ia.Index
					}
				}
				name, base := "", ssa.Value(nil)
				if key != nil {
					name, base = fieldOfTerm(key)
				}
				if name != "typ" {
					why = "the matcher function is not selected by the term's typ"
				} else if owner == nil {
					owner = base
				} else if owner != base {
					why = "the matcher function is selected by another term"
				}
				continue
			}
			fldWant, ok := want[pn]
			if !ok {
				continue
			}
			name, base := fieldOfTerm(args[i])
			if name != fldWant {
				why = fmt.Sprintf("argument %s is %s, not the term's %s", pn, describe(args[i]), fldWant)
			} else if owner == nil {
				owner = base
			} else if owner != base {
				why = fmt.Sprintf("argument %s is read from another term", pn)
			}
		}
		r.check(why == "", fmt.Sprintf("%s:matcher call #%d takes its per-term arguments from the term", relName(em), n), call.Pos(), em,
			"typ, caseSensitive, normalize and text come from one term", why)
	})
	r.floor("calls of Pattern.iter in extendedMatch", n, 1)
}

// c02r14: a boundary term ('word') matches where the bonus of the first character is at least bonusBoundary —
// that threshold is how exactMatchNaive recognises "the character before is a blank, a delimiter or another
// non-word character". The two scheme-dependent boundary bonuses therefore never go below bonusBoundary, and
// (comment at maxPatternLengthV2) never above bonusBoundary+2, which is what the int16 score bound of V2 is
// computed from (round-8 mutant C02a8: --scheme=path got bonusBoundaryWhite = bonusBoundary-1 "because blanks
// are rare in paths"; 'word' no longer matched after a blank).
func c02r14(c *Ctx, r *Report) {
	l := c.L
	r.rule("C02-R14", "D (constant range of the scheme-dependent boundary bonuses)", "P1",
		"every value stored into algo.bonusBoundaryWhite and algo.bonusBoundaryDelimiter is a constant in [bonusBoundary, bonusBoundary+2]",
		"below the threshold a boundary term no longer matches at a blank or delimiter although a witness exists; above bonusBoundary+2 the int16 score of FuzzyMatchV2 can overflow for patterns within maxPatternLengthV2")
	bb := l.Const("algo", "bonusBoundary")
	gw, gd := l.Global("algo", "bonusBoundaryWhite"), l.Global("algo", "bonusBoundaryDelimiter")
	if bb == nil || gw == nil || gd == nil {
		r.unest("anchors", token.NoPos, nil, "anchors algo.bonusBoundary / bonusBoundaryWhite / bonusBoundaryDelimiter", "cannot resolve")
		return
	}
	lo, _ := constInt(bb)
	n := 0
	for _, fn := range l.AllFuncs() {
		if fn.Blocks == nil || fn.Pkg != l.pkg("algo") {
			continue
		}
		k := 0
		eachInstr(fn, func(in ssa.Instruction) {
			st, ok := in.(*ssa.Store)
			if !ok || (st.Addr != ssa.Value(gw) && st.Addr != ssa.Value(gd)) {
				return
			}
			n++
			k++
			v, isK := constIntVal(st.Val)
			r.check(isK && v >= lo && v <= lo+2, fmt.Sprintf("%s:store #%d of a boundary bonus", relName(fn), k), st.Pos(), fn,
				fmt.Sprintf("%s = %d, within [%d, %d]", st.Addr.Name(), v, lo, lo+2),
				fmt.Sprintf("%s is set to %s, outside [%d, %d]: the boundary test `bonus >= bonusBoundary` or the int16 bound of V2 no longer holds", st.Addr.Name(), describe(st.Val), lo, lo+2))
		})
	}
	r.floor("stores into the scheme-dependent boundary bonuses", n, 6)
}

// c02r15: the ASCII fast path of the case fold handles 'A'..'Z' by arithmetic and leaves everything ELSE that
// may have a lower-case mapping to the unicode tables. "Everything else" starts right after ASCII: the
// Latin-1 capitals À..Þ are below 256 (round-8 mutant C02b8 "inlined unicode.ToLower as in the other matchers"
// with `char > unicode.MaxLatin1`: prefix terms no longer matched Ä, Ö, É case-insensitively).
func c02r15(c *Ctx, r *Report) {
	l := c.L
	r.rule("C02-R15", "A (range guard of the non-ASCII case fold)", "P1",
		"in package algo, wherever unicode.To / unicode.ToLower is applied to a character of the line under a lower-bound test of that character against a constant, the bound admits every character above unicode.MaxASCII",
		"capitals between U+0080 and the bound (À..Þ) are compared unfolded: a case-insensitive term does not match them although a witness exists")
	n, guarded := 0, 0
	for _, fn := range l.AllFuncs() {
		if fn.Pkg != l.pkg("algo") || fn.Blocks == nil {
			continue
		}
		isText := algoTextChar(l, fn)
		var sites []*ssa.Call
		eachInstr(fn, func(in ssa.Instruction) {
			call, ok := in.(*ssa.Call)
			if !ok {
				return
			}
			switch calleeName(call.Common()) {
			case "unicode.To", "unicode.ToLower":
				if isText(call.Call.Args[len(call.Call.Args)-1]) {
					sites = append(sites, call)
				}
			}
		})
		if len(sites) == 0 {
			continue
		}
		pc := pathConds(fn)
		for i, site := range sites {
			n++
			worst := int64(-1)
			for _, dj := range pc.At(site.Block()) {
				for _, lt := range dj {
					b, ok := lt.Atom.(*ssa.BinOp)
					if !ok {
						continue
					}
					x, y, op := b.X, b.Y, b.Op
					if _, isK := constIntVal(x); isK {
						x, y = y, x
						switch op {
						case token.LSS:
							op = token.GTR
						case token.LEQ:
							op = token.GEQ
						case token.GTR:
							op = token.LSS
						case token.GEQ:
							op = token.LEQ
						}
					}
					k, isK := constIntVal(y)
					if !isK || !isText(x) {
						continue
					}
					// smallest character admitted by this literal
					low := int64(-1)
					switch {
					case op == token.GTR && lt.Val:
						low = k + 1
					case op == token.GEQ && lt.Val:
						low = k
					case op == token.LEQ && !lt.Val:
						low = k + 1
					case op == token.LSS && !lt.Val:
						low = k
					}
					if low > worst {
						worst = low
					}
				}
			}
			if worst >= 0 {
				guarded++
			}
			r.check(worst <= 128, fmt.Sprintf("%s:non-ASCII lower-casing step #%d starts right after ASCII", relName(fn), i+1), site.Pos(), fn,
				"the fold is reached by every character above 127", fmt.Sprintf("the fold is only reached by characters from U+%04X on: the capitals between U+0080 and that bound are not folded", worst))
		}
	}
	r.floor("non-ASCII lower-casing steps applied to characters of the line", n, 8)
	r.floor("... of which behind a lower-bound test", guarded, 4)
}

// c01r11: "blank" is one class for all of fzf's trimming: unicode.IsSpace. The anchored matchers trim the
// line with Chars.LeadingWhitespaces / TrailingWhitespaces, the length tie-break uses Chars.TrimLength, the
// --with-nth builder cuts with TrimTrailingWhitespaces, and all of them have to agree for bytes and for runes
// (round-8 mutants C01b8 and C05c8 gave TrailingWhitespaces an "ASCII fast path" that knew blank and TAB, or
// " \t\r\n": `foo$` stopped matching `foo\f`, and the same line matched or not depending on whether it was
// held as bytes or as runes).
func c01r11(c *Ctx, r *Report) {
	l := c.L
	r.rule("C01-R11", "E (one blank class for every trimming primitive of util.Chars)", "P1",
		"Chars.LeadingWhitespaces, TrailingWhitespaces and TrimLength classify characters with unicode.IsSpace only: they call it, they compare no character of the text with a constant, and they pass the text to no other function that could classify it (a constant cut set is accepted only if it is exactly the ASCII part of unicode.IsSpace)",
		"a suffix/prefix/equal term (and the length tie-break) treats \\f, \\v, \\r, \\n or U+0085/U+00A0 as text on one representation of the line and as blank on the other")
	names := []string{"(*Chars).LeadingWhitespaces", "(*Chars).TrailingWhitespaces", "(*Chars).TrimLength"}
	get := l.Fn("util", "(*Chars).Get")
	fSlice := l.Field("util", "Chars", "slice")
	if get == nil || fSlice == nil {
		r.unest("anchors", token.NoPos, nil, "anchors Chars.Get / Chars.slice", "cannot resolve")
		return
	}
	asciiSpace := "\t\n\v\f\r "
	n := 0
	for _, name := range names {
		fn := l.Fn("util", name)
		if fn == nil {
			r.unest("anchors:"+name, token.NoPos, nil, "anchor util."+name, "cannot resolve")
			continue
		}
		n++
		// characters of the text: results of Get, elements of the slice field (or of optionalRunes' result)
		textData := func(v ssa.Value) bool {
			for w := range backwardSlice(v, func(*ssa.CallCommon) bool { return true }, nil) {
				if call, ok := w.(*ssa.Call); ok {
					if cal := call.Common().StaticCallee(); cal == get || (cal != nil && cal.Name() == "optionalRunes") {
						return true
					}
				}
				if fld, _ := loadedField(w); fld == fSlice {
					return true
				}
			}
			return false
		}
		usesIsSpace, why := false, ""
		consts := map[int64]bool{}
		eachInstr(fn, func(in ssa.Instruction) {
			switch x := in.(type) {
			case *ssa.Call:
				cn := calleeName(x.Common())
				if cn == "unicode.IsSpace" {
					usesIsSpace = true
					return
				}
				if cal := x.Common().StaticCallee(); cal != nil && cal.Pkg == fn.Pkg {
					return // Length, Get, optionalRunes, AsUint16
				}
				if b, ok := x.Common().Value.(*ssa.Builtin); ok && (b.Name() == "len" || b.Name() == "cap") {
					return
				}
				for _, a := range x.Common().Args {
					if textData(a) {
						// a library trimming function: its cut set has to be the ASCII blanks exactly
						set, isSet := "", false
						for _, a2 := range x.Common().Args {
							if s, ok := constString(a2); ok {
								set, isSet = s, true
							}
						}
						if !(isSet && sameCharSet(set, asciiSpace)) {
							why = fmt.Sprintf("the text is handed to %s (%s), which classifies blanks differently from unicode.IsSpace", cn, l.pos(x.Pos()))
						}
					}
				}
			case *ssa.BinOp:
				switch x.Op {
				case token.EQL, token.NEQ, token.LSS, token.LEQ, token.GTR, token.GEQ:
				default:
					return
				}
				for _, pr := range [][2]ssa.Value{{x.X, x.Y}, {x.Y, x.X}} {
					k, isK := constIntVal(pr[1])
					if !isK || !textData(pr[0]) {
						continue
					}
					// comparing a length or an index derived from the text is fine; a CHARACTER is byte- or rune-typed
					bt, ok := pr[0].Type().Underlying().(*types.Basic)
					if !ok || (bt.Kind() != types.Uint8 && bt.Kind() != types.Int32) {
						continue
					}
					if x.Op == token.EQL || x.Op == token.NEQ {
						consts[k] = true
					} else {
						why = fmt.Sprintf("a character of the text is range-compared with %d (%s)", k, l.pos(x.Pos()))
					}
				}
			}
		})
		if len(consts) > 0 {
			set := ""
			for k := range consts {
				set += string(rune(k))
			}
			if !sameCharSet(set, asciiSpace) {
				why = fmt.Sprintf("characters of the text are compared with the constants %q, which is not the ASCII part of unicode.IsSpace (%q)", sortedChars(set), asciiSpace)
			}
		}
		if why == "" && !usesIsSpace {
			why = "unicode.IsSpace is not called"
		}
		r.check(why == "", relName(fn)+":blanks are what unicode.IsSpace says", fn.Pos(), fn, "classifies with unicode.IsSpace only", why)
	}
	r.floor("trimming primitives of util.Chars", n, 3)
}

func sortedChars(s string) string {
	rs := []rune(s)
	sort.Slice(rs, func(i, j int) bool { return rs[i] < rs[j] })
	return string(rs)
}

func sameCharSet(a, b string) bool {
	m := map[rune]bool{}
	for _, c := range a {
		m[c] = true
	}
	k := map[rune]bool{}
	for _, c := range b {
		k[c] = true
		if !m[c] {
			return false
		}
	}
	return len(m) == len(k)
}

// nonZeroLit: the literal says that v is not zero (v compared with the constant 0).
func nonZeroLit(v ssa.Value) func(atom ssa.Value, val bool) bool {
	return func(atom ssa.Value, val bool) bool {
		b, ok := atom.(*ssa.BinOp)
		if !ok {
			return false
		}
		x, y, op := b.X, b.Y, b.Op
		if x != v && y == v {
			x, y = y, x
			switch op {
			case token.LSS:
				op = token.GTR
			case token.LEQ:
				op = token.GEQ
			case token.GTR:
				op = token.LSS
			case token.GEQ:
				op = token.LEQ
			}
		}
		if x != v {
			return false
		}
		k, isK := constIntVal(y)
		if !isK {
			return false
		}
		switch op {
		case token.EQL:
			return k == 0 && !val
		case token.NEQ:
			return k == 0 && val
		case token.GTR:
			return k >= 0 && val
		case token.GEQ:
			return k >= 1 && val
		case token.LEQ:
			return k >= 0 && !val
		case token.LSS:
			return k >= 1 && !val
		}
		return false
	}
}

// c14r17: a loop of the form `for n > 0 { ...; n -= d }` ends only if d is positive. Where d is not a
// constant it has to be shown non-zero where the loop is entered — or, when the loop sits in a closure and d
// is captured, where the closure is made (round-8 mutant C14b8 dropped the `length == 0 -> no printer` guard of
// the coloured branch of ansiLabelPrinter: a --gap-line of display width 0 with a colour in it made the
// fill loop spin forever with both terminal mutexes held; fzf could only be killed with SIGKILL).
func c14r17(c *Ctx, r *Report) {
	l := c.L
	r.rule("C14-R17", "A (a count-down loop's step is shown non-zero)", "P1",
		"in packages fzf, tui and util, every loop whose condition is `n > 0` and whose only way round is `n = n - d` with a non-constant d is entered only where d is known to be non-zero: by the path condition at the loop, or — for a d captured by the closure the loop is in — by the path condition where the closure is created",
		"the render loop spins forever with the terminal mutexes held: fzf no longer reacts to keys, requests or signals and leaves the terminal in raw mode")
	n := 0
	for _, fn := range l.AllFuncs() {
		if fn.Blocks == nil || fn.Pkg == nil || !(fn.Pkg == l.pkg("fzf") || fn.Pkg == l.pkg("tui") || fn.Pkg == l.pkg("util")) {
			continue
		}
		var pc *PathConds
		k := 0
		for _, lp := range natLoops(fn) {
			h := lp.hdr
			iff, ok := h.Instrs[len(h.Instrs)-1].(*ssa.If)
			if !ok {
				continue
			}
			atom, neg := normCond(iff.Cond)
			b, ok := atom.(*ssa.BinOp)
			if !ok || neg {
				continue
			}
			var phi *ssa.Phi
			if p, ok := b.X.(*ssa.Phi); ok && p.Block() == h && (b.Op == token.GTR && isConstInt(b.Y, 0) || b.Op == token.GEQ && isConstInt(b.Y, 1)) {
				phi = p
			} else if p, ok := b.Y.(*ssa.Phi); ok && p.Block() == h && (b.Op == token.LSS && isConstInt(b.X, 0) || b.Op == token.LEQ && isConstInt(b.X, 1)) {
				phi = p
			}
			if phi == nil || !lp.body[h.Succs[0]] {
				continue
			}
			// the values coming round the loop
			var steps []ssa.Value
			simple := true
			for i, e := range phi.Edges {
				if !lp.body[h.Preds[i]] {
					continue
				}
				sub, ok := e.(*ssa.BinOp)
				if !ok || sub.Op != token.SUB || sub.X != ssa.Value(phi) {
					simple = false
					break
				}
				steps = append(steps, sub.Y)
			}
			if !simple || len(steps) == 0 {
				continue
			}
			// another counter of the loop may end it: an exit whose condition depends on a different header phi
			other := false
			for bb := range lp.body {
				ei, ok := bb.Instrs[len(bb.Instrs)-1].(*ssa.If)
				if !ok || (lp.body[bb.Succs[0]] && lp.body[bb.Succs[1]]) {
					continue
				}
				for w := range backwardSlice(ei.Cond, func(*ssa.CallCommon) bool { return true }, nil) {
					if p2, ok := w.(*ssa.Phi); ok && p2.Block() == h && p2 != phi {
						other = true
					}
				}
			}
			if other {
				continue
			}
			for _, d := range steps {
				if _, isK := constIntVal(d); isK {
					continue
				}
				n++
				k++
				key := fmt.Sprintf("%s:count-down loop #%d steps by a non-zero amount", relName(fn), k)
				shown := ""
				if pc == nil {
					pc = pathConds(fn)
				}
				// (a) known at the loop
				if in, ok := d.(ssa.Instruction); !ok || !lp.body[in.Block()] {
					if holds, reach := pc.Implies(h, func(lits []Lit) bool { return hasLit(lits, nonZeroLit(d)) }); holds && reach {
						shown = "the path condition at the loop excludes 0"
					}
				}
				// (b) captured: known where the closure is made
				if shown == "" {
					root := d
					if u, ok := root.(*ssa.UnOp); ok && u.Op == token.MUL {
						root = u.X
					}
					if fv, ok := root.(*ssa.FreeVar); ok && fn.Parent() != nil {
						par := fn.Parent()
						ppc := pathConds(par)
						all, any := true, false
						eachInstr(par, func(in ssa.Instruction) {
							mc, ok := in.(*ssa.MakeClosure)
							if !ok || mc.Fn != ssa.Value(fn) {
								return
							}
							any = true
							var bound ssa.Value
							for i, f := range fn.FreeVars {
								if f == fv && i < len(mc.Bindings) {
									bound = mc.Bindings[i]
								}
							}
							if bound == nil {
								all = false
								return
							}
							cands := []ssa.Value{bound}
							if al, ok := bound.(*ssa.Alloc); ok {
								// a cell: the value it holds when the closure is made, if it is stored once
								sts := storesToAlloc(al)
								if len(sts) != 1 {
									all = false
									return
								}
								cands = []ssa.Value{sts[0].Val}
								for _, ld := range loadsOfCell(al) {
									if ld.Parent() == par {
										cands = append(cands, ld)
									}
								}
							}
							holds, reach := ppc.Implies(mc.Block(), func(lits []Lit) bool {
								for _, cv := range cands {
									if hasLit(lits, nonZeroLit(cv)) {
										return true
									}
								}
								return false
							})
							if !(holds && reach) {
								all = false
							}
						})
						if any && all {
							shown = "the closure is only created where the captured step is not 0"
						}
					}
				}
				r.check(shown != "", key, h.Instrs[len(h.Instrs)-1].Pos(), fn, "step "+describe(d)+": "+shown,
					"nothing shows that the step "+describe(d)+" is non-zero: with a step of 0 the loop never ends")
			}
		}
	}
	r.floor("count-down loops with a non-constant step", n, 1)
}

// c12r12: an item whose displayed text is NOT the input record (--with-nth) keeps the record in origText:
// that is what is printed on accept, what {} expands to, and what --accept-nth splits. The builder therefore
// stores origText on every path on which it accepts the record (round-8 mutant C12b8 stored it "only if
// --with-nth has changed the line"; when the transformed text equalled the record the trailing blanks that
// TrimTrailingWhitespaces removes, and the colour codes that --ansi strips, were lost in the output).
func c12r12(c *Ctx, r *Report) {
	l := c.L
	r.rule("C12-R12", "A (must-pass-through: origText is set before an accepted return)", "P1",
		"in every item builder of Run that does not hand its `data` parameter itself to the text processor, every path from the entry to `return true` passes a store into Item.origText",
		"the printed line / the {} placeholder of such an item is the trimmed, colour-stripped display text instead of the input record")
	_, _, builders := builderCells(l)
	fOrig := l.Field("fzf", "Item", "origText")
	if fOrig == nil || len(builders) == 0 {
		r.unest("anchors", token.NoPos, nil, "anchors Item.origText / the item builders of Run", "cannot resolve")
		return
	}
	n := 0
	for _, b := range builders {
		if len(b.Params) != 2 {
			continue
		}
		data := b.Params[1]
		// does the text come from something other than data itself?
		direct, indirect := false, false
		eachInstr(b, func(in ssa.Instruction) {
			call, ok := in.(*ssa.Call)
			if !ok || call.Common().StaticCallee() != nil || call.Common().IsInvoke() {
				return
			}
			if _, isB := call.Common().Value.(*ssa.Builtin); isB {
				return
			}
			// dynamic call whose result lands in item.text: the text processor
			sig, ok := call.Common().Value.Type().Underlying().(*types.Signature)
			if !ok || sig.Results().Len() != 2 || sig.Params().Len() != 1 {
				return
			}
			if call.Call.Args[0] == ssa.Value(data) {
				direct = true
			} else {
				indirect = true
			}
		})
		if !indirect || direct {
			continue
		}
		n++
		isStore := func(in ssa.Instruction) bool {
			st, ok := in.(*ssa.Store)
			if !ok {
				return false
			}
			fld, _ := fieldOf(st.Addr)
			return fld == fOrig
		}
		isAccept := func(in ssa.Instruction) bool {
			ret, ok := in.(*ssa.Return)
			if !ok || len(ret.Results) != 1 {
				return false
			}
			v, isK := constBool(retResult(ret, 0))
			return !isK || v
		}
		start := b.Blocks[0].Instrs[0]
		var hit ssa.Instruction
		if !isStore(start) {
			hit = pathAvoiding(start, isAccept, isStore, nil)
		}
		r.check(hit == nil, relName(b)+":an accepted record keeps its original text", b.Pos(), b,
			"every `return true` is preceded by a store into Item.origText", "a path accepts the record without storing Item.origText: the output falls back to the transformed, trimmed text")
	}
	r.floor("item builders that transform the record", n, 1)
}

// c11r18: a 24-bit colour is the tag bit 1<<24 plus the RGB value, so pure black IS the value 1<<24. Code that
// sorts a colour into "16 / 256 / true colour" by comparing with that constant has to put the constant itself
// on the true-colour side (round-8 mutant C11a8: toAnsiString tested `col > 1<<24`; with --ansi --with-nth the
// state carried into the next field lost a black true-colour foreground or background).
func c11r18(c *Ctx, r *Report) {
	l := c.L
	r.rule("C11-R18", "D (the tag value itself is a true colour)", "P1",
		"in packages fzf and tui, every ordering comparison between a value converted from tui.Color and the constant 1<<24 is `>=` or `<` (the constant on the true-colour side)",
		"black given as a 24-bit colour (38;2;0;0;0) falls through the classification and is dropped from the re-emitted state")
	col := l.Named("tui", "Color")
	if col == nil {
		r.unest("anchors", token.NoPos, nil, "anchor tui.Color", "cannot resolve")
		return
	}
	isColor := func(v ssa.Value) bool {
		for w := range backwardSlice(v, nil, nil) {
			if nn, ok := w.Type().(*types.Named); ok && nn.Obj() == col.Obj() {
				return true
			}
		}
		return false
	}
	n := 0
	for _, fn := range l.AllFuncs() {
		if fn.Blocks == nil || fn.Pkg == nil || !(fn.Pkg == l.pkg("fzf") || fn.Pkg == l.pkg("tui")) {
			continue
		}
		k := 0
		eachInstr(fn, func(in ssa.Instruction) {
			b, ok := in.(*ssa.BinOp)
			if !ok {
				return
			}
			x, y, op := b.X, b.Y, b.Op
			if kx, isK := constIntVal(x); isK && kx == 1<<24 {
				x, y = y, x
				switch op {
				case token.LSS:
					op = token.GTR
				case token.LEQ:
					op = token.GEQ
				case token.GTR:
					op = token.LSS
				case token.GEQ:
					op = token.LEQ
				}
			}
			ky, isK := constIntVal(y)
			if !isK || ky != 1<<24 {
				return
			}
			switch op {
			case token.LSS, token.LEQ, token.GTR, token.GEQ:
			default:
				return
			}
			if !isColor(x) {
				return
			}
			n++
			k++
			r.check(op == token.GEQ || op == token.LSS, fmt.Sprintf("%s:comparison #%d of a colour with the 24-bit tag", relName(fn), k), b.Pos(), fn,
				"the tag value itself counts as a true colour", "the colour 1<<24 (24-bit black) is on the wrong side of this comparison")
		})
	}
	r.floor("ordering comparisons of a colour with 1<<24", n, 1)
}

// c09r15: a package-level variable that a function fills from its PARAMETER and then answers from is a memo,
// and a memo has to be keyed by what it was computed from. (round-8 mutant C09a8 compiled the word-boundary
// pattern of findLastMatch "only once": the first caller's pattern served all later callers, so
// backward-kill-word used the regular expression of backward-word's first call and cut the query — and the
// yank buffer — at the wrong place.)
func c09r15(c *Ctx, r *Report) {
	l := c.L
	r.rule("C09-R15", "C (belief: a memo is consulted under a test of its key)", "P1",
		"in the module, a function (outside init) that stores a value computed from one of its parameters into a package-level variable and also reads that variable where no store of the same call dominates the read (the value of an earlier call) compares the parameter (or a value computed from it) with a value read from a package-level variable",
		"the answer computed for the first argument is returned for every later argument: editing actions that share the helper cut the query at another action's boundary")
	n, memo := 0, 0
	for _, fn := range l.AllFuncs() {
		if fn.Blocks == nil || fn.Pkg == nil || !isModulePkg(fn.Pkg.Pkg) || fn.Name() == "init" || strings.HasPrefix(fn.Name(), "init#") || len(fn.Params) == 0 {
			continue
		}
		stores := map[*ssa.Global][]*ssa.Store{}
		loads := map[*ssa.Global]bool{}
		eachInstr(fn, func(in ssa.Instruction) {
			switch x := in.(type) {
			case *ssa.Store:
				if g, ok := x.Addr.(*ssa.Global); ok {
					stores[g] = append(stores[g], x)
				}
			case *ssa.UnOp:
				if g, ok := x.X.(*ssa.Global); ok && x.Op == token.MUL {
					loads[g] = true
				}
			}
		})
		if len(stores) == 0 {
			continue
		}
		n++
		paramDerived := func(v ssa.Value) bool {
			for w := range backwardSlice(v, func(*ssa.CallCommon) bool { return true }, nil) {
				if _, ok := w.(*ssa.Parameter); ok {
					return true
				}
			}
			return false
		}
		globalDerived := func(v ssa.Value) bool {
			for w := range backwardSlice(v, nil, nil) {
				if u, ok := w.(*ssa.UnOp); ok && u.Op == token.MUL {
					if _, ok := u.X.(*ssa.Global); ok {
						return true
					}
				}
			}
			return false
		}
		var gs []*ssa.Global
		for g := range stores {
			gs = append(gs, g)
		}
		sort.Slice(gs, func(i, j int) bool { return gs[i].Name() < gs[j].Name() })
		for _, g := range gs {
			if !loads[g] {
				continue
			}
			dep := false
			for _, st := range stores[g] {
				if paramDerived(st.Val) {
					dep = true
				}
			}
			if !dep {
				continue
			}
			// state carried from an earlier call: a read that no store of this call dominates
			carried := false
			eachInstr(fn, func(in ssa.Instruction) {
				u, ok := in.(*ssa.UnOp)
				if !ok || u.Op != token.MUL || u.X != ssa.Value(g) {
					return
				}
				dom := false
				for _, st := range stores[g] {
					if dominates(st, u) {
						dom = true
					}
				}
				if !dom {
					carried = true
				}
			})
			if !carried {
				continue
			}
			memo++
			keyed := false
			eachInstr(fn, func(in ssa.Instruction) {
				b, ok := in.(*ssa.BinOp)
				if !ok || (b.Op != token.EQL && b.Op != token.NEQ) {
					return
				}
				if paramDerived(b.X) && globalDerived(b.Y) || paramDerived(b.Y) && globalDerived(b.X) {
					if _, isNil := b.X.(*ssa.Const); !isNil {
						if _, isNil := b.Y.(*ssa.Const); !isNil {
							keyed = true
						}
					}
				}
			})
			r.check(keyed, fmt.Sprintf("%s:memo in package-level %s is keyed", relName(fn), g.Name()), stores[g][0].Pos(), fn,
				"the remembered value is used under a comparison of the argument with the remembered key",
				"the function remembers in "+g.Name()+" a value computed from its argument and reuses it without comparing the argument it was computed from")
		}
	}
	r.info("census:package-level stores", token.NoPos, nil, fmt.Sprintf("%d functions with parameters store into package-level variables; %d of them read back what they store from a parameter", n, memo))
	r.floor("functions with parameters that store into package-level variables", n, 4)
}

// c08r21: the exclusions travel in searchRequest.denylist, one batch per request. When a request is folded
// into one the coordinator has not taken yet, the result has to carry BOTH batches (round-8 mutant C08c8 treated
// the denylist like the "fill in if missing" fields next to it: of two quick `exclude` actions the first was lost
// and the item stayed in the list).
func c08r21(c *Ctx, r *Report) {
	l := c.L
	r.rule("C08-R21", "D (provenance: the folded denylist is the concatenation of both)", "P1",
		"in the function that folds a pending searchRequest into a new one (receiver, parameter and result of type searchRequest), every store into the result's denylist is append(..) over the pending request's denylist and the receiver's own",
		"of two exclusions posted before the coordinator wakes up, one is forgotten: the excluded item is back in the list")
	req := l.Named("fzf", "searchRequest")
	if req == nil {
		r.unest("anchors", token.NoPos, nil, "anchor searchRequest", "cannot resolve")
		return
	}
	isReqT := func(t types.Type) bool { nn, ok := t.(*types.Named); return ok && nn.Obj() == req.Obj() }
	n := 0
	for _, fn := range l.AllFuncs() {
		if fn.Blocks == nil || fn.Pkg != l.pkg("fzf") || fn.Signature.Recv() == nil || !isReqT(fn.Signature.Recv().Type()) {
			continue
		}
		if fn.Signature.Params().Len() != 1 || !isReqT(fn.Signature.Params().At(0).Type()) || fn.Signature.Results().Len() != 1 || !isReqT(fn.Signature.Results().At(0).Type()) {
			continue
		}
		recv, pending := fn.Params[0], fn.Params[1]
		// the denylist of one of the two requests: a Field of the parameter, or a load from its spilled copy
		denyOf := func(v ssa.Value) *ssa.Parameter {
			for _, w := range []ssa.Value{stripConv(v)} {
				var base ssa.Value
				name := ""
				if f, ok := w.(*ssa.Field); ok {
					base, name = f.X, f.X.Type().Underlying().(*types.Struct).Field(f.Field).Name()
				} else if fld, b := loadedField(w); fld != nil {
					base, name = b, fld.Name()
				}
				if name != "denylist" || base == nil {
					continue
				}
				for _, p := range []*ssa.Parameter{recv, pending} {
					if base == ssa.Value(p) {
						return p
					}
					if al, ok := base.(*ssa.Alloc); ok && al.Comment == p.Name() {
						return p
					}
				}
			}
			return nil
		}
		k := 0
		eachInstr(fn, func(in ssa.Instruction) {
			st, ok := in.(*ssa.Store)
			if !ok {
				return
			}
			fld, base := fieldOf(st.Addr)
			if fld == nil || fld.Name() != "denylist" || base == nil || !isReqT(deref(base.Type())) {
				return
			}
			n++
			k++
			both := false
			if call, ok := st.Val.(*ssa.Call); ok {
				if b, ok := call.Common().Value.(*ssa.Builtin); ok && b.Name() == "append" && len(call.Call.Args) == 2 {
					p1, p2 := denyOf(call.Call.Args[0]), denyOf(call.Call.Args[1])
					both = p1 != nil && p2 != nil && p1 != p2
				}
			}
			r.check(both, fmt.Sprintf("%s:store #%d into the folded denylist", relName(fn), k), st.Pos(), fn,
				"append over the pending request's exclusions and the new ones", "the folded request's denylist is "+describe(st.Val)+", not the concatenation of both requests' exclusions")
		})
	}
	r.floor("stores into the denylist of a folded searchRequest", n, 1)
}

// c07r12: a positional struct literal binds values to fields by POSITION; where two neighbouring fields have
// the same type the compiler cannot see a mix-up. The one thing that can be checked is the convention the code
// follows: a variable named like a field goes into that field (round-8 mutant C07b8 swapped the declaration
// order of MatchRequest.final and .sort; Matcher.Reset's positional literal then passed `final` as sort and
// `sort` as final — with --select-1/--exit-0 fzf decided on a partial result).
func c07r12(c *Ctx, r *Report) {
	l := c.L
	r.rule("C07-R12", "E (positional literal: a value named like a field sits at that field's position)", "P1",
		"in every positional (unkeyed) composite literal of a struct type of the module, an element that is an identifier (or the last name of a selector) spelled like a field of the struct sits at that field's position",
		"two same-typed fields receive each other's value: the matcher takes `final` for `sort` — --select-1 / --exit-0 act on a partial result and the list is (not) sorted against the option")
	n, named := 0, 0
	for _, alias := range []string{"fzf", "algo", "util", "tui", "main"} {
		pp := l.ByPath[pkgAlias[alias]]
		if pp == nil {
			continue
		}
		for _, file := range pp.Syntax {
			ast.Inspect(file, func(nd ast.Node) bool {
				cl, ok := nd.(*ast.CompositeLit)
				if !ok || len(cl.Elts) == 0 {
					return true
				}
				if _, keyed := cl.Elts[0].(*ast.KeyValueExpr); keyed {
					return true
				}
				tv, ok := pp.TypesInfo.Types[cl]
				if !ok {
					return true
				}
				t := tv.Type
				if pt, ok := t.(*types.Pointer); ok {
					t = pt.Elem()
				}
				nn, ok := t.(*types.Named)
				if !ok || !isModulePkg(nn.Obj().Pkg()) {
					return true
				}
				st, ok := nn.Underlying().(*types.Struct)
				if !ok || st.NumFields() != len(cl.Elts) {
					return true
				}
				n++
				idx := map[string]int{}
				for i := 0; i < st.NumFields(); i++ {
					idx[strings.ToLower(st.Field(i).Name())] = i
				}
				for i, e := range cl.Elts {
					name := ""
					switch x := e.(type) {
					case *ast.Ident:
						name = x.Name
					case *ast.SelectorExpr:
						name = x.Sel.Name
					}
					j, isField := idx[strings.ToLower(name)]
					if name == "" || !isField {
						continue
					}
					named++
					if j != i {
						pos := l.Fset.Position(e.Pos())
						r.bad(fmt.Sprintf("%s literal:%s at the position of %s", nn.Obj().Name(), name, st.Field(i).Name()), e.Pos(), nil,
							"a value named like a field initialises that field",
							fmt.Sprintf("%s:%d: positional %s literal puts `%s` into field %s (field %s is at position %d)", pos.Filename[strings.LastIndex(pos.Filename, "/src/")+1:], pos.Line, nn.Obj().Name(), name, st.Field(i).Name(), st.Field(j).Name(), j))
					}
				}
				return true
			})
		}
	}
	r.ok("module:positional struct literals follow the field order", token.NoPos, nil, fmt.Sprintf("%d positional literals of module structs, %d elements named like a field, all in that field's position", n, named))
	r.floor("positional literals of module struct types", n, 10)
	r.floor("... elements named like a field", named, 6)
}

// c01r10: the search is re-run when the query CHANGED — any change: a trailing blank is an escaped blank
// after a backslash, separates `foo` from the next term, and ends a `'word ` boundary term. Terminal.Loop
// compares the input before and after the actions of one event as whole strings, and that comparison is what
// raises the request's `changed` flag (round-8 mutant C01a8 raised it only when the inputs differed after
// strings.TrimRight(.., " "): typing the blank after `foo\` left the result of the older query on screen).
func c01r10(c *Ctx, r *Report) {
	l := c.L
	r.rule("C01-R10", "D (provenance of searchRequest.changed)", "P1",
		"in Terminal.Loop there is a comparison of string(<copy of Terminal.input taken before the actions>) with string(Terminal.input), both converted directly, and the variable stored into searchRequest.changed receives that comparison's value (through ||/&& phis and through boolean variables assigned before they are read), or the constant true under it",
		"an edit that the weaker comparison does not see leaves the result list of the previous query on screen: the displayed list is not the filter of the current query")
	loop := l.Fn("fzf", "(*Terminal).Loop")
	fInput := l.Field("fzf", "Terminal", "input")
	req := l.Named("fzf", "searchRequest")
	if loop == nil || fInput == nil || req == nil {
		r.unest("anchors", token.NoPos, nil, "anchors Terminal.Loop / Terminal.input / searchRequest", "cannot resolve")
		return
	}
	isInputLoad := func(v ssa.Value) bool { fld, _ := loadedField(v); return fld == fInput }
	isSnapshot := func(v ssa.Value) bool {
		call, ok := v.(*ssa.Call)
		if !ok || call.Common().StaticCallee() == nil || len(call.Call.Args) != 1 {
			return false
		}
		return isInputLoad(call.Call.Args[0])
	}
	conv := func(v ssa.Value) ssa.Value {
		if cv, ok := v.(*ssa.Convert); ok {
			return cv.X
		}
		return nil
	}
	var cmps []*ssa.BinOp
	eachInstr(loop, func(in ssa.Instruction) {
		b, ok := in.(*ssa.BinOp)
		if !ok || (b.Op != token.NEQ && b.Op != token.EQL) {
			return
		}
		x, y := conv(b.X), conv(b.Y)
		if x == nil || y == nil {
			return
		}
		if isSnapshot(x) && isInputLoad(y) || isSnapshot(y) && isInputLoad(x) {
			cmps = append(cmps, b)
		}
	})
	r.floor("whole-string comparisons of the input with its copy from before the actions", len(cmps), 1)
	if len(cmps) == 0 {
		r.bad(relName(loop)+":the query is compared with its previous value", loop.Pos(), loop, "string(previous) != string(t.input)", "no direct comparison of the input with the copy taken before the actions was found")
		return
	}
	// the variable that becomes searchRequest.changed
	var cell *ssa.Alloc
	eachInstr(loop, func(in ssa.Instruction) {
		st, ok := in.(*ssa.Store)
		if !ok {
			return
		}
		fld, base := fieldOf(st.Addr)
		if fld == nil || fld.Name() != "changed" || base == nil {
			return
		}
		if nn, ok := deref(base.Type()).(*types.Named); !ok || nn.Obj() != req.Obj() {
			return
		}
		if u, ok := st.Val.(*ssa.UnOp); ok && u.Op == token.MUL {
			if al, ok := u.X.(*ssa.Alloc); ok {
				cell = al
			}
		}
	})
	if cell == nil {
		r.unest(relName(loop)+":changed", loop.Pos(), loop, "the variable stored into searchRequest.changed", "searchRequest.changed is not filled from a local variable")
		return
	}
	cc := cdCache{}
	memo := map[ssa.Value]int{}
	var tainted func(v ssa.Value, d int) bool
	tainted = func(v ssa.Value, d int) bool {
		if d > 12 {
			return false
		}
		if st, ok := memo[v]; ok {
			return st == 2
		}
		memo[v] = 1
		res := false
		switch x := v.(type) {
		case *ssa.BinOp:
			for _, cm := range cmps {
				if x == cm {
					res = true
				}
			}
		case *ssa.UnOp:
			if x.Op == token.NOT {
				res = tainted(x.X, d+1)
			} else if x.Op == token.MUL {
				if al, ok := x.X.(*ssa.Alloc); ok {
					eachInstr(loop, func(in ssa.Instruction) {
						st, ok := in.(*ssa.Store)
						if ok && st.Addr == ssa.Value(al) && dominates(st, x) && tainted(st.Val, d+1) {
							res = true
						}
					})
				}
			}
		case *ssa.Phi:
			for _, e := range x.Edges {
				if tainted(e, d+1) {
					res = true
				}
			}
		}
		if res {
			memo[v] = 2
		} else {
			memo[v] = 3
		}
		return res
	}
	fed := false
	eachInstr(loop, func(in ssa.Instruction) {
		st, ok := in.(*ssa.Store)
		if !ok || st.Addr != ssa.Value(cell) {
			return
		}
		if tainted(st.Val, 0) {
			fed = true
			return
		}
		if v, isK := constBool(st.Val); isK && v {
			for cond := range cc.of(st) {
				if tainted(cond, 0) {
					fed = true
				}
			}
		}
	})
	r.check(fed, relName(loop)+":searchRequest.changed follows the whole-string comparison", cmps[0].Pos(), loop,
		"the comparison of the whole input reaches the `changed` flag of the search request", "the request's `changed` flag is not derived from the whole-string comparison of the input: some edits do not start a search")
}

// c06r11: EventBox.cond is broadcast for EVERY event that is not ignored, so waking up proves nothing about
// a particular event. Whoever waits on the condition variable looks at the events afterwards (Wait hands them to
// its callback) before it returns (round-8 mutant C06a8 rewrote WaitFor to "sleep on the condition variable
// instead of spinning": one cond.Wait, no second look — `--filter --sync`/--tac started filtering on the first
// EvtReadNew, long before EvtReadFin, and printed a prefix of the input).
func c06r11(c *Ctx, r *Report) {
	l := c.L
	r.rule("C06-R11", "A (must-pass-through after a wake-up)", "P1",
		"in package util, every path from a call of sync.Cond.Wait to a return of the function passes a look at the event box: a call of a function-typed parameter that receives the events, a lookup in EventBox.events, or a range over it",
		"a waiter returns on a wake-up meant for another event: the non-streaming filter starts before the input has ended and prints a prefix of the result")
	fEv := l.Field("util", "EventBox", "events")
	if fEv == nil {
		r.unest("anchors", token.NoPos, nil, "anchor EventBox.events", "cannot resolve")
		return
	}
	n := 0
	for _, fn := range l.AllFuncs() {
		if fn.Blocks == nil || fn.Pkg != l.pkg("util") {
			continue
		}
		fromEvents := func(v ssa.Value) bool {
			for w := range backwardSlice(v, nil, nil) {
				if fld, _ := loadedField(w); fld == fEv {
					return true
				}
				if fld, _ := fieldOf(w); fld == fEv {
					return true
				}
			}
			return false
		}
		look := func(in ssa.Instruction) bool {
			switch x := in.(type) {
			case *ssa.Call:
				if x.Common().StaticCallee() == nil && !x.Common().IsInvoke() {
					if _, isB := x.Common().Value.(*ssa.Builtin); !isB {
						for _, a := range x.Call.Args {
							if fromEvents(a) {
								return true
							}
						}
					}
				}
			case *ssa.Lookup:
				return fromEvents(x.X)
			case *ssa.Range:
				return fromEvents(x.X)
			}
			return false
		}
		k := 0
		eachInstr(fn, func(in ssa.Instruction) {
			call, ok := in.(*ssa.Call)
			if !ok || calleeName(call.Common()) != "(*sync.Cond).Wait" {
				return
			}
			n++
			k++
			hit := pathAvoiding(in, isReturn, look, nil)
			r.check(hit == nil, fmt.Sprintf("%s:wake-up #%d is followed by a look at the events", relName(fn), k), call.Pos(), fn,
				"every path from the wake-up to a return examines the event box", "a path returns after the wake-up without looking at the events: the caller continues although the event it waits for may not have arrived")
		})
	}
	r.floor("calls of sync.Cond.Wait in package util", n, 1)
}

// c06r12: a chunk has room for chunkSize items and holds `count` of them; the slots behind count are zero
// Items (index 0, empty text). A loop that walks the items of a chunk therefore stops at the chunk's count
// (round-8 mutant C06b8 wrote `for idx := range chunk.items` in matchChunk: after `exclude` — which makes the
// empty query scan instead of passing through — the unused slots of the last chunk appeared as empty lines
// with index 0).
func c06r12(c *Ctx, r *Report) {
	l := c.L
	r.rule("C06-R12", "A (loop bound of a walk over Chunk.items)", "P1",
		"in package fzf, every loop whose counter indexes Chunk.items directly is bounded by `counter < X` where X is a load of the count field of the same chunk, or the value stored into that chunk's count field",
		"the unused slots of a partly filled chunk are matched and listed: records that were never in the input (empty, index 0) appear, and the counts no longer agree with the input")
	fItems := l.Field("fzf", "Chunk", "items")
	fCount := l.Field("fzf", "Chunk", "count")
	if fItems == nil || fCount == nil {
		r.unest("anchors", token.NoPos, nil, "anchors Chunk.items / Chunk.count", "cannot resolve")
		return
	}
	n := 0
	for _, fn := range l.AllFuncs() {
		if fn.Blocks == nil || fn.Pkg != l.pkg("fzf") {
			continue
		}
		var loops []natLoop
		k := 0
		seenPhi := map[*ssa.Phi]bool{}
		eachInstr(fn, func(in ssa.Instruction) {
			ia, ok := in.(*ssa.IndexAddr)
			if !ok {
				return
			}
			fld, chunk := fieldOf(ia.X)
			if fld != fItems {
				return
			}
			// the counter: a phi of a loop header, or (range over the array) that phi plus one
			counter := ia.Index
			phi, ok := counter.(*ssa.Phi)
			if !ok {
				if add, isAdd := counter.(*ssa.BinOp); isAdd && add.Op == token.ADD {
					if p2, isPhi := add.X.(*ssa.Phi); isPhi && isConstInt(add.Y, 1) {
						phi, ok = p2, true
					}
				}
			}
			if !ok || seenPhi[phi] {
				return
			}
			if loops == nil {
				loops = natLoops(fn)
			}
			var lp *natLoop
			for i := range loops {
				if loops[i].hdr == phi.Block() {
					lp = &loops[i]
				}
			}
			if lp == nil {
				return
			}
			seenPhi[phi] = true
			n++
			k++
			key := fmt.Sprintf("%s:walk #%d over the items of a chunk stops at its count", relName(fn), k)
			// the bound: the If of the header (or of the block the header jumps to) comparing the counter
			var bound ssa.Value
			for _, bb := range []*ssa.BasicBlock{phi.Block()} {
				if iff, ok := bb.Instrs[len(bb.Instrs)-1].(*ssa.If); ok {
					if b, ok := iff.Cond.(*ssa.BinOp); ok {
						if b.X == counter && b.Op == token.LSS {
							bound = b.Y
						} else if b.Y == counter && b.Op == token.GTR {
							bound = b.X
						}
					}
				}
			}
			if bound == nil {
				r.bad(key, ia.Pos(), fn, "counter < count", "the loop is not bounded by a `<` test of its counter in the loop header")
				return
			}
			good := false
			if f2, base2 := loadedField(bound); f2 == fCount && samePath(base2, chunk, 0) {
				good = true
			}
			if !good {
				eachInstr(fn, func(i2 ssa.Instruction) {
					st, ok := i2.(*ssa.Store)
					if !ok {
						return
					}
					if f2, base2 := fieldOf(st.Addr); f2 == fCount && samePath(base2, chunk, 0) && st.Val == bound {
						good = true
					}
				})
			}
			r.check(good, key, ia.Pos(), fn, "bounded by the count of the chunk it walks", "the loop runs to "+describe(bound)+", which is not the count of the chunk: the unused slots behind count are visited")
		})
	}
	r.floor("loops whose counter indexes Chunk.items", n, 3)
}

// c15r13: a test "did X change?" compares the old X with the new one, so it has to read the old value
// BEFORE the new one is stored (round-8 mutant C15a8 moved the comparison of changeHeader behind the assignment
// `t.header0 = lines`: len(t.header0) != len(lines) was then always false, the layout was not recomputed when a
// change-header made the header taller, and the list overlapped the header).
func c15r13(c *Ctx, r *Report) {
	l := c.L
	r.rule("C15-R13", "C (contradiction: a value compared with itself)", "P1",
		"in packages fzf and tui, no comparison has on one side a field just loaded (or its len) and on the other side the value (or its len) that a dominating store put into that very field, with no other store to the field in the function",
		"a `has it changed` test that is always false: the window layout is not recomputed when the header grows and rows are drawn over each other")
	n := 0
	for _, fn := range l.AllFuncs() {
		if fn.Blocks == nil || fn.Pkg == nil || !(fn.Pkg == l.pkg("fzf") || fn.Pkg == l.pkg("tui")) {
			continue
		}
		// stores into fields, by field
		stores := map[*types.Var][]*ssa.Store{}
		eachInstr(fn, func(in ssa.Instruction) {
			if st, ok := in.(*ssa.Store); ok {
				if fld, _ := fieldOf(st.Addr); fld != nil {
					stores[fld] = append(stores[fld], st)
				}
			}
		})
		if len(stores) == 0 {
			continue
		}
		unlen := func(v ssa.Value) (ssa.Value, bool) {
			if call, ok := v.(*ssa.Call); ok {
				if b, ok := call.Common().Value.(*ssa.Builtin); ok && b.Name() == "len" {
					return call.Call.Args[0], true
				}
			}
			return v, false
		}
		k := 0
		eachInstr(fn, func(in ssa.Instruction) {
			b, ok := in.(*ssa.BinOp)
			if !ok {
				return
			}
			switch b.Op {
			case token.EQL, token.NEQ, token.LSS, token.GTR, token.LEQ, token.GEQ:
			default:
				return
			}
			x, lx := unlen(b.X)
			y, ly := unlen(b.Y)
			if lx != ly {
				return
			}
			for _, pr := range [][2]ssa.Value{{x, y}, {y, x}} {
				ld, ok := pr[0].(*ssa.UnOp)
				if !ok || ld.Op != token.MUL {
					continue
				}
				fld, base := fieldOf(ld.X)
				if fld == nil || len(stores[fld]) != 1 {
					continue
				}
				st := stores[fld][0]
				_, sbase := fieldOf(st.Addr)
				if !samePath(base, sbase, 0) {
					continue
				}
				n++
				if st.Val == pr[1] && dominates(st, ld) {
					k++
					r.bad(fmt.Sprintf("%s:comparison #%d of %s with the value just stored into it", relName(fn), k, fld.Name()), b.Pos(), fn,
						"old and new value are compared", fmt.Sprintf("%s is read after %s was stored into it (%s) and compared with that same value: the test cannot see a change", fld.Name(), describe(st.Val), l.pos(st.Pos())))
				}
			}
		})
	}
	r.ok("module:no field is compared with the value just stored into it", token.NoPos, nil, fmt.Sprintf("%d comparisons of a loaded field with another value in functions that store that field once", n))
	r.floor("comparisons of a loaded field in functions that store the field once", n, 5)
}

// c15r14: the light renderer moves the cursor RELATIVELY (up/down by the difference to the row it believes it
// is on). When someone else has owned the terminal — execute(), a suspended fzf — that belief is wrong, and
// Clear, which starts every full redraw, is where it is re-anchored: in full-screen mode it homes the cursor
// absolutely before it relies on the tracked row (round-8 mutant C15b8 removed the `CSI H` as redundant with
// origin(): after execute() the list was painted as many rows too low as the child had left the cursor).
func c15r14(c *Ctx, r *Report) {
	l := c.L
	r.rule("C15-R14", "A (must-pass-through on the full-screen path)", "P1",
		"in LightRenderer.Clear, every path on which LightRenderer.fullscreen is true reaches the first relative cursor movement (origin / move) only through a call of csi with the constant \"H\"",
		"after execute(...) / a resume the whole list is drawn shifted by the row the foreign program left the cursor on; partial repaints then leave ghost copies")
	clr := l.Fn("tui", "(*LightRenderer).Clear")
	csi := l.Fn("tui", "(*LightRenderer).csi")
	mv := l.Fn("tui", "(*LightRenderer).move")
	org := l.Fn("tui", "(*LightRenderer).origin")
	fFull := l.Field("tui", "LightRenderer", "fullscreen")
	if clr == nil || csi == nil || mv == nil || fFull == nil {
		r.unest("anchors", token.NoPos, nil, "anchors LightRenderer.Clear / csi / move / fullscreen", "cannot resolve")
		return
	}
	isHome := func(in ssa.Instruction) bool {
		call, ok := in.(*ssa.Call)
		if !ok || call.Common().StaticCallee() != csi {
			return false
		}
		s, isK := constString(call.Call.Args[len(call.Call.Args)-1])
		return isK && s == "H"
	}
	isRel := func(in ssa.Instruction) bool {
		cal := staticCallee(in)
		return cal != nil && (cal == mv || cal == org)
	}
	// edges on which fullscreen is known false are not walked
	edgeOK := func(from, to *ssa.BasicBlock) bool {
		iff, ok := from.Instrs[len(from.Instrs)-1].(*ssa.If)
		if !ok {
			return true
		}
		atom, neg := normCond(iff.Cond)
		if fld, _ := loadedField(atom); fld == fFull {
			takenWhenTrue := from.Succs[0] == to
			return takenWhenTrue != neg
		}
		return true
	}
	start := clr.Blocks[0].Instrs[0]
	var hit ssa.Instruction
	if isRel(start) {
		hit = start
	} else if !isHome(start) {
		hit = pathAvoiding(start, isRel, isHome, edgeOK)
	}
	rel := 0
	eachInstr(clr, func(in ssa.Instruction) {
		if isRel(in) {
			rel++
		}
	})
	r.check(hit == nil, relName(clr)+":full-screen Clear homes the cursor absolutely first", clr.Pos(), clr,
		"csi(\"H\") precedes the first relative movement whenever fullscreen is set", "in full-screen mode a relative cursor movement is reached without the absolute `CSI H`: the tracked row is trusted although another program may have moved the cursor")
	r.floor("relative cursor movements in LightRenderer.Clear", rel, 1)
}

// c15r15: processTabs expands TABs relative to the column the text starts in and returns the column it ends
// in; pieces of one line printed one after the other have to chain that column (round-8 mutant C15c8 dropped
// the returned width for the coloured pieces in printColoredString: a TAB after a coloured word was expanded
// as if the word were not there, and the columns of the line no longer matched the terminal's).
func c15r15(c *Ctx, r *Report) {
	l := c.L
	r.rule("C15-R15", "D (the column returned by one piece is the column the next piece starts in)", "P1",
		"in every function of package fzf that calls Terminal.processTabs more than once, the width returned by a call from which another call can be reached flows (through phis) into the prefix-width argument of a reachable call",
		"TAB stops are computed from the wrong column after a highlighted or coloured piece: the text is drawn narrower or wider than the space computed for it")
	pt := l.Fn("fzf", "(*Terminal).processTabs")
	if pt == nil {
		r.unest("anchors", token.NoPos, nil, "anchor Terminal.processTabs", "cannot resolve")
		return
	}
	n := 0
	for _, fn := range l.AllFuncs() {
		if fn.Blocks == nil || fn.Pkg != l.pkg("fzf") {
			continue
		}
		var calls []*ssa.Call
		eachInstr(fn, func(in ssa.Instruction) {
			if call, ok := in.(*ssa.Call); ok && call.Common().StaticCallee() == pt {
				calls = append(calls, call)
			}
		})
		if len(calls) < 2 {
			continue
		}
		for i, c1 := range calls {
			var later []*ssa.Call
			for _, c2 := range calls {
				if canReach(c1, c2) && (c1 != c2 || inLoop(c1.Block())) {
					later = append(later, c2)
				}
			}
			if len(later) == 0 {
				continue
			}
			n++
			// the width result
			var width ssa.Value
			if c1.Referrers() != nil {
				for _, ref := range *c1.Referrers() {
					if ex, ok := ref.(*ssa.Extract); ok && ex.Index == 1 {
						width = ex
					}
				}
			}
			flows := false
			if width != nil {
				for _, c2 := range later {
					arg := c2.Call.Args[len(c2.Call.Args)-1]
					for w := range backwardSlice(arg, nil, nil) {
						if w == width {
							flows = true
						}
					}
				}
			}
			r.check(flows, fmt.Sprintf("%s:width returned by processTabs call #%d is carried on", relName(fn), i+1), c1.Pos(), fn,
				"the end column of this piece is the start column of a later piece", "the end column of this piece is dropped although more pieces of the line follow: their TABs are expanded from a stale column")
		}
	}
	r.floor("processTabs calls followed by another piece", n, 2)
}

// c16r17: like C17-R11 for strings. s[k] with a constant k panics on a string shorter than k+1, and the action
// parser runs on text POSTed to --listen as well as on --bind values (round-8 mutant C16b8 removed the
// `len(action) == 0 -> break` in maskActionContents: `curl -d reload` — a bare action name that takes an
// argument, at the end of the list — crashed the server with index out of range).
func c16r17(c *Ctx, r *Report) {
	l := c.L
	r.rule("C16-R17", "I (length lower bounds from path conditions, strings)", "P1",
		"in every function of package fzf reachable from parseSingleActionList (the parser of --bind values and of POSTed actions), each constant index s[k] on a string is dominated by facts that give len(s) > k (a length test of the same string on every path, or a producer that guarantees it)",
		"a POSTed or bound action list that ends in the bare name of an argument-taking action makes the parser index an empty string: panic, fzf dies with the terminal raw")
	po := l.Fn("fzf", "ParseOptions")
	pa := l.Fn("fzf", "parseSingleActionList")
	if po == nil || pa == nil {
		r.unest("anchors", token.NoPos, nil, "anchors ParseOptions / parseSingleActionList", "cannot resolve")
		return
	}
	_ = po
	seen := reachableFns(pa)
	var fns []*ssa.Function
	for fn := range seen {
		if fn.Pkg == l.pkg("fzf") && fn.Blocks != nil {
			fns = append(fns, fn)
		}
	}
	sort.Slice(fns, func(i, j int) bool { return fns[i].String() < fns[j].String() })
	n := 0
	for _, fn := range fns {
		var pc *PathConds
		cnt := map[string]int{}
		eachInstr(fn, func(in ssa.Instruction) {
			var x, idx ssa.Value
			switch v := in.(type) {
			case *ssa.Index:
				x, idx = v.X, v.Index
			case *ssa.Lookup:
				x, idx = v.X, v.Index
			default:
				return
			}
			bt, ok := x.Type().Underlying().(*types.Basic)
			if !ok || bt.Info()&types.IsString == 0 {
				return
			}
			k, isK := constIntVal(idx)
			if !isK {
				return
			}
			if _, isConst := x.(*ssa.Const); isConst {
				return
			}
			if pc == nil {
				pc = pathConds(fn)
			}
			n++
			base := fmt.Sprintf("%s:%s[%d]", relName(fn), producerName(x), k)
			cnt[base]++
			key := base
			if cnt[base] > 1 {
				key = fmt.Sprintf("%s #%d", base, cnt[base])
			}
			ok2, why := provenLen(fn, pc, x, k+1, in.Block(), 0)
			if !ok2 {
				if ok3, why3 := lowerPrefixLemma(pc, x, k+1, in.Block()); ok3 {
					ok2, why = true, why3
				}
			}
			if ok2 {
				r.ok(key, in.Pos(), fn, "len > index: "+why)
			} else {
				r.unest(key, in.Pos(), fn, fmt.Sprintf("len(%s) > %d on every path", x.Name(), k), "no dominating length test of the string found ("+why+")")
			}
		})
	}
	r.floor("constant string indexes in the action parser", n, 3)
}

// lowerPrefixLemma proves len(s) >= need for s = strings.ToLower(t) from two facts on the path:
// strings.HasPrefix(s, P) with a constant ASCII P, and len(t) == n with n > len(P). Argument: the first len(P)
// bytes of s are ASCII, each the image of one character of t; a character with an ASCII lower-case image is
// ASCII itself unless the image is one of the letters computed below from the unicode tables (i for U+0130, k
// for U+212A); if P contains none of those, the first len(P) characters of t are single bytes, t has n-len(P) >= 1
// further bytes, and each further character (valid or not) maps to at least one byte. Hence len(s) >= len(P)+1.
func lowerPrefixLemma(pc *PathConds, s ssa.Value, need int64, at *ssa.BasicBlock) (bool, string) {
	call, ok := s.(*ssa.Call)
	if !ok || calleeName(call.Common()) != "strings.ToLower" {
		return false, ""
	}
	t := call.Call.Args[0]
	shrinking := map[rune]bool{}
	for r := rune(0x80); r <= unicode.MaxRune; r++ {
		if lr := unicode.ToLower(r); lr < 0x80 {
			shrinking[lr] = true
		}
	}
	ds := pc.At(at)
	if len(ds) == 0 {
		return false, ""
	}
	best := int64(1 << 30)
	for _, dj := range ds {
		plen, n := int64(-1), int64(-1)
		for _, lt := range dj {
			if hp, ok := lt.Atom.(*ssa.Call); ok && lt.Val && calleeName(hp.Common()) == "strings.HasPrefix" && hp.Call.Args[0] == s {
				if p, isK := constString(hp.Call.Args[1]); isK {
					clean := true
					for _, ch := range p {
						if ch >= 0x80 || shrinking[ch] {
							clean = false
						}
					}
					if clean && int64(len(p)) > plen {
						plen = int64(len(p))
					}
				}
			}
			if x, op, k, ok := cmpInt(lt.Atom); ok && op == token.EQL && lt.Val {
				if lc, isCall := x.(*ssa.Call); isCall && calleeName(lc.Common()) == "builtin.len" && (lc.Call.Args[0] == t || sameCellLoads(lc.Call.Args[0], t)) {
					n = k
				}
			}
		}
		got := int64(0)
		if plen >= 0 {
			got = plen
			if n > plen {
				got = plen + 1
			}
		}
		if got < best {
			best = got
		}
	}
	if best >= need {
		return true, fmt.Sprintf("HasPrefix(lower, <%d ASCII bytes>) and a longer original: the lower-cased string has at least %d bytes", best-1, best)
	}
	return false, ""
}

// sameCellLoads: two loads of one variable between which the variable is not assigned (every store to it
// dominates both loads).
func sameCellLoads(a, b ssa.Value) bool {
	ua, ok1 := a.(*ssa.UnOp)
	ub, ok2 := b.(*ssa.UnOp)
	if !ok1 || !ok2 || ua.Op != token.MUL || ub.Op != token.MUL || ua.X != ub.X {
		return false
	}
	cell := ua.X
	if _, isAlloc := cell.(*ssa.Alloc); !isAlloc {
		return false
	}
	for _, st := range storesToAlloc(cell.(*ssa.Alloc)) {
		if st.Parent() != ua.Parent() || !(dominates(st, ua) && dominates(st, ub)) {
			return false
		}
	}
	return true
}

// c16r18: requests from other hosts need the API key; IsLocal decides who is "this host". It does so by
// EQUALITY with the names that can only mean the loopback interface (round-8 mutant C16c8 accepted every host
// name that starts with `localhost`: --listen localhost.example.org:6266 — a public address — ran without the
// key check and without the restriction to safe actions).
func c16r18(c *Ctx, r *Report) {
	l := c.L
	r.rule("C16-R18", "D (closed set of loopback names)", "P1",
		"listenAddress.IsLocal calls nothing and compares the host only for equality with constants from {localhost, 127.0.0.1, ::1, [::1]}",
		"a listener on a routable address is treated as local: anyone who can reach the port may run commands without the API key")
	fn := l.Fn("fzf", "listenAddress.IsLocal")
	if fn == nil {
		r.unest("anchors", token.NoPos, nil, "anchor listenAddress.IsLocal", "cannot resolve")
		return
	}
	loop := map[string]bool{"localhost": true, "127.0.0.1": true, "::1": true, "[::1]": true}
	why := ""
	n := 0
	eachInstr(fn, func(in ssa.Instruction) {
		switch x := in.(type) {
		case ssa.CallInstruction:
			why = "calls " + calleeName(x.Common()) + ": the decision is no longer an equality with a loopback name"
		case *ssa.BinOp:
			s, isK := constString(x.Y)
			if !isK {
				s, isK = constString(x.X)
			}
			if !isK {
				return
			}
			n++
			if x.Op != token.EQL && x.Op != token.NEQ {
				why = fmt.Sprintf("the host is order-compared with %q", s)
			} else if !loop[s] {
				why = fmt.Sprintf("%q is not a loopback name", s)
			}
		}
	})
	r.check(why == "", relName(fn)+":local means equal to a loopback name", fn.Pos(), fn, fmt.Sprintf("%d equality tests against loopback names, no calls", n), why)
	r.floor("comparisons in listenAddress.IsLocal", n, 1)
}

// c17r20: maskActionContents blanks out the ARGUMENT of every action that takes one, so that the commas,
// colons and plus signs inside an argument do not split the binding. It scans action after action and may stop
// only when nothing is left to mask: the pattern finds no further argument-taking action name, the rest is
// empty, the argument runs to the end of the string (`name:...`), or the closing delimiter is missing (round-8
// mutant C17a8 stopped at the first action name that is not followed by an opening delimiter — `preview`,
// `put`, `change-query` used without argument: a later `execute(echo a,b:c)` in the same binding was split at
// its comma).
func c17r20(c *Ctx, r *Report) {
	l := c.L
	r.rule("C17-R20", "A (every exit of the masking loop is justified)", "P1",
		"in maskActionContents, every edge that leaves the scanning loop is taken under a path condition that contains one of: a FindStringIndex result == nil, len(<rest>) == 0 (or the loop's own len > 0 test failing), or <rest>[0] == ':'",
		"the argument of a later action in the same --bind value is not masked: its commas and colons split the binding, and the action's argument is not preserved verbatim")
	fn := l.Fn("fzf", "maskActionContents")
	if fn == nil {
		r.unest("anchors", token.NoPos, nil, "anchor maskActionContents", "cannot resolve")
		return
	}
	pc := pathConds(fn)
	justified := func(lits []Lit) bool {
		return hasLit(lits, func(atom ssa.Value, val bool) bool {
			b, ok := atom.(*ssa.BinOp)
			if !ok {
				return false
			}
			// loc == nil
			if cst, ok := b.Y.(*ssa.Const); ok && cst.IsNil() {
				if call, ok := b.X.(*ssa.Call); ok && strings.HasSuffix(calleeName(call.Common()), ".FindStringIndex") {
					return (b.Op == token.EQL) == val
				}
			}
			// len(rest) == 0 / len(rest) > 0 false
			if x, op, k, ok := cmpInt(atom); ok {
				if call, isCall := x.(*ssa.Call); isCall && calleeName(call.Common()) == "builtin.len" {
					switch {
					case op == token.EQL && k == 0 && val, op == token.NEQ && k == 0 && !val, op == token.GTR && k == 0 && !val, op == token.LEQ && k == 0 && val, op == token.LSS && k == 1 && val, op == token.GEQ && k == 1 && !val:
						return true
					}
				}
				// rest[0] == ':'
				if op == token.EQL && k == ':' && val || op == token.NEQ && k == ':' && !val {
					switch x.(type) {
					case *ssa.Index, *ssa.Lookup:
						return true
					}
				}
			}
			return false
		})
	}
	n := 0
	for _, lp := range natLoops(fn) {
		// the scanning loop: the one that calls FindStringIndex
		scans := false
		for bb := range lp.body {
			for _, in := range bb.Instrs {
				if call, ok := in.(*ssa.Call); ok && strings.HasSuffix(calleeName(call.Common()), ".FindStringIndex") {
					scans = true
				}
			}
		}
		if !scans {
			continue
		}
		var blocks []*ssa.BasicBlock
		for bb := range lp.body {
			blocks = append(blocks, bb)
		}
		sort.Slice(blocks, func(i, j int) bool { return blocks[i].Index < blocks[j].Index })
		for _, bb := range blocks {
			for si, s := range bb.Succs {
				if lp.body[s] {
					continue
				}
				n++
				holds, feas := pc.ImpliesEdge(bb, s, justified)
				_ = si
				pos := bb.Instrs[len(bb.Instrs)-1].Pos()
				if pos == token.NoPos {
					for _, in := range bb.Instrs {
						if in.Pos() != token.NoPos {
							pos = in.Pos()
						}
					}
				}
				r.check(holds || !feas, fmt.Sprintf("%s:exit #%d of the masking loop", relName(fn), n), pos, fn,
					"taken only when nothing is left to mask", "the loop is left although the rest of the string may contain further actions with arguments (no `no match` / `empty rest` / `:` condition on this exit)")
			}
		}
	}
	r.floor("exits of the masking loop", n, 3)
}

// c18r12: the number of history entries kept when --history-size is not given is part of the documented
// interface (usage text: "default: 1000") (round-8 mutant C18c8 set defaultHistoryMax to 100: a history of 1000
// entries was cut to its last 100 lines by the first query entered).
func c18r12(c *Ctx, r *Report) {
	l := c.L
	r.rule("C18-R12", "E (the constant and the usage text agree)", "P1",
		"the number after `default:` in the --history-size line of the Usage constant equals the constant defaultHistoryMax, and that constant is what the option parser starts from",
		"a history file within the documented default size is truncated the first time a query is recorded")
	usage := l.Const("fzf", "Usage")
	dm := l.Const("fzf", "defaultHistoryMax")
	if usage == nil || dm == nil {
		r.unest("anchors", token.NoPos, nil, "anchors Usage / defaultHistoryMax", "cannot resolve")
		return
	}
	text := constantString(usage)
	want, _ := constInt(dm)
	doc := int64(-1)
	for _, line := range strings.Split(text, "\n") {
		if !strings.Contains(line, "--history-size") {
			continue
		}
		if i := strings.Index(line, "default:"); i >= 0 {
			num := ""
			for _, ch := range strings.TrimSpace(line[i+len("default:"):]) {
				if ch < '0' || ch > '9' {
					break
				}
				num += string(ch)
			}
			if num != "" {
				fmt.Sscanf(num, "%d", &doc)
			}
		}
	}
	if doc < 0 {
		r.unest("Usage:--history-size default", usage.Pos(), nil, "a `default: N` in the --history-size line of Usage", "the usage text does not state the default")
		return
	}
	r.check(doc == want, "defaultHistoryMax equals the documented default", dm.Pos(), nil, fmt.Sprintf("usage text says %d, defaultHistoryMax = %d", doc, want),
		fmt.Sprintf("the usage text promises %d entries, defaultHistoryMax is %d", doc, want))
	// the parser starts from the constant
	uses := 0
	for _, fn := range l.AllFuncs() {
		if fn.Blocks == nil || fn.Pkg != l.pkg("fzf") {
			continue
		}
		eachInstr(fn, func(in ssa.Instruction) {
			if st, ok := in.(*ssa.Store); ok {
				if k, isK := constIntVal(st.Val); isK && k == want {
					if al, ok := st.Addr.(*ssa.Alloc); ok && al.Comment == "historyMax" {
						uses++
					}
				}
			}
		})
	}
	r.floor("initialisations of the history limit with the default", uses, 1)
}

func constantString(c *types.Const) string {
	s := c.Val().ExactString()
	if un, err := strconv.Unquote(s); err == nil {
		return un
	}
	return s
}

// c19r12: trimPath only removes leading "./" (".\") from what the walker reports; the path is otherwise the
// walked spelling, which is what exists on disk. Lexical cleaning is NOT equivalent: `a/../b` is `b` only if `a`
// is not a symbolic link (round-8 mutant C19a8 replaced the body with filepath.Clean: with --walker-root
// link/../x the printed paths named files that do not exist, or other files).
func c19r12(c *Ctx, r *Report) {
	l := c.L
	r.rule("C19-R12", "D (provenance: a suffix of the walked path)", "P1",
		"every value returned by trimPath is the constant \".\" or is obtained from the parameter by re-slicing and string/byte conversions only (no call that rewrites the path; prefix tests against constants are allowed)",
		"paths with `..` after a symbolic link, doubled separators or a trailing separator are rewritten lexically: fzf prints names that do not exist or that denote other files")
	fn := l.Fn("fzf", "trimPath")
	if fn == nil {
		r.unest("anchors", token.NoPos, nil, "anchor trimPath", "cannot resolve")
		return
	}
	n := 0
	eachInstr(fn, func(in ssa.Instruction) {
		ret, ok := in.(*ssa.Return)
		if !ok || len(ret.Results) != 1 {
			return
		}
		n++
		why := ""
		for w := range backwardSlice(retResult(ret, 0), func(cc *ssa.CallCommon) bool { return true }, nil) {
			call, ok := w.(*ssa.Call)
			if !ok {
				continue
			}
			if _, isB := call.Common().Value.(*ssa.Builtin); isB {
				continue
			}
			cal := call.Common().StaticCallee()
			if cal != nil && cal.Pkg == fn.Pkg && (cal.Name() == "stringBytes" || cal.Name() == "byteString") {
				continue
			}
			switch calleeName(call.Common()) {
			case "strings.TrimPrefix", "strings.CutPrefix", "strings.HasPrefix", "bytes.TrimPrefix", "bytes.CutPrefix", "bytes.HasPrefix":
				continue
			}
			why = "the result is computed by " + calleeName(call.Common())
		}
		r.check(why == "", fmt.Sprintf("%s:return #%d is a suffix of the walked path", relName(fn), n), ret.Pos(), fn, "re-slicing of the parameter only", why+": the walked spelling of the path is not kept")
	})
	r.floor("returns of trimPath", n, 2)
}

// c20r15: renderPreviewText(.., unchanged=true) means "nothing but the spinner row needs repainting": it
// prints the first line and stops without moving on. That is only right for the call that owns the top row AND
// is the last one to draw. A call after which another part of the pane is rendered passes false (round-8
// mutant C20c8 passed `unchanged` on for the fixed header lines of --preview-window ~N: on every repeated
// display of a still running command the cursor stayed on row 0, the row was wiped, and the body started there).
func c20r15(c *Ctx, r *Report) {
	l := c.L
	r.rule("C20-R15", "D (a partial render that is followed by another passes unchanged=false)", "P1",
		"in every function of package fzf, a call of Terminal.renderPreviewText from which another call of it can be reached passes the constant false as its `unchanged` argument",
		"with --preview-window ~N and a command that keeps running, the first header row is replaced by the first body line: the pane is not the output of the command")
	rpt := l.Fn("fzf", "(*Terminal).renderPreviewText")
	if rpt == nil {
		r.unest("anchors", token.NoPos, nil, "anchor Terminal.renderPreviewText", "cannot resolve")
		return
	}
	n := 0
	for _, fn := range l.AllFuncs() {
		if fn.Blocks == nil || fn.Pkg != l.pkg("fzf") {
			continue
		}
		var calls []*ssa.Call
		eachInstr(fn, func(in ssa.Instruction) {
			if call, ok := in.(*ssa.Call); ok && call.Common().StaticCallee() == rpt {
				calls = append(calls, call)
			}
		})
		for i, c1 := range calls {
			followed := false
			for _, c2 := range calls {
				if c1 != c2 && canReach(c1, c2) {
					followed = true
				}
			}
			if !followed {
				continue
			}
			n++
			v, isK := constBool(c1.Call.Args[len(c1.Call.Args)-1])
			r.check(isK && !v, fmt.Sprintf("%s:renderPreviewText call #%d (followed by another) redraws fully", relName(fn), i+1), c1.Pos(), fn,
				"unchanged=false for the part that is not the last", "the upper part of the pane is rendered with a possibly true `unchanged`: it stops after its first line and the following part overwrites it")
		}
	}
	r.floor("renderPreviewText calls followed by another", n, 1)
}

// c17r21: $FZF_DEFAULT_OPTS and the options file are split into words with go-shellwords in its plain mode:
// quotes and backslashes are honoured, nothing is EXPANDED — `$HOME`, `$(cmd)` and backticks reach fzf as typed,
// exactly as the same words would on the command line after the user's shell is done with them (round-8 mutant
// C17c8 switched ParseEnv on "so that the options file can refer to $HOME": `--bind 'ctrl-y:execute(echo $X {})'`
// had $X replaced at parse time, '\t' became t, and an escaped blank split a word).
func c17r21(c *Ctx, r *Report) {
	l := c.L
	r.rule("C17-R21", "B (who may switch on an expanding mode of the word splitter)", "P1",
		"no function of the module stores anything but the constant false into the ParseEnv or ParseBacktick field of a shellwords.Parser",
		"words of $FZF_DEFAULT_OPTS / the options file are rewritten before fzf sees them: action arguments are not preserved verbatim and the two option layers disagree with the command line")
	n, parsers := 0, 0
	for _, fn := range l.AllFuncs() {
		if fn.Blocks == nil || fn.Pkg == nil || !isModulePkg(fn.Pkg.Pkg) {
			continue
		}
		k := 0
		eachInstr(fn, func(in ssa.Instruction) {
			if call, ok := in.(*ssa.Call); ok && strings.HasSuffix(calleeName(call.Common()), "go-shellwords.NewParser") {
				parsers++
			}
			st, ok := in.(*ssa.Store)
			if !ok {
				return
			}
			fld, base := fieldOf(st.Addr)
			if fld == nil || base == nil {
				return
			}
			nn, ok := deref(base.Type()).(*types.Named)
			if !ok || nn.Obj().Pkg() == nil || !strings.HasSuffix(nn.Obj().Pkg().Path(), "go-shellwords") || nn.Obj().Name() != "Parser" {
				return
			}
			n++
			if fld.Name() != "ParseEnv" && fld.Name() != "ParseBacktick" {
				return
			}
			k++
			v, isK := constBool(st.Val)
			r.check(isK && !v, fmt.Sprintf("%s:store #%d into Parser.%s", relName(fn), k, fld.Name()), st.Pos(), fn, "the expanding mode stays off", "the word splitter is told to expand "+map[string]string{"ParseEnv": "environment variables", "ParseBacktick": "command substitutions"}[fld.Name()]+" in option words")
		})
	}
	r.ok("module:the word splitter of the option layers expands nothing", token.NoPos, nil, fmt.Sprintf("%d shellwords parsers created, %d stores into their fields, none switches ParseEnv / ParseBacktick on", parsers, n))
	r.floor("shellwords parsers created in the module", parsers, 1)
}

// reMinLen: the length of the shortest string a regular expression matches.
func reMinLen(re *syntax.Regexp) int {
	switch re.Op {
	case syntax.OpLiteral:
		return len(re.Rune)
	case syntax.OpCharClass, syntax.OpAnyChar, syntax.OpAnyCharNotNL:
		return 1
	case syntax.OpCapture:
		return reMinLen(re.Sub[0])
	case syntax.OpConcat:
		n := 0
		for _, s := range re.Sub {
			n += reMinLen(s)
		}
		return n
	case syntax.OpAlternate:
		best := -1
		for _, s := range re.Sub {
			if m := reMinLen(s); best < 0 || m < best {
				best = m
			}
		}
		return best
	case syntax.OpPlus:
		return reMinLen(re.Sub[0])
	case syntax.OpRepeat:
		return re.Min * reMinLen(re.Sub[0])
	}
	return 0 // star, quest, empty matches, anchors
}

// c11r19: nextAnsiEscapeSequence replaces the documented pattern by hand; before it tries the CSI and the OSC
// alternative it tests that enough input is left. That pre-test may not ask for MORE than the shortest sequence
// of the kind has: `ESC [ m` is 3 bytes, `ESC ] 0 ; x BEL` is 6 (round-8 mutant C11b8 asked for 7 bytes before
// trying OSC: a six-byte OSC at the end of a line was no longer removed, its payload stayed in the text).
func c11r19(c *Ctx, r *Report) {
	l := c.L
	r.rule("C11-R19", "D (a length pre-test is no stronger than the shortest sequence of its kind)", "P1",
		"in nextAnsiEscapeSequence, where the byte after ESC is tested for a CSI introducer (isCtrlSeqStart) or for ']', the strongest `i+K < len(s)` known on the path has K+1 <= the minimal length of the corresponding alternative of the documented pattern (3 for CSI, 6 for OSC; computed from the pattern with regexp/syntax)",
		"the shortest sequences of that kind at the end of a line are not recognised: their bytes stay in the searchable and printed text")
	fn := l.Fn("fzf", "nextAnsiEscapeSequence")
	ics := l.Fn("fzf", "isCtrlSeqStart")
	if fn == nil || ics == nil {
		r.unest("anchors", token.NoPos, nil, "anchors nextAnsiEscapeSequence / isCtrlSeqStart", "cannot resolve")
		return
	}
	minOf := func(p string) int {
		re, err := syntax.Parse(p, syntax.Perl)
		if err != nil {
			return -1
		}
		return reMinLen(re)
	}
	minLen := map[string]int{
		"CSI": minOf(`\x1b[\[()][0-9;:?]*[a-zA-Z@]`),
		"OSC": minOf(`\x1b][0-9]+[;:][[:print:]]+(?:\x1b\\|\x07)`),
	}
	pc := pathConds(fn)
	// s[base+1]
	afterEsc := func(v ssa.Value) ssa.Value {
		var idx ssa.Value
		switch x := v.(type) {
		case *ssa.Index:
			idx = x.Index
		case *ssa.Lookup:
			idx = x.Index
		default:
			return nil
		}
		if add, ok := idx.(*ssa.BinOp); ok && add.Op == token.ADD && isConstInt(add.Y, 1) {
			return add.X
		}
		return nil
	}
	n := 0
	eachInstr(fn, func(in ssa.Instruction) {
		kind := ""
		var base ssa.Value
		switch x := in.(type) {
		case *ssa.Call:
			if x.Common().StaticCallee() == ics {
				kind, base = "CSI", afterEsc(x.Call.Args[0])
			}
		case *ssa.BinOp:
			if x.Op == token.EQL && isConstInt(x.Y, ']') {
				kind, base = "OSC", afterEsc(x.X)
			}
		}
		if kind == "" || base == nil {
			return
		}
		n++
		// the K guaranteed on every path
		guaranteed := int64(1 << 30)
		for _, dj := range pc.At(in.Block()) {
			best := int64(-1)
			for _, lt := range dj {
				b, ok := lt.Atom.(*ssa.BinOp)
				if !ok || b.Op != token.LSS || !lt.Val {
					continue
				}
				add, ok := b.X.(*ssa.BinOp)
				if !ok || add.Op != token.ADD || add.X != base {
					continue
				}
				k, isK := constIntVal(add.Y)
				if call, isCall := b.Y.(*ssa.Call); isK && isCall && calleeName(call.Common()) == "builtin.len" && k > best {
					best = k
				}
			}
			if best < guaranteed {
				guaranteed = best
			}
		}
		key := fmt.Sprintf("%s:length pre-test of the %s alternative", relName(fn), kind)
		if guaranteed < 1 || guaranteed == 1<<30 {
			r.unest(key, in.Pos(), fn, "an `i+K < len(s)` test on every path to the introducer test", "no such test found")
			return
		}
		r.check(int(guaranteed)+1 <= minLen[kind], key, in.Pos(), fn,
			fmt.Sprintf("asks for %d bytes, the shortest %s sequence has %d", guaranteed+1, kind, minLen[kind]),
			fmt.Sprintf("asks for %d bytes although the shortest %s sequence has only %d: such a sequence at the end of the line is not recognised", guaranteed+1, kind, minLen[kind]))
	})
	r.floor("introducer tests behind a length pre-test", n, 2)
}

// c10r9: a negative field index counts from the end: -1 is the last field, so -k stands for numTokens+1-k.
// Transform normalises negative bounds in five places and they all have to add the same thing (round-8 mutant
// C07d8 wrote `end += numTokens` in the `..-N` branch only: --accept-nth ..-1 printed all fields but the last).
func c10r9(c *Ctx, r *Report) {
	l := c.L
	r.rule("C10-R9", "E (sibling agreement of the negative-index normalisations)", "P1",
		"in Transform, every addition that is executed under `bound < 0` and adds a value derived from len(tokens) to that bound adds exactly len(tokens)+1",
		"a range written with a negative end (or begin) selects one field too few or too many in one form of the expression only")
	fn := l.Fn("fzf", "Transform")
	if fn == nil {
		r.unest("anchors", token.NoPos, nil, "anchor Transform", "cannot resolve")
		return
	}
	tokens := fn.Params[0]
	isLenTokens := func(v ssa.Value) bool {
		call, ok := v.(*ssa.Call)
		if !ok || calleeName(call.Common()) != "builtin.len" {
			return false
		}
		return call.Call.Args[0] == ssa.Value(tokens)
	}
	fromLen := func(v ssa.Value) bool {
		for w := range backwardSlice(v, nil, nil) {
			if isLenTokens(w) {
				return true
			}
		}
		return false
	}
	cc := cdCache{}
	n := 0
	eachInstr(fn, func(in ssa.Instruction) {
		add, ok := in.(*ssa.BinOp)
		if !ok || add.Op != token.ADD {
			return
		}
		for _, pr := range [][2]ssa.Value{{add.X, add.Y}, {add.Y, add.X}} {
			bound, other := pr[0], pr[1]
			if !fromLen(other) || fromLen(bound) {
				continue
			}
			// executed under `bound < 0`
			under := false
			for cond := range cc.of(add) {
				if x, op, k, ok := cmpInt(cond); ok && x == bound && op == token.LSS && k == 0 {
					under = true
				}
			}
			if !under {
				continue
			}
			n++
			good := false
			if o, ok := other.(*ssa.BinOp); ok && o.Op == token.ADD {
				good = isLenTokens(o.X) && isConstInt(o.Y, 1) || isLenTokens(o.Y) && isConstInt(o.X, 1)
			}
			r.check(good, fmt.Sprintf("%s:normalisation #%d of a negative bound", relName(fn), n), add.Pos(), fn,
				"adds len(tokens)+1", "adds "+describe(other)+" instead of len(tokens)+1: -1 no longer denotes the last field in this form of the range")
		}
	})
	r.floor("normalisations of negative bounds in Transform", n, 5)
}

// c03r9: the score of a single-character term is the best of ALL its occurrences (16 + twice the bonus of the
// position). The first-row scan of FuzzyMatchV2 may stop early only at an occurrence nothing later can beat,
// i.e. one that carries the largest bonus the active scheme hands out — which is the larger of the two
// scheme-dependent boundary bonuses, not the constant threshold bonusBoundary (D59: it stopped at the first
// occurrence with bonus >= bonusBoundary; `b` in "a-b b" scored 32 forward and 36 backward, and the line ranked
// below "xa/b" (34)).
func c03r9(c *Ctx, r *Report) {
	l := c.L
	r.rule("C03-R9", "A (an early exit of a maximising scan is taken only at the maximum)", "P1",
		"in FuzzyMatchV2, every edge that leaves a loop under a `bonus >= X` test of a value read from the bonus matrix has an X computed from both algo.bonusBoundaryWhite and algo.bonusBoundaryDelimiter (the largest bonus of the scheme), not a constant",
		"a single-character term is scored at its first boundary occurrence although a later one scores higher: the score is not the maximum of the recurrence and differs between the scan directions")
	fn := l.Fn("algo", "FuzzyMatchV2")
	gw, gd := l.Global("algo", "bonusBoundaryWhite"), l.Global("algo", "bonusBoundaryDelimiter")
	gm := l.Global("algo", "bonusMatrix")
	if fn == nil || gw == nil || gd == nil || gm == nil {
		r.unest("anchors", token.NoPos, nil, "anchors FuzzyMatchV2 / bonusBoundaryWhite / bonusBoundaryDelimiter / bonusMatrix", "cannot resolve")
		return
	}
	fromMatrix := func(v ssa.Value) bool {
		for w := range backwardSlice(v, nil, nil) {
			if w == ssa.Value(gm) {
				return true
			}
			if ia, ok := w.(*ssa.IndexAddr); ok && addrRoot(ia) == ssa.Value(gm) {
				return true
			}
		}
		return false
	}
	n, exits := 0, 0
	for _, lp := range natLoops(fn) {
		var blocks []*ssa.BasicBlock
		for bb := range lp.body {
			blocks = append(blocks, bb)
		}
		sort.Slice(blocks, func(i, j int) bool { return blocks[i].Index < blocks[j].Index })
		for _, bb := range blocks {
			iff, ok := bb.Instrs[len(bb.Instrs)-1].(*ssa.If)
			if !ok || (lp.body[bb.Succs[0]] && lp.body[bb.Succs[1]]) {
				continue
			}
			exits++
			b, ok := iff.Cond.(*ssa.BinOp)
			if !ok || (b.Op != token.GEQ && b.Op != token.GTR) || !fromMatrix(b.X) {
				continue
			}
			n++
			hasW, hasD := false, false
			for w := range backwardSlice(b.Y, func(*ssa.CallCommon) bool { return true }, nil) {
				if u, ok := w.(*ssa.UnOp); ok && u.Op == token.MUL {
					hasW = hasW || u.X == ssa.Value(gw)
					hasD = hasD || u.X == ssa.Value(gd)
				}
			}
			r.check(hasW && hasD, fmt.Sprintf("%s:early exit #%d on a bonus test", relName(fn), n), iff.Pos(), fn,
				"taken only at the largest bonus of the scheme", "the scan stops at a bonus of "+describe(b.Y)+" or more although a later occurrence can carry a larger one")
		}
	}
	r.floor("loop exits of FuzzyMatchV2 inspected", exits, 4)
	r.floor("early exits on a bonus test", n, 1)
}

// c19r13: which byte separates path components is the platform's business (os.IsPathSeparator,
// os.PathSeparator). On Unix a backslash is an ordinary file-name character, so the walker's path handling
// must not treat the constant '\\' as a separator (D60: trimPath stripped a leading `.\` on every platform; the
// entry `.\file` was listed as `file`, the hidden directory `.\bs` was walked as `bs/`).
func c19r13(c *Ctx, r *Report) {
	l := c.L
	r.rule("C19-R13", "D (separators are classified by the os package)", "P1",
		"in trimPath and in Reader.readFiles with its callbacks, no byte of a path is compared with the constant backslash",
		"on Unix, entries whose names contain a backslash are listed under names that do not exist, and the hidden / skip tests run on the mangled name")
	var fns []*ssa.Function
	for _, name := range []string{"trimPath", "(*Reader).readFiles"} {
		if f := l.Fn("fzf", name); f != nil {
			fns = append(fns, withClosures(f)...)
		}
	}
	if len(fns) < 2 {
		r.unest("anchors", token.NoPos, nil, "anchors trimPath / Reader.readFiles", "cannot resolve")
		return
	}
	n := 0
	for _, fn := range fns {
		k := 0
		eachInstr(fn, func(in ssa.Instruction) {
			b, ok := in.(*ssa.BinOp)
			if !ok || (b.Op != token.EQL && b.Op != token.NEQ) {
				return
			}
			for _, pr := range [][2]ssa.Value{{b.X, b.Y}, {b.Y, b.X}} {
				kk, isK := constIntVal(pr[1])
				if !isK {
					continue
				}
				bt, ok := pr[0].Type().Underlying().(*types.Basic)
				if !ok || (bt.Kind() != types.Uint8 && bt.Kind() != types.Int32) {
					continue
				}
				n++
				if kk == '\\' {
					k++
					r.bad(fmt.Sprintf("%s:comparison #%d of a path byte with a backslash", relName(fn), k), b.Pos(), fn, "separators are recognised by os.IsPathSeparator", "a byte of the path is compared with '\\\\' on every platform: on Unix that is an ordinary character of a file name")
				}
			}
		})
	}
	r.ok("walker:no path byte is compared with a backslash", token.NoPos, nil, fmt.Sprintf("%d comparisons of path bytes with constants in %d functions, none with a backslash", n, len(fns)))
	r.floor("comparisons of path bytes with constants in the walker", n, 1)
}

// c11r20: ansiState.ToString renders the carried state as a string that the --with-nth builder puts IN FRONT
// of the next field's text. Whatever it emits therefore has to consist of complete sequences: a piece that
// ends in a bare ESC, or an OSC without its terminator, combines with the first characters of the text
// (D61: the string ended in `ESC ] 8 ; ; ESC`; a field beginning with a backslash completed it to the string
// terminator `ESC \`: the backslash vanished from the searchable text and the link was closed).
func c11r20(c *Ctx, r *Report) {
	l := c.L
	r.rule("C11-R20", "D (the state prefix consists of complete sequences)", "P1",
		"no string constant used by ansiState.ToString ends in ESC, and every `ESC ]` in such a constant is followed, in the same constant, by its terminator (ESC \\ or BEL)",
		"the first character(s) of a --with-nth field are swallowed by the unterminated sequence in front of it: text that follows a sequence is removed from the searchable and printed text")
	fn := l.Fn("fzf", "(*ansiState).ToString")
	if fn == nil {
		r.unest("anchors", token.NoPos, nil, "anchor ansiState.ToString", "cannot resolve")
		return
	}
	n := 0
	why := ""
	eachInstr(fn, func(in ssa.Instruction) {
		var buf [12]*ssa.Value
		for _, op := range in.Operands(buf[:0]) {
			if op == nil || *op == nil {
				continue
			}
			str, ok := constString(*op)
			if !ok || !strings.Contains(str, "\x1b") {
				continue
			}
			n++
			if strings.HasSuffix(str, "\x1b") {
				why = fmt.Sprintf("the constant %q ends in a bare ESC", str)
			}
			rest := str
			for {
				i := strings.Index(rest, "\x1b]")
				if i < 0 {
					break
				}
				rest = rest[i+2:]
				t1, t2 := strings.Index(rest, "\x1b\\"), strings.Index(rest, "\a")
				if t1 < 0 && t2 < 0 {
					why = fmt.Sprintf("the constant %q opens an OSC that it does not terminate", str)
					break
				}
			}
		}
	})
	r.check(why == "", relName(fn)+":the rendered state ends in a complete sequence", fn.Pos(), fn, fmt.Sprintf("%d constants with escape sequences, all complete", n), why)
	r.floor("string constants with escape sequences in ansiState.ToString", n, 2)
}

// c10r10: the argument of a bound action (action.a) is what the user wrote in --bind; `change-nth(2|3|..)`
// rotates it so that the next trigger takes the next expression. The transform-* variant of an action runs the
// argument as a command and works on its OUTPUT — and the output must never be written back over the command
// (D62: the rotation in the shared case body also ran for transform-nth: after the first trigger the binding's
// command was replaced by the rotated output, which the next trigger handed to the shell).
func c10r10(c *Ctx, r *Report) {
	l := c.L
	r.rule("C10-R10", "D (what may be written into a bound action's argument)", "P1",
		"in Terminal.Loop and its closures, a store into action.a whose value is computed from the result of captureLine / captureLines / executeCommand is only reached under a test of action.t that excludes the action type under which that command was run",
		"after the first trigger a transform-nth binding no longer runs its command: it runs the command's previous output as a shell command and selects the wrong fields")
	loop := l.Fn("fzf", "(*Terminal).Loop")
	act := l.Named("fzf", "action")
	if loop == nil || act == nil {
		r.unest("anchors", token.NoPos, nil, "anchors Terminal.Loop / action", "cannot resolve")
		return
	}
	isCapture := func(call *ssa.Call) bool {
		cal := call.Common().StaticCallee()
		if cal == nil {
			return false
		}
		switch cal.Name() {
		case "captureLine", "captureLines", "executeCommand":
			return true
		}
		return false
	}
	// the constant an `a.t == K` test compares with (K, polarity of "equal")
	typeTest := func(atom ssa.Value) (int64, bool, bool) {
		b, ok := atom.(*ssa.BinOp)
		if !ok || (b.Op != token.EQL && b.Op != token.NEQ) {
			return 0, false, false
		}
		for _, pr := range [][2]ssa.Value{{b.X, b.Y}, {b.Y, b.X}} {
			k, isK := constIntVal(pr[1])
			if !isK {
				continue
			}
			if fld, base := loadedField(pr[0]); fld != nil && fld.Name() == "t" && base != nil {
				if nn, ok := deref(base.Type()).(*types.Named); ok && nn.Obj() == act.Obj() {
					return k, b.Op == token.EQL, true
				}
			}
		}
		return 0, false, false
	}
	n, fromOutput := 0, 0
	for _, fn := range withClosures(loop) {
		var pc *PathConds
		k := 0
		eachInstr(fn, func(in ssa.Instruction) {
			st, ok := in.(*ssa.Store)
			if !ok {
				return
			}
			fld, base := fieldOf(st.Addr)
			if fld == nil || fld.Name() != "a" || base == nil {
				return
			}
			if nn, ok := deref(base.Type()).(*types.Named); !ok || nn.Obj() != act.Obj() {
				return
			}
			n++
			var caps []*ssa.Call
			for w := range backwardSlice(st.Val, func(cc *ssa.CallCommon) bool { return true }, nil) {
				if call, ok := w.(*ssa.Call); ok && isCapture(call) {
					caps = append(caps, call)
				}
			}
			if len(caps) == 0 {
				return
			}
			fromOutput++
			k++
			if pc == nil {
				pc = pathConds(fn)
			}
			// per disjunct: the type the action is known to have (two loads of a.t are the same variable: nothing
			// stores action.t in the loop), nil if the disjunct contradicts itself
			typeOf := func(dj []Lit) (eq *int64, neq map[int64]bool, feasible bool) {
				neq = map[int64]bool{}
				feasible = true
				for _, lt := range dj {
					kk, isEq, ok := typeTest(lt.Atom)
					if !ok {
						continue
					}
					if isEq == lt.Val {
						if eq != nil && *eq != kk {
							feasible = false
						}
						v := kk
						eq = &v
					} else {
						neq[kk] = true
					}
				}
				if eq != nil && neq[*eq] {
					feasible = false
				}
				return
			}
			ran := map[int64]bool{}
			known := true
			for _, cp := range caps {
				for _, dj := range pc.At(cp.Block()) {
					eq, _, feas := typeOf(dj)
					if !feas {
						continue
					}
					if eq == nil {
						known = false
					} else {
						ran[*eq] = true
					}
				}
			}
			excluded := known && len(ran) > 0
			for _, dj := range pc.At(st.Block()) {
				eq, neq, feas := typeOf(dj)
				if !feas {
					continue
				}
				ex := false
				if eq != nil && !ran[*eq] {
					ex = true
				}
				if eq == nil {
					all := true
					for kk := range ran {
						if !neq[kk] {
							all = false
						}
					}
					ex = all
				}
				if !ex {
					excluded = false
				}
			}
			r.check(excluded, fmt.Sprintf("%s:store #%d into action.a of a value that can come from a command's output", relName(rootFn(fn)), k), st.Pos(), fn,
				"reached only for the action type that did not run a command", "the output of the action's command can be written back over the command itself")
		})
	}
	// the reasoning above identifies all loads of action.t of one action: nothing in the loop may assign it
	tStores := 0
	for _, fn := range withClosures(loop) {
		eachInstr(fn, func(in ssa.Instruction) {
			if st, ok := in.(*ssa.Store); ok {
				if fld, base := fieldOf(st.Addr); fld != nil && fld.Name() == "t" && base != nil {
					if nn, ok := deref(base.Type()).(*types.Named); ok && nn.Obj() == act.Obj() {
						if _, isAlloc := addrRoot(base).(*ssa.Alloc); !isAlloc {
							tStores++
						}
					}
				}
			}
		})
	}
	r.check(tStores == 0, relName(loop)+":the type of a bound action is never reassigned", loop.Pos(), loop, "no store into action.t of an existing action", fmt.Sprintf("%d stores into action.t: two reads of it need not agree", tStores))
	r.floor("stores into action.a in Terminal.Loop", n, 2)
	r.floor("... of a value that may come from a command's output", fromOutput, 1)
}

// c14r18: Terminal.constrain is what keeps the scroll offset inside the list. A handler may compute a raw
// offset, call constrain and look at what came out — but if it then writes the RAW value back (the value it had
// read before constrain corrected it), constrain has to run again before the handler ends: the next action of the
// same list reads the offset as it stands (D63: offset-down at the top of the list restored -1; page-up, next in
// the action list, called Merger.Get(-1) in multi-line mode: panic with the terminal in raw mode).
func c14r18(c *Ctx, r *Report) {
	l := c.L
	r.rule("C14-R18", "A (a raw offset written back is constrained again before the handler returns)", "P1",
		"in Terminal.Loop and its closures: where a value loaded from Terminal.offset after an arithmetic store into it (no constrain in between) is stored back into Terminal.offset after a call of constrain, every path from that store to a return passes another call of constrain",
		"an offset outside the list (-1) survives the handler; the next action of the same list indexes the result list with it: panic, terminal left in raw mode")
	loop := l.Fn("fzf", "(*Terminal).Loop")
	cons := l.Fn("fzf", "(*Terminal).constrain")
	fOff := l.Field("fzf", "Terminal", "offset")
	if loop == nil || cons == nil || fOff == nil {
		r.unest("anchors", token.NoPos, nil, "anchors Terminal.Loop / constrain / Terminal.offset", "cannot resolve")
		return
	}
	isCons := func(in ssa.Instruction) bool { return staticCallee(in) == cons }
	n, raw := 0, 0
	for _, fn := range withClosures(loop) {
		var stores []*ssa.Store
		eachInstr(fn, func(in ssa.Instruction) {
			if st, ok := in.(*ssa.Store); ok {
				if fld, _ := fieldOf(st.Addr); fld == fOff {
					stores = append(stores, st)
				}
			}
		})
		k := 0
		for _, st := range stores {
			n++
			ld, ok := st.Val.(*ssa.UnOp)
			if !ok || ld.Op != token.MUL {
				continue
			}
			if fld, _ := fieldOf(ld.X); fld != fOff {
				continue
			}
			// is the loaded value a raw one: an arithmetic store reaches the load with no constrain in between
			isRaw := false
			for _, s0 := range stores {
				if _, isArith := s0.Val.(*ssa.BinOp); !isArith {
					continue
				}
				if hit := pathAvoiding(s0, func(i ssa.Instruction) bool { return i == ssa.Instruction(ld) }, isCons, nil); hit != nil {
					isRaw = true
				}
			}
			// ... and constrain ran between the load and the store-back
			between := false
			if isRaw {
				if hit := pathAvoiding(ld, func(i ssa.Instruction) bool { return i == ssa.Instruction(st) }, isCons, nil); hit == nil {
					between = true
				}
			}
			if !isRaw || !between {
				continue
			}
			raw++
			k++
			hit := pathAvoiding(st, isReturn, isCons, nil)
			r.check(hit == nil, fmt.Sprintf("%s:raw offset written back #%d is constrained again", relName(rootFn(fn)), k), st.Pos(), fn,
				"constrain runs again before the handler returns", "the offset that constrain had corrected is put back and the handler returns without constraining it again")
		}
	}
	r.floor("stores into Terminal.offset in Terminal.Loop", n, 3)
	r.floor("... that write a raw offset back after constrain", raw, 1)
}

// c16r19: a POST is complete when Content-Length bytes of body have arrived. The scanner delivers the body in
// CRLF-terminated pieces; after each piece the handler has to ask whether that was all, because asking the
// scanner for another token blocks until the client sends more or the read deadline expires — and the server
// handles one connection at a time (D64: a body ending in CRLF was answered after the 10 s deadline, every
// other client waited behind it; an unauthenticated client could do that).
func c16r19(c *Ctx, r *Report) {
	l := c.L
	r.rule("C16-R19", "A (must-pass-through between two reads of the body)", "P1",
		"in httpServer.handleHttpRequest, every path from the statement that appends a token to the body to the next call of bufio.Scanner.Scan passes a branch on a comparison of len(body) with the announced content length",
		"a complete request is answered only when the read deadline expires; the serial listener is blocked for every other client in the meantime")
	fn := l.Fn("fzf", "(*httpServer).handleHttpRequest")
	if fn == nil {
		r.unest("anchors", token.NoPos, nil, "anchor httpServer.handleHttpRequest", "cannot resolve")
		return
	}
	// the cells: body (string, appended to) and contentLength (int, assigned from Atoi)
	var bodyCell, clCell *ssa.Alloc
	for _, f := range withClosures(fn) {
		eachInstr(f, func(in ssa.Instruction) {
			al, ok := in.(*ssa.Alloc)
			if !ok {
				return
			}
			switch al.Comment {
			case "body":
				bodyCell = al
			case "contentLength":
				clCell = al
			}
		})
	}
	if bodyCell == nil || clCell == nil {
		r.unest(relName(fn)+":cells", fn.Pos(), fn, "the body and content-length variables", "cannot find the variables")
		return
	}
	loadsOf := func(v ssa.Value, cell *ssa.Alloc) bool {
		for w := range backwardSlice(v, nil, func(x ssa.Value) bool { _, isAlloc := x.(*ssa.Alloc); return isAlloc }) {
			if u, ok := w.(*ssa.UnOp); ok && u.Op == token.MUL && u.X == ssa.Value(cell) {
				return true
			}
		}
		return false
	}
	isTest := func(in ssa.Instruction) bool {
		iff, ok := in.(*ssa.If)
		if !ok {
			return false
		}
		b, ok := iff.Cond.(*ssa.BinOp)
		if !ok {
			return false
		}
		return loadsOf(b.X, bodyCell) && loadsOf(b.Y, clCell) || loadsOf(b.Y, bodyCell) && loadsOf(b.X, clCell)
	}
	isScan := func(in ssa.Instruction) bool {
		call, ok := in.(*ssa.Call)
		return ok && calleeName(call.Common()) == "(*bufio.Scanner).Scan"
	}
	n := 0
	eachInstr(fn, func(in ssa.Instruction) {
		st, ok := in.(*ssa.Store)
		if !ok || st.Addr != ssa.Value(bodyCell) {
			return
		}
		add, ok := st.Val.(*ssa.BinOp)
		if !ok || add.Op != token.ADD {
			return
		}
		n++
		hit := pathAvoiding(st, isScan, isTest, nil)
		r.check(hit == nil, fmt.Sprintf("%s:append #%d to the body is followed by a completeness test", relName(fn), n), st.Pos(), fn,
			"the next token is only requested after len(body) was compared with the content length", "after a piece of the body has been appended the scanner is asked for more without checking whether the body is already complete")
	})
	r.floor("appends to the request body", n, 1)
}

// c17r22: key names are case-insensitive: parseKeyChordsImpl lower-cases the name (lkey) and validates the
// letter of `ctrl-X` / `ctrl-alt-X` on the lower-cased copy. The letter that ends up in the event has to be read
// from that same copy (D65: `ctrl-alt-A` was validated as lkey[9] but bound as key[9] = 'A'; the key decoder only
// ever reports the lower-case letter, so the binding was accepted and could never fire).
func c17r22(c *Ctx, r *Report) {
	l := c.L
	r.rule("C17-R22", "E (the character that was validated is the character that is used)", "P1",
		"in parseKeyChordsImpl, where a block is reached under a test f(S[k]) of the character at a constant index k of the lower-cased key name S = strings.ToLower(key), no character at the same index k is read from the original-case key",
		"a key name written with a capital letter is accepted but bound to an event that the terminal never reports: the key silently does nothing")
	fn := l.Fn("fzf", "parseKeyChordsImpl")
	if fn == nil {
		r.unest("anchors", token.NoPos, nil, "anchor parseKeyChordsImpl", "cannot resolve")
		return
	}
	type idx struct {
		s ssa.Value
		k int64
	}
	charAt := func(v ssa.Value) (idx, bool) {
		v = stripConv(v)
		var x, i ssa.Value
		switch t := v.(type) {
		case *ssa.Index:
			x, i = t.X, t.Index
		case *ssa.Lookup:
			x, i = t.X, t.Index
		default:
			return idx{}, false
		}
		k, isK := constIntVal(i)
		if !isK {
			return idx{}, false
		}
		return idx{x, k}, true
	}
	lowerOf := func(s ssa.Value) ssa.Value {
		if call, ok := s.(*ssa.Call); ok && calleeName(call.Common()) == "strings.ToLower" {
			return call.Call.Args[0]
		}
		return nil
	}
	pc := pathConds(fn)
	n, validated := 0, 0
	eachInstr(fn, func(in ssa.Instruction) {
		v, ok := in.(ssa.Value)
		if !ok {
			return
		}
		use, ok := charAt(v)
		if !ok {
			return
		}
		n++
		if lowerOf(use.s) != nil {
			return // read from the lower-cased copy
		}
		// is the block reached under a test of lower(use.s)[use.k] ?
		bad := ""
		for _, dj := range pc.At(in.Block()) {
			for _, lt := range dj {
				call, ok := lt.Atom.(*ssa.Call)
				if !ok || !lt.Val {
					continue
				}
				for _, a := range call.Call.Args {
					t, ok := charAt(a)
					if !ok || t.k != use.k {
						continue
					}
					if orig := lowerOf(t.s); orig != nil && (orig == use.s || sameCellLoads(orig, use.s)) {
						bad = fmt.Sprintf("%s validated the lower-cased character at index %d (%s)", calleeName(call.Common()), t.k, l.pos(call.Pos()))
					}
				}
			}
		}
		if bad != "" {
			validated++
			r.bad(fmt.Sprintf("%s:character #%d of the key name is used as validated", relName(fn), use.k), in.Pos(), fn, "the validated (lower-cased) character is the one that is used", bad+", but the character is read from the original-case name")
		}
	})
	// positive count: reads of validated characters from the lower-cased copy
	good := 0
	eachInstr(fn, func(in ssa.Instruction) {
		v, ok := in.(ssa.Value)
		if !ok {
			return
		}
		if use, ok := charAt(v); ok && lowerOf(use.s) != nil {
			good++
		}
	})
	r.ok(relName(fn)+":validated characters are read from the lower-cased name", fn.Pos(), fn, fmt.Sprintf("%d constant-index character reads, %d of them from the lower-cased name, none reads the original-case name where the lower-cased character was validated", n, good))
	r.floor("constant-index character reads from the lower-cased key name", good, 3)
}

// c17r23: isExecuteAction says "this spec is NAME followed by a delimited argument". It learns that an
// argument was masked SOMEWHERE in the spec, and takes the name from the leading letters — so it also has to
// look at the character right after the name: that is where the argument of THIS action must begin (D66:
// `a:execute1:reload(x)+up` was masked because of the reload that follows; `execute1` was accepted as execute
// with the argument `:reload(x`, which was then really run as a shell command).
func c17r23(c *Ctx, r *Report) {
	l := c.L
	r.rule("C17-R23", "A (every positive answer is dominated by a test of the character after the name)", "P1",
		"in isExecuteAction, every return of an action type other than actIgnore is dominated by a branch whose condition depends on the character of the spec at the index len(<matched name>)",
		"a misspelt action name followed by a real action with an argument is bound as the first action with a garbage argument, which may then be executed")
	fn := l.Fn("fzf", "isExecuteAction")
	ign := l.Const("fzf", "actIgnore")
	if fn == nil || ign == nil || len(fn.Params) != 1 {
		r.unest("anchors", token.NoPos, nil, "anchors isExecuteAction / actIgnore", "cannot resolve")
		return
	}
	ignV, _ := constInt(ign)
	str := fn.Params[0]
	// the character after the name: str[len(x)] with x derived from a regexp FindString result
	isAfterName := func(v ssa.Value) bool {
		var x, i ssa.Value
		switch t := v.(type) {
		case *ssa.Index:
			x, i = t.X, t.Index
		case *ssa.Lookup:
			x, i = t.X, t.Index
		default:
			return false
		}
		if x != ssa.Value(str) {
			return false
		}
		for w := range backwardSlice(i, nil, nil) {
			if call, ok := w.(*ssa.Call); ok && calleeName(call.Common()) == "builtin.len" {
				for w2 := range backwardSlice(call.Call.Args[0], nil, nil) {
					if c2, ok := w2.(*ssa.Call); ok && strings.HasSuffix(calleeName(c2.Common()), ".FindString") {
						return true
					}
				}
			}
		}
		return false
	}
	var tests []*ssa.If
	eachInstr(fn, func(in ssa.Instruction) {
		iff, ok := in.(*ssa.If)
		if !ok {
			return
		}
		for w := range backwardSlice(iff.Cond, func(*ssa.CallCommon) bool { return true }, nil) {
			if isAfterName(w) {
				tests = append(tests, iff)
				return
			}
		}
	})
	n := 0
	eachInstr(fn, func(in ssa.Instruction) {
		ret, ok := in.(*ssa.Return)
		if !ok || len(ret.Results) != 1 {
			return
		}
		k, isK := constIntVal(retResult(ret, 0))
		if isK && k == ignV {
			return
		}
		n++
		dom := false
		for _, t := range tests {
			if t.Block() != ret.Block() && t.Block().Dominates(ret.Block()) {
				dom = true
			}
		}
		if !dom {
			r.bad(fmt.Sprintf("%s:positive return #%d follows a look at the character after the name", relName(fn), n), ret.Pos(), fn, "the argument begins right after the name", "an action type is returned without looking at the character that follows the matched name")
		}
	})
	if len(tests) > 0 {
		r.ok(relName(fn)+":the character after the name is tested", tests[0].Pos(), fn, fmt.Sprintf("%d positive returns, all dominated by the test of str[len(name)]", n))
	}
	r.floor("positive returns of isExecuteAction", n, 20)
}

// c05r17: match offsets count CHARACTERS. A position that is compared with them has to be found by walking
// the characters of the line (Chars.Get over Chars.Length), not the bytes of its string form: the two agree for
// ASCII lines (held as bytes) and differ for every other line (D67: the pathname criterion located the last
// separator as a byte index of Chars.ToString(); `éé/foo-long-name.txt` lost its "match is in the file name"
// rank against `foo/x.txt`, `ee/foo-long-name.txt` did not).
func c05r17(c *Ctx, r *Report) {
	l := c.L
	r.rule("C05-R17", "D (positions used for sort keys are character positions)", "P1",
		"in buildResult, no element of a string returned by Chars.ToString is read at a variable index (a byte position); positions are taken with Chars.Get",
		"the sort key of a line depends on whether it is held as bytes or as runes: a path with an accented directory name ranks differently from the same path without the accent")
	fn := l.Fn("fzf", "buildResult")
	if fn == nil {
		r.unest("anchors", token.NoPos, nil, "anchor buildResult", "cannot resolve")
		return
	}
	n, gets := 0, 0
	eachInstr(fn, func(in ssa.Instruction) {
		if call, ok := in.(*ssa.Call); ok && strings.HasSuffix(calleeName(call.Common()), "util.Chars).Get") {
			gets++
		}
		var x, i ssa.Value
		switch t := in.(type) {
		case *ssa.Index:
			x, i = t.X, t.Index
		case *ssa.Lookup:
			x, i = t.X, t.Index
		default:
			return
		}
		if _, isK := constIntVal(i); isK {
			return
		}
		fromToString := false
		for w := range backwardSlice(x, nil, nil) {
			if call, ok := w.(*ssa.Call); ok && strings.HasSuffix(calleeName(call.Common()), "util.Chars).ToString") {
				fromToString = true
			}
		}
		if !fromToString {
			return
		}
		n++
		r.bad(fmt.Sprintf("%s:byte position #%d in the string form of the line", relName(fn), n), in.(ssa.Instruction).Pos(), fn, "positions are character positions", "a byte of Chars.ToString() is read at a variable index: that index is a byte position, the match offsets it is combined with are character positions")
	})
	r.ok(relName(fn)+":positions are taken with Chars.Get", fn.Pos(), fn, fmt.Sprintf("%d calls of Chars.Get, no variable index into the string form", gets))
	r.floor("calls of Chars.Get in buildResult", gets, 4)
}

// accentTable returns the constant entries of the map stored into the package-level variable g.
func accentTable(l *Loaded, g *ssa.Global) map[rune]rune {
	out := map[rune]rune{}
	for _, f := range l.AllFuncs() {
		eachInstr(f, func(in ssa.Instruction) {
			mu, ok := in.(*ssa.MapUpdate)
			if !ok {
				return
			}
			isTab := false
			if mm, ok := mu.Map.(*ssa.MakeMap); ok && mm.Referrers() != nil {
				for _, ref := range *mm.Referrers() {
					if st, ok := ref.(*ssa.Store); ok && st.Addr == ssa.Value(g) {
						isTab = true
					}
				}
			}
			if !isTab {
				return
			}
			k, ok1 := constIntVal(mu.Key)
			v, ok2 := constIntVal(mu.Value)
			if ok1 && ok2 {
				out[rune(k)] = rune(v)
			}
		})
	}
	return out
}

// c01r12: all matchers fold case first and accents second. For a case-INSENSITIVE term the text is
// lower-cased before the table is consulted, so the small letters suffice; for a case-sensitive term (smart case
// with a capital, +i) the text is looked up as it is, so a capital has to be in the table whenever its small
// letter is — otherwise `Sk` finds `Skoda` and `škoda`'s sibling `Škoda` is dropped although `sk` finds it (D68:
// 174 capitals of Latin Extended-A/B were missing: Š Č Ž Ł Ś Ğ Ş Ő Ű Ā Ē Ī Ō Ū ...).
func c01r12(c *Ctx, r *Report) {
	l := c.L
	r.rule("C01-R12", "E (the accent table is closed under case)", "P1",
		"for every character U inside the range the readers admit (0x00C0..0x2184) whose lower-case form k = unicode.ToLower(U) is a different character that algo.normalized maps to a letter v in a..z, the table also has U -> unicode.ToUpper(v)",
		"a case-sensitive term drops lines whose capital letter carries an accent although the same term in lower case finds them: a matching line is not shown")
	g := l.Global("algo", "normalized")
	if g == nil {
		r.unest("anchors", token.NoPos, nil, "anchor algo.normalized", "cannot resolve")
		return
	}
	tab := accentTable(l, g)
	var ks []int
	for k := range tab {
		ks = append(ks, int(k))
	}
	sort.Ints(ks)
	pairs, missing := 0, []string{}
	_ = ks
	// every capital U inside the admitted range whose small letter is an entry (a small letter can have more than
	// one capital: U+00E5 has U+00C5 and the Angstrom sign U+212B, U+00DF has U+1E9E)
	for u := rune(0x00C0); u <= 0x2184; u++ {
		k := unicode.ToLower(u)
		if k == u {
			continue
		}
		v, isEntry := tab[k]
		if !isEntry || v < 'a' || v > 'z' {
			continue
		}
		pairs++
		if got, ok := tab[u]; !ok {
			missing = append(missing, fmt.Sprintf("%c (U+%04X, capital of %c)", u, u, k))
		} else if got != unicode.ToUpper(v) {
			missing = append(missing, fmt.Sprintf("%c maps to %c, not to %c", u, got, unicode.ToUpper(v)))
		}
	}
	if len(missing) > 0 {
		show := missing
		if len(show) > 12 {
			show = show[:12]
		}
		r.bad("algo.normalized:capitals of the table's small letters", g.Pos(), nil, "closed under case", fmt.Sprintf("%d capitals are not normalised although their small letters are: %s ...", len(missing), strings.Join(show, ", ")))
	} else {
		r.ok("algo.normalized:capitals of the table's small letters", g.Pos(), nil, fmt.Sprintf("%d entries, %d small letters with a capital inside the admitted range, every capital is an entry with the capital base letter", len(tab), pairs))
	}
	r.floor("entries of the accent table", len(tab), 400)
	r.floor("small letters of the table that have a capital", pairs, 150)
}

// c01r13: "the term itself carries an accent" is asked of the text that is going to be MATCHED. For a
// case-sensitive term that is the text as typed, and a capital can carry an accent that its lower-case form does
// not (İ lower-cases to plain i; Ⱥ and Ⱦ to letters outside the table) — so the test on the lower-cased copy
// alone is not enough (D69: `İst` was taken for unaccented, rewritten to `Ist`, and matched `Istanbul`).
func c01r13(c *Ctx, r *Report) {
	l := c.L
	r.rule("C01-R13", "D (the accent test reads the text that is matched)", "P1",
		"in parseTerms and in the --no-extended arm of BuildPattern, the value that becomes the normalize flag depends on a call of algo.NormalizeRunes whose argument is derived from the term text WITHOUT passing through strings.ToLower",
		"a term written with an accented capital is normalised although it carries an accent: lines that only contain the bare letter are shown")
	nr := l.Fn("algo", "NormalizeRunes")
	if nr == nil {
		r.unest("anchors", token.NoPos, nil, "anchor algo.NormalizeRunes", "cannot resolve")
		return
	}
	n := 0
	for _, name := range []string{"parseTerms", "BuildPattern"} {
		fn := l.Fn("fzf", name)
		if fn == nil {
			r.unest("anchors:"+name, token.NoPos, nil, "anchor "+name, "cannot resolve")
			continue
		}
		// comparisons `x == string(NormalizeRunes([]rune(x)))`: classify by whether x went through ToLower
		lowered, asTyped := 0, 0
		eachInstr(fn, func(in ssa.Instruction) {
			b, ok := in.(*ssa.BinOp)
			if !ok || b.Op != token.EQL {
				return
			}
			var call *ssa.Call
			for _, side := range []ssa.Value{b.X, b.Y} {
				for w := range backwardSlice(side, func(cc *ssa.CallCommon) bool { return cc.StaticCallee() != nr }, nil) {
					if cl, ok := w.(*ssa.Call); ok && cl.Common().StaticCallee() == nr {
						call = cl
					}
				}
			}
			if call == nil {
				return
			}
			viaLower := false
			for w := range backwardSlice(call.Call.Args[0], func(*ssa.CallCommon) bool { return true }, nil) {
				if cl, ok := w.(*ssa.Call); ok && calleeName(cl.Common()) == "strings.ToLower" {
					viaLower = true
				}
			}
			if viaLower {
				lowered++
			} else {
				asTyped++
			}
		})
		if lowered+asTyped == 0 {
			continue
		}
		n++
		r.check(asTyped > 0, relName(fn)+":the accent test also reads the text as typed", fn.Pos(), fn,
			fmt.Sprintf("%d comparison(s) with the normalised form of the typed text, %d with that of the lower-cased text", asTyped, lowered),
			"the term is compared with its normalised form only after lower-casing: an accent that the capital carries and its lower-case form does not is missed")
	}
	r.floor("functions that decide whether a term carries an accent", n, 2)
}

// c15r16: the prompt scrolls horizontally only when the query does not fit. Terminal.xoffset is kept from one
// call to the next (so that the view does not jump while the cursor moves inside a long query); the bounds it is
// clamped to therefore have to know whether the WHOLE query fits in the space available (D70: the upper bound was
// half of the text before the cursor, whatever its width: after `change-query` from an 80-character query to
// `0123456789` the prompt showed `> 56789`). What is checked is the necessary structure, not the arithmetic: the
// clamp's upper bound depends on a comparison between a width measured on the whole Terminal.input and the
// available width.
func c15r16(c *Ctx, r *Report) {
	l := c.L
	r.rule("C15-R16", "D (the scroll bound of the prompt depends on a `the whole query fits` test)", "P1",
		"in Terminal.updatePromptOffset, the upper bound handed to the clamp of Terminal.xoffset is control- or data-dependent on a comparison one side of which is computed from the whole Terminal.input (not a slice of it)",
		"a query that fits in the prompt is shown without its beginning after a longer query was replaced: the prompt line does not show the current query")
	fn := l.Fn("fzf", "(*Terminal).updatePromptOffset")
	fX := l.Field("fzf", "Terminal", "xoffset")
	fIn := l.Field("fzf", "Terminal", "input")
	if fn == nil || fX == nil || fIn == nil {
		r.unest("anchors", token.NoPos, nil, "anchors Terminal.updatePromptOffset / xoffset / input", "cannot resolve")
		return
	}
	wholeInput := func(v ssa.Value) bool {
		for w := range backwardSlice(v, func(*ssa.CallCommon) bool { return true }, func(x ssa.Value) bool { _, isSl := x.(*ssa.Slice); return isSl }) {
			if fld, _ := loadedField(w); fld == fIn {
				return true
			}
		}
		return false
	}
	cc := cdCache{}
	n := 0
	eachInstr(fn, func(in ssa.Instruction) {
		st, ok := in.(*ssa.Store)
		if !ok {
			return
		}
		if fld, _ := fieldOf(st.Addr); fld != fX {
			return
		}
		n++
		call, ok := st.Val.(*ssa.Call)
		if !ok || len(call.Call.Args) != 3 {
			r.bad(relName(fn)+":xoffset is clamped", st.Pos(), fn, "util.Constrain(xoffset, lo, hi)", "the scroll offset is not stored through a clamp")
			return
		}
		hi := call.Call.Args[2]
		// comparisons the upper bound depends on: phi edges' controlling conditions + data
		dep := false
		var conds []ssa.Value
		for w := range backwardSlice(hi, nil, nil) {
			if phi, ok := w.(*ssa.Phi); ok {
				for _, p := range phi.Block().Preds {
					for cnd := range cc.of(p.Instrs[len(p.Instrs)-1]) {
						conds = append(conds, cnd)
					}
					if iff, ok := p.Instrs[len(p.Instrs)-1].(*ssa.If); ok {
						conds = append(conds, iff.Cond)
					}
				}
			}
			if b, ok := w.(*ssa.BinOp); ok {
				switch b.Op {
				case token.LSS, token.LEQ, token.GTR, token.GEQ:
					conds = append(conds, b)
				}
			}
		}
		for _, cnd := range conds {
			b, ok := cnd.(*ssa.BinOp)
			if !ok {
				continue
			}
			switch b.Op {
			case token.LSS, token.LEQ, token.GTR, token.GEQ:
				if wholeInput(b.X) || wholeInput(b.Y) {
					dep = true
				}
			}
		}
		r.check(dep, relName(fn)+":the upper bound of the scroll offset knows whether the query fits", st.Pos(), fn,
			"depends on a comparison of the whole query's width with the available width", "the upper bound of the prompt's scroll offset is computed from the text before the cursor only: a query that fits can still be shown scrolled")
	})
	r.floor("stores into Terminal.xoffset in updatePromptOffset", n, 1)
}

// c15r17: printList redraws a row only if it differs from what Terminal.prevLines says is on it. In the
// reverse-list layout the header lines share the list window, and the physical row of list line i depends on how
// many of them are shown — so whoever shows or hides the header has to invalidate that memo, as toggle-input does
// (D71: toggle-header / show-header / hide-header did not: `item5one`, `item6two` — header text left inside item rows).
func c15r17(c *Ctx, r *Report) {
	l := c.L
	r.rule("C15-R17", "A (a change of header visibility invalidates the row memo)", "P1",
		"in Terminal.Loop and its closures, every path from a store into Terminal.headerVisible to a return passes a call of Terminal.forceRerenderList",
		"with --layout reverse-list the rows keep fragments of the header that was there before: a list row does not show the corresponding result line")
	loop := l.Fn("fzf", "(*Terminal).Loop")
	force := l.Fn("fzf", "(*Terminal).forceRerenderList")
	fHV := l.Field("fzf", "Terminal", "headerVisible")
	if loop == nil || force == nil || fHV == nil {
		r.unest("anchors", token.NoPos, nil, "anchors Terminal.Loop / forceRerenderList / headerVisible", "cannot resolve")
		return
	}
	isForce := func(in ssa.Instruction) bool { return staticCallee(in) == force }
	n := 0
	for _, fn := range withClosures(loop) {
		eachInstr(fn, func(in ssa.Instruction) {
			st, ok := in.(*ssa.Store)
			if !ok {
				return
			}
			if fld, _ := fieldOf(st.Addr); fld != fHV {
				return
			}
			n++
			hit := pathAvoiding(st, isReturn, isForce, nil)
			r.check(hit == nil, fmt.Sprintf("%s:change #%d of the header's visibility invalidates the row memo", relName(rootFn(fn)), n), st.Pos(), fn,
				"forceRerenderList follows", "the header is shown or hidden and the handler returns without invalidating prevLines")
		})
	}
	r.floor("stores into Terminal.headerVisible in Terminal.Loop", n, 3)
}

// c14r19: syscall.Exec replaces the process image and returns only when it FAILS (command line over the
// kernel's limit, shell gone). Executor.Become is called after the user interface has been closed, so a return
// from it leaves a process with no UI, still reading the terminal (D72: the error was ignored; `become` with a
// 250 KB command line left fzf running with a dead screen until CTRL-C). Every path behind the exec therefore
// ends the process.
func c14r19(c *Ctx, r *Report) {
	l := c.L
	r.rule("C14-R19", "A (nothing returns behind a failed exec)", "P1",
		"in util.Executor.Become, no path leads from the call of syscall.Exec to a return of the function without passing os.Exit",
		"a failed become leaves fzf alive with its user interface torn down: it does not respond and shows nothing until it is interrupted")
	fn := l.Fn("util", "(*Executor).Become")
	if fn == nil {
		r.unest("anchors", token.NoPos, nil, "anchor util.Executor.Become", "cannot resolve")
		return
	}
	n := 0
	eachInstr(fn, func(in ssa.Instruction) {
		call, ok := in.(*ssa.Call)
		if !ok || calleeName(call.Common()) != "syscall.Exec" {
			return
		}
		n++
		hit := pathAvoiding(in, isReturn, func(i ssa.Instruction) bool {
			c2, ok := i.(*ssa.Call)
			return ok && calleeName(c2.Common()) == "os.Exit"
		}, nil)
		r.check(hit == nil, fmt.Sprintf("%s:exec #%d does not fall through", relName(fn), n), call.Pos(), fn,
			"a failed exec ends in os.Exit", "when syscall.Exec fails the function returns to the event loop, whose user interface is already closed")
	})
	r.floor("calls of syscall.Exec in Executor.Become", n, 1)
}

// c09r16: the kill buffer (Terminal.yanked) must own its storage. The editing actions delete and insert IN
// PLACE (append(t.input[:i], t.input[j:]...)), and with the input hidden doAction puts the array it saw at the
// start back as the query — so a kill buffer that merely points at the query's array is rewritten by later edits
// (D73: `cancel` did `t.yanked = t.input`; every other kill stores copySlice(..)).
func c09r16(c *Ctx, r *Report) {
	l := c.L
	r.rule("C09-R16", "F (the kill buffer is a private copy)", "P1",
		"in Terminal.Loop and its closures, every value stored into Terminal.yanked is the result of a call that returns a new slice (copySlice, append onto a fresh slice) — never a load of Terminal.input or a re-slice of it",
		"yank inserts text that later edits of the query have rewritten: the query is not what the documented effect of the actions gives")
	loop := l.Fn("fzf", "(*Terminal).Loop")
	fY := l.Field("fzf", "Terminal", "yanked")
	fIn := l.Field("fzf", "Terminal", "input")
	cp := l.Fn("fzf", "copySlice")
	if loop == nil || fY == nil || fIn == nil || cp == nil {
		r.unest("anchors", token.NoPos, nil, "anchors Terminal.Loop / yanked / input / copySlice", "cannot resolve")
		return
	}
	n := 0
	for _, fn := range withClosures(loop) {
		eachInstr(fn, func(in ssa.Instruction) {
			st, ok := in.(*ssa.Store)
			if !ok {
				return
			}
			if fld, _ := fieldOf(st.Addr); fld != fY {
				return
			}
			n++
			// does the stored value share storage with Terminal.input: reachable through re-slices, phis, conversions
			// without passing a copying call
			alias := false
			for w := range backwardSlice(st.Val, nil, func(x ssa.Value) bool {
				call, ok := x.(*ssa.Call)
				if !ok {
					return false
				}
				if call.Common().StaticCallee() == cp {
					return true
				}
				// append onto a fresh (nil / newly made / literal) slice copies its operands
				if b, isB := call.Common().Value.(*ssa.Builtin); isB && b.Name() == "append" && len(call.Call.Args) == 2 {
					switch d := call.Call.Args[0].(type) {
					case *ssa.Const:
						return d.IsNil()
					case *ssa.MakeSlice:
						return true
					case *ssa.Slice:
						_, fresh := d.X.(*ssa.Alloc)
						return fresh
					}
				}
				return false
			}) {
				if fld, _ := loadedField(w); fld == fIn {
					alias = true
				}
			}
			r.check(!alias, fmt.Sprintf("%s:store #%d into the kill buffer is a copy", relName(rootFn(fn)), n), st.Pos(), fn,
				"the kill buffer gets its own storage", "the kill buffer is set to (a slice of) the query's own array: in-place edits of the query rewrite it")
		})
	}
	r.floor("stores into Terminal.yanked", n, 4)
}

// c12r13: like C17-R11, for the --tmux relaunch: runProxy rebuilds the command line and re-exports the
// environment into the popup's script; a constant index into a split result needs the same proof of length there
// (D74: `pair := strings.SplitN(entry, "=", 2); ... pair[1]` — an environment entry without '=' made fzf --tmux
// panic before anything was shown).
func c12r13(c *Ctx, r *Report) {
	l := c.L
	r.rule("C12-R13", "I (length lower bounds from producers and path conditions, --tmux relaunch)", "P1",
		"in every function of package fzf reachable from runProxy, each constant index s[k] on a slice is dominated by facts that give len(s) > k (producer guarantee, or a length test of the same slice on every path)",
		"fzf --tmux panics on an unusual environment or argument instead of starting the popup")
	rp := l.Fn("fzf", "runProxy")
	if rp == nil {
		r.unest("anchors", token.NoPos, nil, "anchor runProxy", "cannot resolve")
		return
	}
	var fns []*ssa.Function
	for fn := range reachableFns(rp) {
		if fn.Pkg == l.pkg("fzf") && fn.Blocks != nil {
			fns = append(fns, fn)
		}
	}
	sort.Slice(fns, func(i, j int) bool { return fns[i].String() < fns[j].String() })
	n := 0
	for _, fn := range fns {
		var pc *PathConds
		cnt := map[string]int{}
		eachInstr(fn, func(in ssa.Instruction) {
			ia, ok := in.(*ssa.IndexAddr)
			if !ok {
				return
			}
			if _, ok := ia.X.Type().Underlying().(*types.Slice); !ok {
				return
			}
			k, isc := constIntVal(ia.Index)
			if !isc {
				return
			}
			if pc == nil {
				pc = pathConds(fn)
			}
			n++
			base := fmt.Sprintf("%s:%s[%d]", relName(fn), producerName(ia.X), k)
			cnt[base]++
			key := base
			if cnt[base] > 1 {
				key = fmt.Sprintf("%s #%d", base, cnt[base])
			}
			ok2, why := provenLen(fn, pc, ia.X, k+1, in.Block(), 0)
			if ok2 {
				r.ok(key, ia.Pos(), fn, "len > index: "+why)
			} else {
				r.unest(key, ia.Pos(), fn, fmt.Sprintf("len(%s) > %d on every path", ia.X.Name(), k), "no producer guarantee and no dominating length test found ("+why+")")
			}
		})
	}
	r.floor("constant slice indexes in the --tmux relaunch", n, 3)
}

// producerName describes where an indexed value comes from without SSA register names (keys must survive edits).
func producerName(v ssa.Value) string {
	switch x := v.(type) {
	case *ssa.Call:
		nm := calleeName(x.Common())
		if i := strings.LastIndex(nm, "/"); i >= 0 {
			nm = nm[i+1:]
		}
		return "result of " + nm
	case *ssa.Parameter:
		return x.Name()
	case *ssa.UnOp:
		if al, ok := x.X.(*ssa.Alloc); ok && al.Comment != "" {
			return al.Comment
		}
		if fv, ok := x.X.(*ssa.FreeVar); ok {
			return fv.Name()
		}
		if fld, _ := fieldOf(x.X); fld != nil {
			return "field " + fld.Name()
		}
	case *ssa.Slice:
		return "slice of " + producerName(x.X)
	case *ssa.Phi:
		if x.Comment != "" {
			return x.Comment
		}
	case *ssa.Extract:
		return producerName(x.Tuple)
	}
	return v.Type().String() + " value"
}

// round8 runs the round-8 rules of a property (own and shared) after the property's older rules.
func round8(c *Ctx, r *Report, prop string) {
	defer round9(c, r, prop)
	switch prop {
	case "C01":
		c01r13(c, r)
		c01r12(c, r)
		c01r10(c, r)
		c01r11(c, r)
	case "C02":
		c01r12(c, r) // a witness under the active accent folding exists for the capital as for the small letter
		c02r14(c, r)
		c02r15(c, r)
		c05r14(c, r) // matching never crashes: one match at a time per scratch slab
	case "C04":
		c05r17(c, r) // the pathname key does not depend on the representation of the line
	case "C03":
		c03r8(c, r)
		c03r9(c, r)
		c05r16(c, r) // the bonus of a character does not depend on what other workers are matching
		c02r14(c, r) // the boundary bonuses stay within the range the score bound is computed from
	case "C05":
		c05r17(c, r)
		c05r14(c, r)
		c05r15(c, r)
		c05r16(c, r)
		c01r11(c, r) // bytes and runes trim the same blanks
	case "C10":
		c10r9(c, r)
		c10r10(c, r)
	case "C07":
		c07r12(c, r)
		c10r9(c, r)  // --accept-nth prints the fields the expression denotes
		c12r12(c, r) // what is printed on accept is the input record
	case "C08":
		c08r21(c, r)
		c01r10(c, r) // every edit of the query starts a search
	case "C09":
		c09r16(c, r)
		c09r15(c, r)
	case "C11":
		c11r20(c, r)
		c11r18(c, r)
		c11r19(c, r)
	case "C12":
		c12r13(c, r)
		c12r12(c, r)
	case "C06":
		c13r11(c, r) // every record becomes an item: the reader is never blocked for good
		c06r11(c, r)
		c06r12(c, r)
	case "C15":
		c15r17(c, r)
		c15r16(c, r)
		c15r13(c, r)
		c15r14(c, r)
		c15r15(c, r)
	case "C16":
		c16r19(c, r)
		c16r17(c, r)
		c16r18(c, r)
	case "C17":
		c17r23(c, r)
		c17r22(c, r)
		c17r20(c, r)
		c17r21(c, r)
		c16r17(c, r) // never a crash on an option value
	case "C18":
		c18r12(c, r)
	case "C19":
		c19r12(c, r)
		c19r13(c, r)
	case "C20":
		c20r15(c, r)
	case "C13":
		c13r11(c, r)
		c05r14(c, r) // pushers do not race on the streaming filter's slab
		c05r16(c, r)
	case "C14":
		c14r19(c, r)
		c14r17(c, r)
		c14r18(c, r)
		c13r11(c, r) // never stops responding: no lock-order cycle
	}
}
