package main

import (
	"fmt"
	"go/build/constraint"
	"go/token"
	"go/types"
	"os"
	"os/exec"
	"path/filepath"
	"sort"
	"strings"

	"golang.org/x/tools/go/ssa"
)

func init() {
	register(&propDef{
		id:  "C04",
		run: runC04,
		explanation: "Structural clauses of 'results in rank order': (R1) the packed sort key has as many slots as the longest criteria list any parser accepts, slot index = len-1-criterion index, one writer of sortCriteria; " +
			"(R2) the two build-tagged compareRanks siblings agree: exactly one file per GOARCH, the unsafe uint64 variant only on little-endian targets with an 8-byte key read from slot 0, the generic variant compares slots from the highest index down with '<' → true / '>' → false of (first, second), both end in the same index tiebreak; " +
			"(R3) per-partition sort and k-way merge use the same comparator and the same `sorted` condition, the tac flag selects the matching comparator on both sides, an empty pattern uses the pass-through merger; (R4) every criteria list starts with the score; (R5) partial results are stored at the partition index carried in the message, which is the spawning loop's index.",
		notDecided:  "the value of each rank key (buildResult arithmetic); pass-through (--no-sort/--tac/--tail) index arithmetic in Merger.Get; permutation property of the lazy merge",
		assumptions: []string{"byte order per GOARCH is a fixed table in the checker (big-endian: mips, mips64, ppc64, s390x, and ppc/sparc/sparc64/armbe/arm64be if they ever appear)"},
	})
}

var bigEndianArch = map[string]bool{"mips": true, "mips64": true, "ppc64": true, "s390x": true, "ppc": true, "sparc": true, "sparc64": true, "armbe": true, "arm64be": true, "m68k": true}

func runC04(c *Ctx, r *Report) {
	defer round8(c, r, "C04")
	l := c.L
	defer c04r13(c, r)
	defer c04r14(c, r)
	defer c04r15(c, r)
	defer c02r13(c, r) // the rank key is computed without 32-bit overflow
	defer c01r3(c, r)  // a cached chunk result is only served to the pattern it was computed for
	// ---------------- R1 ----------------
	r.rule("C04-R1", "H (constant inequalities) + B", "P1",
		"len(Result.points) >= the longest criteria list parseTiebreak accepts and every []criterion literal; buildResult stores criterion idx at points[len-1-idx]; sortCriteria has a single writer (Run)",
		"index out of range in buildResult or a tiebreak criterion silently ignored / compared in the wrong significance")
	fPoints := l.Field("fzf", "Result", "points")
	crit := l.Named("fzf", "criterion")
	N := int64(-1)
	if fPoints != nil {
		if arr, ok := fPoints.Type().Underlying().(*types.Array); ok {
			N = arr.Len()
		}
	}
	if N < 0 || crit == nil {
		r.unest("anchors", token.NoPos, nil, "anchors Result.points / criterion", "cannot resolve")
		return
	}
	isCritSlice := func(t types.Type) bool {
		s, ok := t.Underlying().(*types.Slice)
		if !ok {
			return false
		}
		n, ok := s.Elem().(*types.Named)
		return ok && n.Obj() == crit.Obj()
	}
	pt := l.Fn("fzf", "parseTiebreak")
	if pt == nil {
		r.unest("anchors parseTiebreak", token.NoPos, nil, "anchor parseTiebreak", "cannot resolve")
	} else {
		maxLen := int64(-1)
		var at token.Pos
		var tested ssa.Value
		pc := pathConds(pt)
		eachInstr(pt, func(in ssa.Instruction) {
			b, ok := in.(*ssa.BinOp)
			if !ok {
				return
			}
			x, op, k, ok := cmpInt(b)
			if !ok {
				return
			}
			call, ok := x.(*ssa.Call)
			if !ok || calleeName(call.Common()) != "builtin.len" || !isCritSlice(call.Call.Args[0].Type()) {
				return
			}
			tested = call.Call.Args[0]
			// the comparison must guard an error return: the block reached on its true edge returns a non-nil error
			switch op {
			case token.GTR:
				maxLen, at = k, in.Pos()
			case token.GEQ:
				maxLen, at = k-1, in.Pos()
			}
		})
		_ = pc
		if maxLen < 0 {
			r.unest(relName(pt)+":length bound", token.NoPos, pt, "upper bound test on the criteria list in parseTiebreak", "no `len(criteria) > K` comparison found")
		} else {
			r.check(maxLen <= N, relName(pt)+":length bound", at, pt, fmt.Sprintf("parseTiebreak accepts at most %d criteria <= %d key slots", maxLen, N), fmt.Sprintf("accepts %d criteria but the key has %d slots", maxLen, N))
			// the successful return must be on the false edge of that test
			okRet := true
			for _, b := range pt.Blocks {
				ret, ok := b.Instrs[len(b.Instrs)-1].(*ssa.Return)
				if !ok {
					continue
				}
				if cn, isc := retResult(ret, 1).(*ssa.Const); isc && cn.IsNil() {
					// success return: needs the bound literal false
					holds, _ := pc.Implies(b, func(lits []Lit) bool {
						return hasLit(lits, func(a ssa.Value, v bool) bool {
							x, op, _, ok := cmpInt(a)
							if !ok {
								return false
							}
							call, ok := x.(*ssa.Call)
							if !ok || calleeName(call.Common()) != "builtin.len" || !isCritSlice(call.Call.Args[0].Type()) {
								return false
							}
							return (op == token.GTR || op == token.GEQ) && !v
						})
					})
					if !holds {
						okRet = false
					}
					// ... and what is returned is the list that was measured, not a longer one built from it
					if res := retResult(ret, 0); tested != nil && res != tested {
						same := false
						if p, ok := res.(*ssa.Phi); ok {
							for _, e := range p.Edges {
								if e == tested {
									same = true
								}
							}
						}
						if p, ok := tested.(*ssa.Phi); ok {
							for _, e := range p.Edges {
								if e == res {
									same = true
								}
							}
						}
						r.check(same, relName(pt)+":returned list is the measured list", ret.Pos(), pt, "the list whose length was tested is returned as is", "the returned list is built after the length test (e.g. by appending): it can be longer than the key has slots")
					}
				}
			}
			r.check(okRet, relName(pt)+":bound guards success", at, pt, "parseTiebreak returns a list only when the length test failed to trigger", "a success return bypasses the length test")
		}
	}
	// literals
	nLit := 0
	for _, f := range l.AllFuncs() {
		eachInstr(f, func(in ssa.Instruction) {
			al, ok := in.(*ssa.Alloc)
			if !ok {
				return
			}
			arr, ok := deref(al.Type()).Underlying().(*types.Array)
			if !ok {
				return
			}
			n, ok := arr.Elem().(*types.Named)
			if !ok || n.Obj() != crit.Obj() {
				return
			}
			if al.Comment == "varargs" {
				return // the implicit array of append(list, x), not a criteria list
			}
			nLit++
			r.check(arr.Len() <= N, fmt.Sprintf("%s:[]criterion literal len %d", relName(f), arr.Len()), al.Pos(), f, fmt.Sprintf("criteria literal of length %d fits %d key slots", arr.Len(), N), "longer than the key")
			// R4: first element is byScore
			if arr.Len() > 0 {
				first := false
				for _, ref := range *al.Referrers() {
					ia, ok := ref.(*ssa.IndexAddr)
					if !ok || !isConstInt(ia.Index, 0) {
						continue
					}
					for _, r2 := range *ia.Referrers() {
						if st, ok := r2.(*ssa.Store); ok {
							if k, isc := constIntVal(st.Val); isc && k == 0 {
								first = true
							}
						}
					}
				}
				bs, _ := constInt(l.Const("fzf", "byScore"))
				r.curRule = "C04-R4"
				r.check(first && bs == 0, fmt.Sprintf("%s:literal starts with byScore (len %d)", relName(f), arr.Len()), al.Pos(), f, "criteria list starts with byScore", "score is not the most significant criterion")
				r.curRule = "C04-R1"
			}
		})
	}
	r.floor("[]criterion literals", nLit, 4)
	// slot index in buildResult
	br := l.Fn("fzf", "buildResult")
	if br == nil {
		r.unest("anchors buildResult", token.NoPos, nil, "anchor buildResult", "cannot resolve")
	} else {
		n := 0
		eachInstr(br, func(in ssa.Instruction) {
			st, ok := in.(*ssa.Store)
			if !ok {
				return
			}
			ia, ok := st.Addr.(*ssa.IndexAddr)
			if !ok {
				return
			}
			if fld, _ := fieldOf(ia.X); fld != fPoints {
				return
			}
			n++
			b, ok := ia.Index.(*ssa.BinOp)
			okIdx := ok && b.Op == token.SUB && isConstInt(b.X, N-1)
			if okIdx {
				// Y is the range index over sortCriteria
				isRangeIdx := false
				for v := range backwardSlice(b.Y, nil, nil) {
					if phi, ok := v.(*ssa.Phi); ok && strings.Contains(phi.Comment, "rangeindex") {
						isRangeIdx = true
					}
				}
				okIdx = isRangeIdx
			}
			r.check(okIdx, relName(br)+":slot index", st.Pos(), br, fmt.Sprintf("criterion idx is stored at points[%d-idx]", N-1), "slot index is not len(points)-1-idx")
		})
		r.floor("stores into Result.points in buildResult", n, 1)
	}
	g := l.Global("fzf", "sortCriteria")
	if g != nil {
		n := 0
		for _, f := range l.AllFuncs() {
			eachInstr(f, func(in ssa.Instruction) {
				if st, ok := in.(*ssa.Store); ok && st.Addr == ssa.Value(g) {
					n++
					r.check(f == l.Fn("fzf", "Run"), relName(f)+":store sortCriteria", st.Pos(), f, "sortCriteria is written by Run only", "another writer changes the criteria while results exist")
				}
			})
		}
		r.floor("stores to sortCriteria", n, 1)
	}
	r.rule("C04-R4", "E", "P1", "every criteria list literal starts with byScore (== 0); parseTiebreak only appends after its initial {byScore}", "results are not ordered by decreasing score first")
	if pt != nil {
		// all values returned as the list derive from the initial literal through append
		okApp := true
		eachInstr(pt, func(in ssa.Instruction) {
			call, ok := in.(*ssa.Call)
			if !ok || calleeName(call.Common()) != "builtin.append" || !isCritSlice(call.Type()) {
				return
			}
			// append(criteria, X): first arg must be the running list (phi/previous append/initial slice), never a fresh prefix
			switch call.Call.Args[0].(type) {
			case *ssa.Phi, *ssa.Call, *ssa.Slice, *ssa.UnOp:
			default:
				okApp = false
			}
		})
		r.check(okApp, relName(pt)+":append only", pt.Pos(), pt, "parseTiebreak extends the list that starts with byScore by appending", "list is rebuilt without the leading score")
	}

	c04r2(c, r, N)
	c04r3(c, r)
	c04r7(c, r)
	c04r8(c, r)
	c04r9(c, r)
	c04r10(c, r)
	c04r11(c, r)
	c04r12(c, r)
	c06r8(c, r) // the pass-through merger must know how many items it has
	c13r6(c, r) // a snapshot still being read must not have its items shifted under it
	c08r6(c, r) // unsorted order must not depend on an earlier sorted search
}

func c04r2(c *Ctx, r *Report, N int64) {
	l := c.L
	r.rule("C04-R2", "E (sibling agreement across build configurations)", "P1",
		"result_x86.go / result_others.go: exactly one is built for every GOARCH of `go tool dist list`; the unsafe uint64 comparator is selected only on little-endian targets, reads 8 bytes from &points[0]; the generic comparator loops idx = len-1 .. 0 returning true on first<second, false on first>second; both finish with (i.Index() <= j.Index()) != tac",
		"a different order on ARM/ppc/s390x than on x86 — the generic file is not even compiled by an amd64 test run")
	cmpA := l.Fn("fzf", "compareRanks")
	alt, err := c.Alt("linux", "arm64")
	if err != nil || cmpA == nil {
		r.unest("arm64 load", token.NoPos, nil, "linux/arm64 load of the repository", fmt.Sprint(err))
		return
	}
	cmpB := alt.Fn("fzf", "compareRanks")
	if cmpB == nil {
		r.unest("arm64 compareRanks", token.NoPos, nil, "compareRanks under linux/arm64", "not found")
		return
	}
	fileA := l.Fset.Position(cmpA.Pos()).Filename
	fileB := alt.Fset.Position(cmpB.Pos()).Filename
	r.check(fileA != fileB, "siblings are different files", cmpA.Pos(), cmpA, "amd64 and arm64 builds take compareRanks from different files: "+filepath.Base(fileA)+" / "+filepath.Base(fileB), "same file on both")
	usesUnsafe := func(f *ssa.Function) bool {
		u := false
		eachInstr(f, func(in ssa.Instruction) {
			if cv, ok := in.(*ssa.Convert); ok && cv.Type().String() == "unsafe.Pointer" {
				u = true
			}
		})
		return u
	}
	unsafeFile, genericFile := "", ""
	var unsafeFn, genericFn *ssa.Function
	var genL *Loaded
	for _, x := range []struct {
		f    *ssa.Function
		file string
		l    *Loaded
	}{{cmpA, fileA, l}, {cmpB, fileB, alt}} {
		if usesUnsafe(x.f) {
			unsafeFile, unsafeFn = x.file, x.f
		} else {
			genericFile, genericFn, genL = x.file, x.f, x.l
		}
	}
	if unsafeFn == nil || genericFn == nil {
		r.unest("sibling kinds", token.NoPos, nil, "one unsafe-uint64 and one generic compareRanks", "could not tell the siblings apart")
		return
	}
	// (a) build constraints
	arches := goArchList(c.Repo)
	if len(arches) < 8 {
		r.unest("GOARCH list", token.NoPos, nil, "`go tool dist list`", "fewer than 8 architectures reported")
	}
	exprOf := func(file string) constraint.Expr {
		b, err := os.ReadFile(file)
		if err != nil {
			return nil
		}
		for _, line := range strings.Split(string(b), "\n") {
			if constraint.IsGoBuild(line) {
				e, err := constraint.Parse(line)
				if err == nil {
					return e
				}
			}
			if strings.HasPrefix(line, "package ") {
				break
			}
		}
		return nil
	}
	eu, eg := exprOf(unsafeFile), exprOf(genericFile)
	if eu == nil || eg == nil {
		r.unest("build constraints", token.NoPos, nil, "//go:build lines of both sibling files", "missing")
	} else {
		for _, a := range arches {
			arch := a
			tag := func(t string) bool { return t == arch || t == "linux" || t == "unix" || t == "gc" }
			su, sg := eu.Eval(tag), eg.Eval(tag)
			r.check(su != sg, "GOARCH "+arch+": exactly one sibling", cmpA.Pos(), nil, fmt.Sprintf("GOARCH=%s builds exactly one compareRanks (unsafe=%v generic=%v)", arch, su, sg), "zero or two definitions")
			if su {
				r.check(!bigEndianArch[arch], "GOARCH "+arch+": unsafe variant on little-endian only", unsafeFn.Pos(), unsafeFn, "uint64 key comparison selected for little-endian "+arch, "on a big-endian target the 64-bit read orders the slots in reverse significance")
			}
		}
	}
	// (b) unsafe variant: 8-byte key, read from &points[0]
	fPoints := l.Field("fzf", "Result", "points")
	if fPoints != nil {
		sz := l.ByPath[pkgAlias["fzf"]].TypesSizes.Sizeof(fPoints.Type())
		r.check(sz == 8, "unsafe variant: Sizeof(points)==8", unsafeFn.Pos(), unsafeFn, "Result.points occupies 8 bytes (one uint64 read covers exactly all slots)", fmt.Sprintf("is %d bytes", sz))
	}
	nRead := 0
	eachInstr(unsafeFn, func(in ssa.Instruction) {
		cv, ok := in.(*ssa.Convert)
		if !ok || cv.Type().String() != "unsafe.Pointer" {
			return
		}
		nRead++
		ia, ok := cv.X.(*ssa.IndexAddr)
		okZero := ok && isConstInt(ia.Index, 0)
		if okZero {
			fld, _ := fieldOf(ia.X)
			okZero = fld != nil && fld.Name() == "points"
		}
		r.check(okZero, fmt.Sprintf("unsafe variant: read #%d from &points[0]", nRead), in.Pos(), unsafeFn, "the 64-bit key is read from &points[0]", "read from another slot/offset")
	})
	r.floor("unsafe key reads", nRead, 2)
	checkTail := func(f *ssa.Function, L *Loaded, tag string) {
		// last return: (i.Index() <= j.Index()) != tac with i from param 0 and j from param 1
		okT := false
		for _, b := range f.Blocks {
			ret, ok := b.Instrs[len(b.Instrs)-1].(*ssa.Return)
			if !ok {
				continue
			}
			ne, ok := ret.Results[0].(*ssa.BinOp)
			if !ok || ne.Op != token.NEQ {
				continue
			}
			var le *ssa.BinOp
			var other ssa.Value
			if b1, ok := ne.X.(*ssa.BinOp); ok {
				le, other = b1, ne.Y
			} else if b2, ok := ne.Y.(*ssa.BinOp); ok {
				le, other = b2, ne.X
			}
			if le == nil || le.Op != token.LEQ || other != ssa.Value(f.Params[2]) {
				continue
			}
			from := func(v ssa.Value, p *ssa.Parameter) bool {
				for x := range backwardSlice(v, func(*ssa.CallCommon) bool { return true }, nil) {
					if x == ssa.Value(p) {
						return true
					}
				}
				return false
			}
			if from(le.X, f.Params[0]) && from(le.Y, f.Params[1]) && !from(le.X, f.Params[1]) && !from(le.Y, f.Params[0]) {
				okT = true
			}
		}
		r.add(map[bool]Status{true: OK, false: BAD}[okT], tag+": index tiebreak", f.Pos(), f, tag+" comparator ends with (first.Index() <= second.Index()) != tac", map[bool]string{true: "", false: "final tiebreak differs"}[okT])
	}
	checkTail(unsafeFn, l, "unsafe")
	checkTail(genericFn, genL, "generic")
	// unsafe: `left < right` -> true, `left > right` -> false, left from param 0
	checkOrderReturns(r, unsafeFn, "unsafe")
	checkOrderReturns(r, genericFn, "generic")
	// (c) generic loop direction: phi init N-1, step -1, cond idx >= 0
	okLoop := false
	eachInstr(genericFn, func(in ssa.Instruction) {
		phi, ok := in.(*ssa.Phi)
		if !ok || len(phi.Edges) != 2 {
			return
		}
		var init, step ssa.Value
		for _, e := range phi.Edges {
			if _, isc := constIntVal(e); isc {
				init = e
			} else {
				step = e
			}
		}
		if init == nil || step == nil || !isConstInt(init, N-1) {
			return
		}
		b, ok := step.(*ssa.BinOp)
		if !ok || b.Op != token.SUB || b.X != ssa.Value(phi) || !isConstInt(b.Y, 1) {
			return
		}
		// used as index into points of both params
		okLoop = true
	})
	r.check(okLoop, "generic: slots compared from index len-1 down to 0", genericFn.Pos(), genericFn, fmt.Sprintf("generic comparator iterates idx = %d .. 0 (most significant slot first, like the little-endian uint64)", N-1), "iterates in another direction/range")
}

// checkOrderReturns: a comparison cmp(first,second): LSS -> return true ; GTR -> return false.
func checkOrderReturns(r *Report, f *ssa.Function, tag string) {
	pc := pathConds(f)
	okLt, okGt := false, false
	fromP := func(v ssa.Value, p *ssa.Parameter) bool {
		for x := range backwardSlice(v, nil, nil) {
			if x == ssa.Value(p) {
				return true
			}
		}
		return false
	}
	for _, b := range f.Blocks {
		ret, ok := b.Instrs[len(b.Instrs)-1].(*ssa.Return)
		if !ok {
			continue
		}
		cb, isc := constBool(ret.Results[0])
		if !isc {
			continue
		}
		for _, d := range pc.At(b) {
			for _, lt := range d {
				bo, ok := lt.Atom.(*ssa.BinOp)
				if !ok || !lt.Val {
					continue
				}
				if !(fromP(bo.X, f.Params[0]) && fromP(bo.Y, f.Params[1])) {
					continue
				}
				if bo.Op == token.LSS && cb {
					okLt = true
				}
				if bo.Op == token.GTR && !cb {
					okGt = true
				}
				if (bo.Op == token.LSS && !cb) || (bo.Op == token.GTR && cb) {
					okLt, okGt = false, false
					r.bad(tag+": comparison polarity", ret.Pos(), f, tag+" comparator", "returns the opposite of first<second")
					return
				}
			}
		}
	}
	r.check(okLt && okGt, tag+": comparison polarity", f.Pos(), f, tag+" comparator returns true on first<second and false on first>second", "polarity not established")
}

func goArchList(repo string) []string {
	cmd := exec.Command("go", "tool", "dist", "list")
	cmd.Env = append(os.Environ(), "GOFLAGS=", "GOTOOLCHAIN=local")
	out, err := cmd.Output()
	if err != nil {
		return nil
	}
	set := map[string]bool{}
	for _, line := range strings.Fields(string(out)) {
		if i := strings.Index(line, "/"); i >= 0 {
			set[line[i+1:]] = true
		}
	}
	var a []string
	for k := range set {
		a = append(a, k)
	}
	sort.Strings(a)
	return a
}

func c04r3(c *Ctx, r *Report) {
	l := c.L
	r.rule("C04-R3", "A/B (sort/merge agreement)", "P1",
		"the guard of sort.Sort in the scan worker and the `sorted` argument of NewMerger read the same fields; ByRelevance/ByRelevanceTac.Less call compareRanks with tac=false/true and are selected by Matcher.tac; mergedGet calls compareRanks with Merger.tac which NewMerger sets from its tac parameter (= Matcher.tac); an empty pattern returns PassMerger",
		"k-way merging of lists that were sorted by a different order (or not sorted at all)")
	scan := l.Fn("fzf", "(*Matcher).scan")
	newMerger := l.Fn("fzf", "NewMerger")
	cmp := l.Fn("fzf", "compareRanks")
	mergedGet := l.Fn("fzf", "(*Merger).mergedGet")
	fTacM := l.Field("fzf", "Matcher", "tac")
	fTacG := l.Field("fzf", "Merger", "tac")
	if scan == nil || newMerger == nil || cmp == nil || mergedGet == nil || fTacM == nil || fTacG == nil {
		r.unest("anchors", token.NoPos, nil, "anchors scan / NewMerger / compareRanks / mergedGet / tac fields", "cannot resolve")
		return
	}
	// fields read by a boolean expression, including the conditions folded into a short-circuit phi
	// (`a && b` materialised as phi[false: <block ending in `if a`>, b])
	var boolFieldsOf func(v ssa.Value) map[string]bool
	boolFieldsOf = func(v ssa.Value) map[string]bool {
		out := map[string]bool{}
		if phi, ok := v.(*ssa.Phi); ok && isBoolType(phi) {
			for i, e := range phi.Edges {
				if _, isc := constBool(e); isc {
					pred := phi.Block().Preds[i]
					if ifi, ok := pred.Instrs[len(pred.Instrs)-1].(*ssa.If); ok {
						atom, _ := normCond(ifi.Cond)
						for k := range boolFieldsOf(atom) {
							out[k] = true
						}
					}
				} else {
					for k := range boolFieldsOf(e) {
						out[k] = true
					}
				}
			}
			return out
		}
		for x := range backwardSlice(v, nil, nil) {
			if fld, _ := loadedField(x); fld != nil && isBoolType(x) {
				out[fld.Name()] = true
			}
		}
		return out
	}
	// NewMerger call in scan
	var sortedFields map[string]bool
	var tacArgOK bool
	nNM := 0
	eachInstr(scan, func(in ssa.Instruction) {
		call, ok := in.(*ssa.Call)
		if !ok || call.Common().StaticCallee() != newMerger {
			return
		}
		nNM++
		sortedFields = boolFieldsOf(call.Call.Args[2])
		tacArgOK = isLoadOf(call.Call.Args[3], fTacM)
		r.check(tacArgOK, relName(scan)+":NewMerger tac arg", in.Pos(), scan, "NewMerger receives Matcher.tac", "another tac value is passed to the merger")
	})
	r.floor("NewMerger calls in scan", nNM, 1)
	// sort.Sort calls in the worker closures
	nSort := 0
	for _, f := range withClosures(scan) {
		if f == scan {
			continue
		}
		pc := pathConds(f)
		eachInstr(f, func(in ssa.Instruction) {
			cc, ok := isCall(in, "sort.Sort")
			if !ok {
				return
			}
			nSort++
			// guard fields
			guard := map[string]bool{}
			tacVal, tacKnown := false, false
			ds := pc.At(in.Block())
			for _, d := range ds[:1] {
				for _, lt := range d {
					fld, _ := loadedField(lt.Atom)
					if fld == nil {
						continue
					}
					common := true
					for _, d2 := range ds[1:] {
						has := false
						for _, l2 := range d2 {
							if l2.Atom == lt.Atom && l2.Val == lt.Val {
								has = true
							}
						}
						if !has {
							common = false
						}
					}
					if !common {
						continue
					}
					if fld == fTacM {
						tacVal, tacKnown = lt.Val, true
						continue
					}
					if lt.Val {
						guard[fld.Name()] = true
					} else {
						guard["!"+fld.Name()] = true
					}
				}
			}
			same := len(guard) == len(sortedFields)
			for k := range guard {
				if !sortedFields[k] {
					same = false
				}
			}
			r.check(same && len(guard) > 0, relName(f)+":sort guard == sorted arg", in.Pos(), f,
				fmt.Sprintf("partition is sorted under %v; NewMerger(sorted) reads %v", keysOf(guard), keysOf(sortedFields)), "the merger's `sorted` flag and the condition under which partitions are sorted differ")
			// which comparator type?
			typ := ""
			if mi, ok := cc.Args[0].(*ssa.MakeInterface); ok {
				typ = mi.X.Type().String()
			}
			less := lessOf(l, typ)
			tacConst, okc := lessTacConst(less, cmp)
			r.check(okc && tacKnown && tacConst == tacVal, relName(f)+":comparator matches tac ("+shortType(typ)+")", in.Pos(), f,
				fmt.Sprintf("%s.Less calls compareRanks(.., tac=%v) and is used when Matcher.tac==%v", shortType(typ), tacConst, tacVal), "the comparator's tac constant and the Matcher.tac branch disagree")
		})
	}
	r.floor("sort.Sort calls in the scan worker", nSort, 2)
	// mergedGet: compareRanks third arg is load of Merger.tac
	nc := 0
	eachInstr(mergedGet, func(in ssa.Instruction) {
		call, ok := in.(*ssa.Call)
		if !ok || call.Common().StaticCallee() != cmp {
			return
		}
		nc++
		r.check(isLoadOf(call.Call.Args[2], fTacG), relName(mergedGet)+":compareRanks tac", in.Pos(), mergedGet, "k-way merge compares with Merger.tac", "merge uses another tac value than the per-partition sort")
	})
	r.floor("compareRanks calls in mergedGet", nc, 1)
	// NewMerger stores its tac param into Merger.tac and its sorted param into Merger.sorted
	okStore := map[string]bool{}
	eachInstr(newMerger, func(in ssa.Instruction) {
		st, ok := in.(*ssa.Store)
		if !ok {
			return
		}
		fld, _ := fieldOf(st.Addr)
		if fld == nil {
			return
		}
		for _, p := range newMerger.Params {
			if st.Val == ssa.Value(p) && p.Name() == fld.Name() {
				okStore[fld.Name()] = true
			}
		}
	})
	r.check(okStore["tac"] && okStore["sorted"], relName(newMerger)+":stores tac/sorted params", newMerger.Pos(), newMerger, "NewMerger stores its tac and sorted parameters in the like-named fields", "parameter/field mix-up")
	// empty pattern -> PassMerger
	pass := l.Fn("fzf", "PassMerger")
	isEmpty := l.Fn("fzf", "(*Pattern).IsEmpty")
	if pass != nil && isEmpty != nil {
		pc := pathConds(scan)
		n := 0
		eachInstr(scan, func(in ssa.Instruction) {
			call, ok := in.(*ssa.Call)
			if !ok || call.Common().StaticCallee() != pass {
				return
			}
			n++
			holds, _ := pc.Implies(in.Block(), func(lits []Lit) bool {
				return hasLit(lits, func(a ssa.Value, v bool) bool {
					c2, ok := a.(*ssa.Call)
					return ok && c2.Common().StaticCallee() == isEmpty && v
				})
			})
			r.check(holds, relName(scan)+":PassMerger iff empty pattern", in.Pos(), scan, "pass-through merger is used exactly under pattern.IsEmpty()", "pass-through merger used for a non-empty pattern")
		})
		r.floor("PassMerger calls in scan", n, 1)
		// and no NewMerger under IsEmpty()==true
	}

	// ---------------- R5 ----------------
	r.rule("C04-R5", "D (value provenance)", "P1",
		"scan stores each partial result at index = the `index` field of the received message; the worker builds that message with its own idx parameter, which the `go` statement binds to the spawning loop's index",
		"partition lists are concatenated in completion order: unsorted/--tac output depends on scheduling")
	fIndex := l.Field("fzf", "partialResult", "index")
	if fIndex == nil {
		r.unest("anchors partialResult.index", token.NoPos, nil, "anchor partialResult.index", "cannot resolve")
		return
	}
	// receiver side
	nst := 0
	eachInstr(scan, func(in ssa.Instruction) {
		st, ok := in.(*ssa.Store)
		if !ok {
			return
		}
		ia, ok := st.Addr.(*ssa.IndexAddr)
		if !ok {
			return
		}
		// value stored derives from a channel receive of partialResult
		fromRecv := false
		for v := range backwardSlice(st.Val, nil, nil) {
			if u, ok := v.(*ssa.UnOp); ok && u.Op == token.ARROW && strings.HasSuffix(u.Type().String(), "partialResult") {
				fromRecv = true
			}
		}
		if !fromRecv {
			return
		}
		nst++
		idxOK := false
		for v := range backwardSlice(ia.Index, nil, nil) {
			if fld, _ := fieldOf(v); fld == fIndex {
				idxOK = true
			}
		}
		r.check(idxOK, relName(scan)+":partialResults[msg.index]", st.Pos(), scan, "a received partial result is stored at the index it carries", "stored at an arrival-order position")
	})
	r.floor("stores of received partial results", nst, 1)
	// an append of received matches would also be arrival order
	eachInstr(scan, func(in ssa.Instruction) {
		call, ok := in.(*ssa.Call)
		if !ok || calleeName(call.Common()) != "builtin.append" {
			return
		}
		for _, a := range call.Call.Args[1:] {
			for v := range backwardSlice(a, nil, nil) {
				if u, ok := v.(*ssa.UnOp); ok && u.Op == token.ARROW && strings.HasSuffix(u.Type().String(), "partialResult") {
					r.bad(relName(scan)+":append of received partial result", in.Pos(), scan, "partial results are appended as they arrive", "order depends on goroutine scheduling")
				}
			}
		}
	})
	// sender side
	for _, f := range withClosures(scan) {
		if f == scan {
			continue
		}
		eachInstr(f, func(in ssa.Instruction) {
			snd, ok := in.(*ssa.Send)
			if !ok || !strings.HasSuffix(snd.X.Type().String(), "partialResult") {
				return
			}
			// the index field of the sent struct
			okIdx := false
			for v := range backwardSlice(snd.X, nil, nil) {
				if v == ssa.Value(f.Params[0]) {
					okIdx = true
				}
			}
			r.check(okIdx && len(f.Params) > 0, relName(f)+":message carries own idx", in.Pos(), f, "worker's message is built from its idx parameter", "message index is not the worker's own partition index")
		})
	}
	eachInstr(scan, func(in ssa.Instruction) {
		g, ok := in.(*ssa.Go)
		if !ok {
			return
		}
		okLoopIdx := false
		if len(g.Call.Args) > 0 {
			for v := range backwardSlice(g.Call.Args[0], nil, nil) {
				if phi, ok := v.(*ssa.Phi); ok && strings.Contains(phi.Comment, "rangeindex") {
					okLoopIdx = true
				}
			}
		}
		r.check(okLoopIdx, relName(scan)+":go binds idx to the loop index", g.Pos(), scan, "the worker's idx is the spawning loop's index", "workers get another number")
	})
}

func keysOf(m map[string]bool) []string {
	var k []string
	for x := range m {
		k = append(k, x)
	}
	sort.Strings(k)
	return k
}

func shortType(t string) string {
	if i := strings.LastIndex(t, "."); i >= 0 {
		return t[i+1:]
	}
	return t
}

func lessOf(l *Loaded, typ string) *ssa.Function {
	name := shortType(typ)
	return l.Fn("fzf", name+".Less")
}

func lessTacConst(less, cmp *ssa.Function) (bool, bool) {
	if less == nil {
		return false, false
	}
	val, found := false, false
	eachInstr(less, func(in ssa.Instruction) {
		call, ok := in.(*ssa.Call)
		if !ok || call.Common().StaticCallee() != cmp {
			return
		}
		if cb, isc := constBool(call.Call.Args[2]); isc {
			val, found = cb, true
		}
	})
	return val, found
}

// c04r8: rank-key components are narrowed to 16 bits only by the saturating helper.
func c04r8(c *Ctx, r *Report) {
	l := c.L
	r.rule("C04-R8", "B (conversion census)", "P1",
		"in packages fzf and util every conversion of a non-constant integer to uint16 — the width of the rank-key slots (Result.points) and of the cached trim length that feeds the length criterion — is the one inside util.AsUint16, which saturates",
		"a length or distance of 65536 or more wraps around: a very long line is ranked as if it were very short")
	helper := l.Fn("util", "AsUint16")
	if helper == nil {
		r.unest("anchors", token.NoPos, nil, "anchor util.AsUint16", "cannot resolve")
		return
	}
	n, inHelper := 0, 0
	for _, fn := range l.AllFuncs() {
		if fn.Pkg != l.pkg("fzf") && fn.Pkg != l.pkg("util") {
			continue
		}
		eachInstr(fn, func(in ssa.Instruction) {
			cv, ok := in.(*ssa.Convert)
			if !ok {
				return
			}
			to, ok := cv.Type().Underlying().(*types.Basic)
			if !ok || to.Kind() != types.Uint16 {
				return
			}
			from, ok := cv.X.Type().Underlying().(*types.Basic)
			if !ok || from.Info()&types.IsInteger == 0 || from.Kind() == types.Uint16 || from.Kind() == types.Uint8 {
				return
			}
			if _, isc := cv.X.(*ssa.Const); isc {
				return
			}
			n++
			if fn == helper {
				inHelper++
				r.ok("util.AsUint16:narrowing", cv.Pos(), fn, "the saturating helper narrows after clamping")
				return
			}
			r.bad(relName(fn)+":raw narrowing to uint16", cv.Pos(), fn, "narrowing goes through util.AsUint16", "a non-constant integer is truncated to 16 bits without saturation")
		})
	}
	r.floor("narrowing conversions inside util.AsUint16", inHelper, 1)
	// the helper saturates: its result under `val > max` is the maximum
	pc := pathConds(helper)
	sat := false
	for _, b := range helper.Blocks {
		ret, ok := b.Instrs[len(b.Instrs)-1].(*ssa.Return)
		if !ok {
			continue
		}
		if k, isc := constIntVal(retResult(ret, 0)); isc && k == 65535 {
			if ok, _ := pc.Implies(b, func(lits []Lit) bool {
				return hasLit(lits, func(a ssa.Value, v bool) bool {
					_, op, kk, ok := cmpInt(a)
					return ok && ((op == token.GTR && v && kk >= 65535) || (op == token.LEQ && !v && kk >= 65535) || (op == token.GEQ && v && kk >= 65535))
				})
			}); ok {
				sat = true
			}
		}
	}
	r.check(sat, "util.AsUint16:saturates", helper.Pos(), helper, "values above the range return 65535", "the helper no longer saturates")
}

// c04r9: mergers cached under one sort mode / revision are all dropped when that changes.
func c04r9(c *Ctx, r *Report) {
	l := c.L
	r.rule("C04-R9", "P (must-pass-through)", "P1",
		"in Matcher.Loop every assignment of Matcher.sort or Matcher.revision is followed, on every path to the next scan, by replacing Matcher.mergerCache with a fresh map (cached mergers were built under the old sort mode / for the old list)",
		"after toggle-sort (or a reload) a merger cached for another query is served in the old order")
	loop := l.Fn("fzf", "(*Matcher).Loop")
	scan := l.Fn("fzf", "(*Matcher).scan")
	fSort := l.Field("fzf", "Matcher", "sort")
	fRev := l.Field("fzf", "Matcher", "revision")
	fMC := l.Field("fzf", "Matcher", "mergerCache")
	if loop == nil || scan == nil || fSort == nil || fRev == nil || fMC == nil {
		r.unest("anchors", token.NoPos, nil, "anchors Matcher.Loop / scan / sort / revision / mergerCache", "cannot resolve")
		return
	}
	n := 0
	for _, fn := range withClosures(loop) {
		eachInstr(fn, func(in ssa.Instruction) {
			st, ok := in.(*ssa.Store)
			if !ok {
				return
			}
			f, _ := fieldOf(st.Addr)
			if f != fSort && f != fRev {
				return
			}
			n++
			isReset := func(i2 ssa.Instruction) bool {
				s2, ok := i2.(*ssa.Store)
				if !ok {
					return false
				}
				if f2, _ := fieldOf(s2.Addr); f2 != fMC {
					return false
				}
				_, isMake := s2.Val.(*ssa.MakeMap)
				return isMake
			}
			// a reset just before the store in the same block counts as well
			before := false
			for _, i2 := range in.Block().Instrs {
				if i2 == in {
					break
				}
				if isReset(i2) {
					before = true
				}
			}
			var bad ssa.Instruction
			if !before {
				bad = pathAvoiding(in, func(i2 ssa.Instruction) bool {
					if call, ok := i2.(*ssa.Call); ok && callIs(call.Common(), scan) {
						return true
					}
					return false
				}, isReset, nil)
			}
			key := fmt.Sprintf("%s:%s changed => merger cache dropped", relName(fn), f.Name())
			if bad != nil {
				r.bad(key, st.Pos(), fn, "mergerCache = make(..) before the next scan", "Matcher."+f.Name()+" changes but a path reaches the next scan with the old merger cache")
			} else {
				r.ok(key, st.Pos(), fn, "Matcher."+f.Name()+" changes together with a fresh merger cache")
			}
		})
	}
	r.floor("assignments of Matcher.sort / Matcher.revision in Loop", n, 2)
}

// c04r10: whether results are sorted is the user's choice.
func c04r10(c *Ctx, r *Report) {
	l := c.L
	r.rule("C04-R10", "D (provenance of the sort switch)", "P1",
		"every value stored into Matcher.sort derives from the user's sort option: the `sort` parameter of NewMatcher (which Run computes from Options.Sort), MatchRequest.sort, or an expression that has one of them as an operand — never from the pattern alone",
		"--no-sort is ignored on some path: results come out in rank order instead of input order (reversed under --tac)")
	fSort := l.Field("fzf", "Matcher", "sort")
	fReqSort := l.Field("fzf", "MatchRequest", "sort")
	fOptSort := l.Field("fzf", "Options", "Sort")
	nm := l.Fn("fzf", "NewMatcher")
	if fSort == nil || fReqSort == nil || fOptSort == nil || nm == nil {
		r.unest("anchors", token.NoPos, nil, "anchors Matcher.sort / MatchRequest.sort / Options.Sort / NewMatcher", "cannot resolve")
		return
	}
	var sortParam *ssa.Parameter
	for _, p := range nm.Params {
		if p.Name() == "sort" {
			sortParam = p
		}
	}
	n := 0
	for _, fn := range l.AllFuncs() {
		if fn.Pkg != l.pkg("fzf") {
			continue
		}
		eachInstr(fn, func(in ssa.Instruction) {
			st, ok := in.(*ssa.Store)
			if !ok {
				return
			}
			if f, _ := fieldOf(st.Addr); f != fSort {
				return
			}
			n++
			okSrc := false
			var seen = map[ssa.Value]bool{}
			var walk func(v ssa.Value, d int)
			walk = func(v ssa.Value, d int) {
				if seen[v] || d > 12 || okSrc {
					return
				}
				seen[v] = true
				if sortParam != nil && v == ssa.Value(sortParam) {
					okSrc = true
					return
				}
				if f, _ := loadedField(v); f == fReqSort || f == fOptSort {
					okSrc = true
					return
				}
				switch x := v.(type) {
				case *ssa.Phi:
					// a && b materialised: the conditions that choose the edges matter too
					for i, e := range x.Edges {
						walk(e, d+1)
						if len(x.Block().Preds) > i {
							p := x.Block().Preds[i]
							if iff, ok := p.Instrs[len(p.Instrs)-1].(*ssa.If); ok {
								walk(iff.Cond, d+1)
							}
						}
					}
				case *ssa.BinOp:
					walk(x.X, d+1)
					walk(x.Y, d+1)
				case *ssa.UnOp:
					// a local variable / captured cell: follow its stores
					if x.Op == token.MUL {
						if cell := cellRoot(x.X); cell != nil {
							for _, s2 := range storesToCell(cell) {
								walk(s2.Val, d+1)
							}
						}
					} else {
						walk(x.X, d+1)
					}
				case *ssa.FieldAddr:
				case *ssa.Extract:
					walk(x.Tuple, d+1)
				}
			}
			walk(st.Val, 0)
			r.check(okSrc, fmt.Sprintf("%s:Matcher.sort <- %s", relName(fn), describe(st.Val)), st.Pos(), fn, "the stored value depends on the user's sort option", "Matcher.sort is set from something that does not involve the sort option")
		})
	}
	r.floor("assignments of Matcher.sort", n, 3)
}
