package main

import (
	"fmt"

	"golang.org/x/tools/go/ssa"
)

func debugPC(fn *ssa.Function) {
	pc := pathConds(fn)
	for _, b := range fn.Blocks {
		ds := pc.At(b)
		fmt.Printf("block %d (%s): %d disjuncts collapsed=%v\n", b.Index, b.Comment, len(ds), pc.coll[b])
		for _, d := range ds {
			fmt.Printf("    ")
			for _, l := range d {
				fmt.Printf("[%s=%v] ", l.Atom.Name(), l.Val)
			}
			fmt.Println()
		}
	}
}
