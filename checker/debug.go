package main

import (
	"fmt"
	"go/types"

	"golang.org/x/tools/go/ssa"
)

func debugPC(fn *ssa.Function) {
	pc := pathConds(fn)
	for _, b := range fn.Blocks {
		ds := pc.At(b)
		fmt.Printf("block %d (%s): %d disjuncts collapsed=%v\n", b.Index, b.Comment, len(ds), pc.coll[b])
		for _, d := range ds {
			fmt.Printf("    ")
			for _, l := range d {
				fmt.Printf("[%s=%v] ", l.Atom.Name(), l.Val)
			}
			fmt.Println()
		}
	}
}

// debugConstIdx lists constant-index accesses on slices in functions reachable from ParseOptions.
func debugConstIdx(l *Loaded) {
	po := l.Fn("fzf", "ParseOptions")
	seen := reachableFns(po)
	n := 0
	for fn := range seen {
		if fn.Pkg != l.pkg("fzf") {
			continue
		}
		eachInstr(fn, func(in ssa.Instruction) {
			ia, ok := in.(*ssa.IndexAddr)
			if !ok {
				return
			}
			if _, ok := ia.X.Type().Underlying().(*types.Slice); !ok {
				return
			}
			if k, isc := constIntVal(ia.Index); isc {
				n++
				fmt.Printf("%s %s [%d] of %s\n", l.pos(ia.Pos()), fn.Name(), k, describe(ia.X))
			}
		})
	}
	fmt.Println("total", n)
}

func debugDiv(l *Loaded) {
	n := 0
	for _, fn := range l.AllFuncs() {
		if fn.Pkg == nil || !isModulePkg(fn.Pkg.Pkg) {
			continue
		}
		eachInstr(fn, func(in ssa.Instruction) {
			b, ok := in.(*ssa.BinOp)
			if !ok || (b.Op.String() != "/" && b.Op.String() != "%") {
				return
			}
			if _, isc := b.Y.(*ssa.Const); isc {
				return
			}
			if bt, ok := b.Y.Type().Underlying().(*types.Basic); !ok || bt.Info()&types.IsInteger == 0 {
				return
			}
			n++
			fmt.Printf("%s %s  %s / %s\n", l.pos(b.Pos()), fn.Name(), b.X.Name(), describe(b.Y))
		})
	}
	fmt.Println("total", n)
}
