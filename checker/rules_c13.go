package main

import (
	"fmt"
	"go/token"
	"go/types"
	"sort"
	"strings"

	"golang.org/x/tools/go/ssa"
)

func init() {
	register(&propDef{
		id:  "C13",
		run: runC13,
		explanation: "Structural clauses of 'loading and searching do not interfere': (R1) lock discipline by belief — every field of a lock-owning struct (ChunkList, ChunkCache, EventBox, Reader) that is mutated after construction and accessed at least once under the struct's lock is accessed under it everywhere (must-hold lockset dataflow with caller-holds-lock summaries); " +
			"(R2) Snapshot hands out private copies of the boundary chunks (see also C06-R2); (R3) every return of scan after the workers were spawned is dominated by WaitGroup.Wait or by the loop that receives one result per spawned worker, workers always signal Done, and a cancelled scan returns no merger; " +
			"(R4) each worker goroutine gets the slab of its own partition; (R5, thorough) Item.text/origText/colors are written only by the item builders / whole-struct copies, and Reader.event only through sync/atomic apart from the re-initialisation that precedes the poller.",
		notDecided: "equality of the published result with a sequential filter of the snapshot; data races on Terminal (its mutex is deliberately released around child processes); races through unsafe aliasing",
	})
}

func runC13(c *Ctx, r *Report) {
	defer round8(c, r, "C13")
	l := c.L
	// ---------------- R1 ----------------
	r.rule("C13-R1", "C (lockset + belief)", "P1",
		"for every struct type with a sync lock field (Terminal excluded): a field mutated outside constructors and accessed under the lock at least once is accessed under the lock everywhere",
		"loader and matcher race on the chunk list / chunk cache / mailbox / reader state")
	la := analyseLocks(l, map[string]bool{"Terminal": true})
	type fk struct{ typ, field string }
	by := map[fk][]fieldAccess{}
	for _, a := range la.accesses {
		by[fk{a.typ, a.field}] = append(by[fk{a.typ, a.field}], a)
	}
	var keys []fk
	for k := range by {
		keys = append(keys, k)
	}
	sort.Slice(keys, func(i, j int) bool { return keys[i].typ+keys[i].field < keys[j].typ+keys[j].field })
	guardedFields, guardedAccesses := 0, 0
	typesSeen := map[string]bool{}
	for _, k := range keys {
		accs := by[k]
		locks := la.lockOf[k.typ]
		mutated, under := false, 0
		for _, a := range accs {
			if a.ctor {
				continue
			}
			if a.write {
				mutated = true
			}
			for _, lk := range locks {
				if a.held[lk] {
					under++
					break
				}
			}
		}
		if !mutated || under == 0 {
			r.info(fmt.Sprintf("%s.%s:not guarded", k.typ, k.field), token.NoPos, nil,
				fmt.Sprintf("%s.%s: %d accesses, mutated-after-construction=%v, under-lock=%d — no belief (immutable after construction or never locked)", k.typ, k.field, len(accs), mutated, under))
			continue
		}
		guardedFields++
		typesSeen[k.typ] = true
		for _, a := range accs {
			if a.ctor {
				continue
			}
			guardedAccesses++
			held := false
			onlyShared := false
			for _, lk := range locks {
				if a.held[lk] {
					if strings.HasSuffix(lk, "#R") && a.write {
						onlyShared = true // a write under a read lock is not guarded
						continue
					}
					held = true
				}
			}
			kind := "read"
			if a.write {
				kind = "write"
			}
			if !held && onlyShared {
				r.bad(fmt.Sprintf("%s:%s of %s.%s", relName(a.fn), kind, k.typ, k.field), a.in.Pos(), a.fn, "writes hold the exclusive lock", "the field is written while only the READ lock is held: concurrent writers / readers are admitted")
				continue
			}
			r.check(held, fmt.Sprintf("%s:%s of %s.%s", relName(a.fn), kind, k.typ, k.field), a.in.Pos(), a.fn,
				fmt.Sprintf("%s of %s.%s holds %s", kind, k.typ, k.field, strings.Join(locks, "|")),
				fmt.Sprintf("accessed without the lock although %d other accesses hold it", under))
		}
	}
	r.floor("lock-guarded fields inferred", guardedFields, 7)
	r.floor("struct types with an inferred lock discipline", len(typesSeen), 4)
	r.floor("guarded accesses", guardedAccesses, 35)
	for _, s := range la.summary {
		r.note("caller-holds-lock summary: %s", s)
	}
	r.exempt("Terminal", "out of scope: Terminal.mutex is deliberately released and re-taken around child processes (stated limit)")

	// ---------------- R2 ----------------
	r.rule("C13-R2", "A + C", "P1",
		"Snapshot replaces the last element (and under tail>0 the first) of the returned slice with the address of a fresh copy of the chunk, and the whole-chunk copies are made while ChunkList.mutex is held",
		"the matcher reads a chunk the loader is still appending to / the copy itself is torn by a concurrent Push")
	snapshotCopies(c, r)
	if snap := l.Fn("fzf", "(*ChunkList).Snapshot"); snap != nil {
		chunkT := l.Named("fzf", "Chunk")
		n := 0
		eachInstr(snap, func(in ssa.Instruction) {
			u, ok := in.(*ssa.UnOp)
			if !ok || u.Op != token.MUL {
				return
			}
			nn, ok := u.Type().(*types.Named)
			if !ok || chunkT == nil || nn.Obj() != chunkT.Obj() {
				return
			}
			n++
			r.check(la.sets[snap][in]["ChunkList.mutex"], relName(snap)+":chunk copy under lock", in.Pos(), snap, "whole-chunk copy is made while holding ChunkList.mutex", "the chunk is copied after the lock was released: a concurrent Push can tear it")
		})
		r.floor("whole-chunk copies in Snapshot", n, 2)
	}

	c13r3(c, r)

	// ---------------- R4 ----------------
	r.rule("C13-R4", "B", "P1",
		"the slab handed to each worker goroutine of scan is Matcher.slab[i] with i the index of the spawning loop; no other goroutine receives an element of Matcher.slab",
		"two goroutines scribble on one scratch matrix")
	oneSlabPerWorker(c, r)

	c13r6(c, r)
	c13r7(c, r)
	c13r8(c, r)
	c13r9(c, r)
	c13r10(c, r)
	c08r19(c, r) // the published result is the filter of the snapshot it is published for, also right after a reload
	c04r14(c, r) // a search over a --tail snapshot never returns the unused slot of the partial first chunk
	c08r13(c, r) // a result published for a snapshot is computed for that snapshot's revision
	c08r5(c, r)  // ... and from the field split of that revision, not from tokens an earlier search left in the items
	c01r3(c, r)  // a cached list narrower than the query's true result is a wrong result of the search
	c13r8(c, r)
	c06r6(c, r) // items never change after they have been read
	c06r1(c, r) // items never change after they have been read

	if c.thorough() {
		// ---------------- R5 ----------------
		r.rule("C13-R5", "B (writer census)", "P2",
			"Item.text / origText / colors are stored only in item-builder closures, in whole-struct copies, or on objects allocated in the same function; Reader.event is touched only through sync/atomic, except a plain re-initialisation that precedes the poller's start",
			"items change after they were read / torn event flag")
		itemWriters(c, r)
	}
}

func retShape(ret *ssa.Return) string {
	if len(ret.Results) == 2 {
		if cn, ok := retResult(ret, 0).(*ssa.Const); ok && cn.IsNil() {
			return "nil merger"
		}
		return "merger"
	}
	return "return"
}

// snapshotCopies implements C06-R2 / C13-R2.
func snapshotCopies(c *Ctx, r *Report) {
	l := c.L
	snap := l.Fn("fzf", "(*ChunkList).Snapshot")
	if snap == nil {
		r.unest("anchors", token.NoPos, nil, "anchor ChunkList.Snapshot", "cannot resolve")
		return
	}
	// returned slice value
	var retSlice ssa.Value
	for _, b := range snap.Blocks {
		if ret, ok := b.Instrs[len(b.Instrs)-1].(*ssa.Return); ok {
			retSlice = retResult(ret, 0)
		}
	}
	if retSlice == nil {
		r.unest(relName(snap)+":return", token.NoPos, snap, "returned slice", "not found")
		return
	}
	aliases := forwardAliases(snap, retSlice)
	// stores into elements of the returned slice of the address of a fresh Alloc initialised by a whole-struct load
	type elemStore struct {
		st    *ssa.Store
		first bool
		last  bool
	}
	var stores []elemStore
	eachInstr(snap, func(in ssa.Instruction) {
		st, ok := in.(*ssa.Store)
		if !ok {
			return
		}
		ia, ok := st.Addr.(*ssa.IndexAddr)
		if !ok || !(aliases[ia.X] || ia.X == retSlice) {
			return
		}
		al, ok := st.Val.(*ssa.Alloc)
		if !ok {
			return
		}
		// alloc initialised by `*alloc = *chunkptr`
		initOK := false
		for _, ref := range *al.Referrers() {
			if s2, ok := ref.(*ssa.Store); ok && s2.Addr == ssa.Value(al) {
				if u, ok := s2.Val.(*ssa.UnOp); ok && u.Op == token.MUL {
					initOK = true
				}
			}
		}
		if !initOK {
			return
		}
		es := elemStore{st: st}
		if isConstInt(ia.Index, 0) {
			es.first = true
		} else if bo, ok := ia.Index.(*ssa.BinOp); ok && bo.Op == token.SUB && isConstInt(bo.Y, 1) {
			es.last = true
		}
		stores = append(stores, es)
	})
	var first, last *ssa.Store
	for _, s := range stores {
		if s.first {
			first = s.st
		}
		if s.last {
			last = s.st
		}
	}
	pc := pathConds(snap)
	// last: executed whenever the slice is non-empty -> guard only len>0
	if last == nil {
		r.bad(relName(snap)+":copy last chunk", snap.Pos(), snap, "the last chunk of a snapshot is a private copy", "no store of a fresh copy into ret[len-1]")
	} else {
		r.check(onlyGuards(pc, last.Block(), func(a ssa.Value) bool { return isLenCmp(a) }), relName(snap)+":copy last chunk", last.Pos(), snap,
			"ret[len-1] = &copy is conditional only on the snapshot being non-empty", "the copy is skipped under some other condition")
	}
	if first == nil {
		r.bad(relName(snap)+":copy first chunk (tail)", snap.Pos(), snap, "under --tail the first chunk of a snapshot is a private copy", "no store of a fresh copy into ret[0]")
	} else {
		r.check(onlyGuards(pc, first.Block(), func(a ssa.Value) bool { return isLenCmp(a) || isParamCmp(a, snap, "tail") }), relName(snap)+":copy first chunk (tail)", first.Pos(), snap,
			"ret[0] = &copy is conditional only on tail>0 and the chunk count", "the copy is skipped under some other condition")
	}
}

func isLenCmp(a ssa.Value) bool {
	b, ok := a.(*ssa.BinOp)
	if !ok {
		return false
	}
	isLen := func(v ssa.Value) bool {
		c, ok := v.(*ssa.Call)
		return ok && calleeName(c.Common()) == "builtin.len"
	}
	return isLen(b.X) || isLen(b.Y)
}

func isParamCmp(a ssa.Value, fn *ssa.Function, name string) bool {
	b, ok := a.(*ssa.BinOp)
	if !ok {
		return false
	}
	for _, p := range fn.Params {
		if p.Name() == name && (b.X == ssa.Value(p) || b.Y == ssa.Value(p)) {
			return true
		}
	}
	return false
}

// onlyGuards: the literals common to all disjuncts at b are all accepted by ok (lock/unrelated literals from
// enclosing branches that are not common are ignored).
func onlyGuards(pc *PathConds, b *ssa.BasicBlock, ok func(a ssa.Value) bool) bool {
	ds := pc.At(b)
	if len(ds) == 0 {
		return false
	}
	for _, lt := range ds[0] {
		common := true
		for _, d := range ds[1:] {
			has := false
			for _, l2 := range d {
				if l2.Atom == lt.Atom && l2.Val == lt.Val {
					has = true
				}
			}
			if !has {
				common = false
			}
		}
		if common && !ok(lt.Atom) {
			return false
		}
	}
	return true
}

// oneSlabPerWorker implements C05-R1 / C13-R4.
func oneSlabPerWorker(c *Ctx, r *Report) {
	l := c.L
	fSlab := l.Field("fzf", "Matcher", "slab")
	scan := l.Fn("fzf", "(*Matcher).scan")
	if fSlab == nil || scan == nil {
		r.unest("anchors", token.NoPos, nil, "anchors Matcher.slab / Matcher.scan", "cannot resolve")
		return
	}
	nGo := 0
	for _, f := range l.AllFuncs() {
		eachInstr(f, func(in ssa.Instruction) {
			g, ok := in.(*ssa.Go)
			if !ok {
				return
			}
			for ai, a := range g.Call.Args {
				// is the argument an element of Matcher.slab?
				u, ok := a.(*ssa.UnOp)
				if !ok || u.Op != token.MUL {
					continue
				}
				ia, ok := u.X.(*ssa.IndexAddr)
				if !ok || !isLoadOf(ia.X, fSlab) {
					continue
				}
				nGo++
				// index must be the loop variable of the enclosing spawn loop: a phi/binop chain rooted in a
				// rangeindex phi in a block that dominates the go and lies on a cycle with it
				idxOK := false
				for v := range backwardSlice(ia.Index, nil, nil) {
					if phi, ok := v.(*ssa.Phi); ok && phi.Block().Dominates(g.Block()) && reachFrom(g.Block())[phi.Block()] {
						idxOK = true
					}
				}
				if _, isConst := ia.Index.(*ssa.Const); isConst {
					idxOK = false
				}
				r.check(idxOK && rootFn(f) == scan, fmt.Sprintf("%s:go arg %d is slab[i]", relName(f), ai), g.Pos(), f,
					"worker goroutine receives Matcher.slab[i] for the spawning loop's own index i", "workers share a slab (constant or foreign index), or a goroutine outside scan uses the matcher's slabs")
			}
		})
	}
	r.floor("go statements receiving a Matcher.slab element", nGo, 1)
	// no closure started with `go` captures Matcher.slab elements otherwise: census of all reads of Matcher.slab
	for _, f := range l.AllFuncs() {
		eachInstr(f, func(in ssa.Instruction) {
			fa, ok := in.(*ssa.FieldAddr)
			if !ok {
				return
			}
			if fld, _ := fieldOf(fa); fld != fSlab {
				return
			}
			okSite := rootFn(f) == scan && f == scan
			if al, isAlloc := fa.X.(*ssa.Alloc); isAlloc && al.Parent() == f {
				okSite = true // constructor
			}
			r.check(okSite, relName(f)+":access Matcher.slab", in.Pos(), f, "Matcher.slab is accessed only by scan itself (spawning side) and the constructor", "another function or a worker closure reaches into the slab table")
		})
	}
	// filter-mode slab: used only between Lock/Unlock of the callback's own mutex
	run := l.Fn("fzf", "Run")
	makeSlab := l.Fn("util", "MakeSlab")
	if run != nil && makeSlab != nil {
		for _, f := range withClosures(run) {
			eachInstr(f, func(in ssa.Instruction) {
				call, ok := in.(*ssa.Call)
				if !ok || call.Common().StaticCallee() != makeSlab {
					return
				}
				// uses of the slab value (through cells) in closures: every use must hold a local mutex
				al := forwardAliases(f, call)
				for _, g := range withClosures(run) {
					if g == f {
						continue
					}
					ls := localLocksets(g)
					eachInstr(g, func(i2 ssa.Instruction) {
						ci, ok := i2.(ssa.CallInstruction)
						if !ok {
							return
						}
						for _, a := range ci.Common().Args {
							if al[a] {
								r.check(len(ls[i2]) > 0, relName(g)+":filter slab under mutex", i2.Pos(), g, "the streaming filter's single slab is used only while the callback's mutex is held", "concurrent reader callbacks would share the slab")
							}
						}
					})
				}
			})
		}
	}
}

// localLocksets: must-hold set for locks that are local variables / captured cells (Lock on an Alloc or FreeVar).
func localLocksets(fn *ssa.Function) map[ssa.Instruction]map[ssa.Value]bool {
	res := map[ssa.Instruction]map[ssa.Value]bool{}
	in := map[*ssa.BasicBlock]map[ssa.Value]bool{}
	out := map[*ssa.BasicBlock]map[ssa.Value]bool{}
	visited := map[*ssa.BasicBlock]bool{}
	opOf := func(i ssa.Instruction) (ssa.Value, bool, bool) {
		ci, ok := i.(ssa.CallInstruction)
		if !ok {
			return nil, false, false
		}
		if _, d := i.(*ssa.Defer); d {
			return nil, false, false
		}
		n := calleeName(ci.Common())
		if n != "(*sync.Mutex).Lock" && n != "(*sync.Mutex).Unlock" {
			return nil, false, false
		}
		root := cellRoot(ci.Common().Args[0])
		if _, ok := root.(*ssa.Alloc); !ok {
			return nil, false, false
		}
		return root, n == "(*sync.Mutex).Lock", true
	}
	for iter := 0; iter < 50; iter++ {
		changed := false
		for _, b := range fn.Blocks {
			var cur map[ssa.Value]bool
			if b == fn.Blocks[0] {
				cur = map[ssa.Value]bool{}
			} else {
				first := true
				for _, p := range b.Preds {
					if !visited[p] {
						continue
					}
					if first {
						cur = map[ssa.Value]bool{}
						for k := range out[p] {
							cur[k] = true
						}
						first = false
					} else {
						for k := range cur {
							if !out[p][k] {
								delete(cur, k)
							}
						}
					}
				}
				if cur == nil {
					continue
				}
			}
			in[b] = cur
			st := map[ssa.Value]bool{}
			for k := range cur {
				st[k] = true
			}
			for _, ins := range b.Instrs {
				cp := map[ssa.Value]bool{}
				for k := range st {
					cp[k] = true
				}
				res[ins] = cp
				if v, acq, ok := opOf(ins); ok {
					if acq {
						st[v] = true
					} else {
						delete(st, v)
					}
				}
			}
			if !visited[b] || len(out[b]) != len(st) {
				changed = true
			}
			visited[b] = true
			out[b] = st
		}
		if !changed {
			break
		}
	}
	return res
}

func itemWriters(c *Ctx, r *Report) {
	l := c.L
	item := l.Named("fzf", "Item")
	newCL := l.Fn("fzf", "NewChunkList")
	if item == nil || newCL == nil {
		r.unest("anchors", token.NoPos, nil, "anchors Item / NewChunkList", "cannot resolve")
		return
	}
	builders := map[*ssa.Function]bool{}
	for _, f := range l.AllFuncs() {
		eachInstr(f, func(in ssa.Instruction) {
			call, ok := in.(*ssa.Call)
			if !ok || call.Common().StaticCallee() != newCL {
				return
			}
			fs, _ := resolveFuncs(call.Call.Args[1])
			for _, b := range fs {
				builders[b] = true
			}
		})
	}
	r.floor("item builder closures passed to NewChunkList", len(builders), 2)
	watched := map[string]bool{"text": true, "origText": true, "colors": true}
	n := 0
	for _, f := range l.AllFuncs() {
		eachInstr(f, func(in ssa.Instruction) {
			st, ok := in.(*ssa.Store)
			if !ok {
				return
			}
			// peel nested field addresses (item.text.Index = ...)
			addr := st.Addr
			var top *ssa.FieldAddr
			for {
				fa, ok := addr.(*ssa.FieldAddr)
				if !ok {
					break
				}
				top = fa
				if nn, ok := deref(fa.X.Type()).(*types.Named); ok && nn.Obj() == item.Obj() {
					break
				}
				addr = fa.X
			}
			if top == nil {
				return
			}
			nn, ok := deref(top.X.Type()).(*types.Named)
			if !ok || nn.Obj() != item.Obj() {
				return
			}
			fld, _ := fieldOf(top)
			if !watched[fld.Name()] {
				return
			}
			n++
			okW := builders[f]
			why := "item builder"
			if freshIn(top.X, f, 0) {
				okW, why = true, "object allocated in the same function"
			}
			if g, isG := addrRoot(top.X).(*ssa.Global); isG {
				okW, why = true, "package-level sentinel "+g.Name()
			}
			r.check(okW, relName(f)+":store Item."+fld.Name(), st.Pos(), f, "Item."+fld.Name()+" is written by: "+why, "an item is modified after it was read (not a builder, not a private copy)")
		})
	}
	r.floor("stores to Item.text/origText/colors", n, 4)
	// Reader.event
	fEvent := l.Field("fzf", "Reader", "event")
	if fEvent == nil {
		r.unest("anchors event", token.NoPos, nil, "anchor Reader.event", "cannot resolve")
		return
	}
	for _, f := range l.AllFuncs() {
		eachInstr(f, func(in ssa.Instruction) {
			fa, ok := in.(*ssa.FieldAddr)
			if !ok {
				return
			}
			if fld, _ := fieldOf(fa); fld != fEvent {
				return
			}
			if al, isAlloc := fa.X.(*ssa.Alloc); isAlloc && al.Parent() == f {
				return
			}
			for v := range forwardAliases(f, fa) {
				if v.Referrers() == nil {
					continue
				}
				for _, ref := range *v.Referrers() {
					switch x := ref.(type) {
					case *ssa.Call:
						nm := calleeName(x.Common())
						r.check(strings.HasPrefix(nm, "sync/atomic."), relName(f)+":Reader.event via "+nm, x.Pos(), f, "Reader.event accessed through "+nm, "non-atomic access")
					case *ssa.Store:
						if x.Addr != v {
							continue
						}
						// plain store allowed only if it dominates the start of the poller in the same function
						poller := l.Fn("fzf", "(*Reader).startEventPoller")
						dom := false
						eachInstr(f, func(i2 ssa.Instruction) {
							if staticCallee(i2) == poller && dominates(x, i2) {
								dom = true
							}
						})
						r.check(dom, relName(f)+":Reader.event plain store", x.Pos(), f, "plain re-initialisation of Reader.event precedes startEventPoller()", "plain store races with the poller goroutine")
					case *ssa.UnOp:
						if x.Op == token.MUL {
							r.bad(relName(f)+":Reader.event plain load", x.Pos(), f, "plain load of Reader.event", "non-atomic access")
						}
					}
				}
			}
		})
	}
	r.exempt("Reader.event in restart", "re-initialised with a plain store before the poller goroutine is started (dominates startEventPoller)")
}

// freshIn: the pointer value denotes an object allocated in function f (directly, or through a local
// variable cell every store of which is such an allocation).
func freshIn(v ssa.Value, f *ssa.Function, d int) bool {
	if d > 4 {
		return false
	}
	switch x := v.(type) {
	case *ssa.Alloc:
		return x.Parent() == f || rootFn(x.Parent()) == rootFn(f)
	case *ssa.FieldAddr:
		return freshIn(x.X, f, d+1)
	case *ssa.IndexAddr:
		return freshIn(x.X, f, d+1)
	case *ssa.UnOp:
		if x.Op != token.MUL {
			return false
		}
		cell, ok := cellRoot(x.X).(*ssa.Alloc)
		if !ok {
			return false
		}
		sts := storesToCell(cell)
		if len(sts) == 0 {
			return false
		}
		for _, st := range sts {
			if !freshIn(st.Val, f, d+1) {
				return false
			}
		}
		return true
	}
	return false
}

// c13r3: every return of scan after the spawn joins the workers (shared with C02 and C05: a leftover worker shares its slab with the next scan).
func c13r3(c *Ctx, r *Report) {
	l := c.L
	// ---------------- R3 ----------------
	r.rule("C13-R3", "A (dominance)", "P1",
		"in Matcher.scan every return reachable from a `go` statement is dominated by a call that waits on the workers' WaitGroup or by the header of the loop that receives one result per spawned worker; every worker defers WaitGroup.Done",
		"a superseded scan returns while its workers still run on the slabs (next scan reuses them), or Wait hangs")
	scan := l.Fn("fzf", "(*Matcher).scan")
	if scan == nil {
		r.unest("anchors", token.NoPos, nil, "anchor Matcher.scan", "cannot resolve")
	} else {
		var gos []*ssa.Go
		eachInstr(scan, func(in ssa.Instruction) {
			if g, ok := in.(*ssa.Go); ok {
				gos = append(gos, g)
			}
		})
		r.floor("go statements in scan", len(gos), 1)
		containsWait := func(f *ssa.Function) bool {
			found := false
			for _, g := range withClosures(f) {
				eachInstr(g, func(in ssa.Instruction) {
					if _, ok := isCall(in, "(*sync.WaitGroup).Wait"); ok {
						found = true
					}
				})
			}
			return found
		}
		// loop bound of a block's loop header: `i < len(X)` -> X
		loopRangeOf := func(b *ssa.BasicBlock) (ssa.Value, *ssa.BasicBlock) {
			// find a header h that dominates b, with If cond LSS(_, len(X)), and b in the loop (h reachable from b)
			for h := b; h != nil; h = h.Idom() {
				ifi, ok := h.Instrs[len(h.Instrs)-1].(*ssa.If)
				if !ok {
					continue
				}
				bo, ok := ifi.Cond.(*ssa.BinOp)
				if !ok || bo.Op != token.LSS {
					continue
				}
				call, ok := bo.Y.(*ssa.Call)
				if !ok || calleeName(call.Common()) != "builtin.len" {
					continue
				}
				if h != b && !reachFrom(b)[h] {
					continue
				}
				return call.Call.Args[0], h
			}
			return nil, nil
		}
		for _, g := range gos {
			spawnX, _ := loopRangeOf(g.Block())
			// worker signals Done
			ws, _ := resolveFuncs(g.Call.Value)
			for _, w := range ws {
				done := false
				eachInstr(w, func(in ssa.Instruction) {
					d, ok := in.(*ssa.Defer)
					if !ok {
						return
					}
					fs, _ := calleesOf(d.Common())
					for _, df := range fs {
						eachInstr(df, func(i2 ssa.Instruction) {
							if _, ok := isCall(i2, "(*sync.WaitGroup).Done"); ok {
								done = true
							}
						})
					}
					if _, ok := isCall(in, "(*sync.WaitGroup).Done"); ok {
						done = true
					}
				})
				r.check(done, relName(w)+":defer Done", w.Pos(), w, "worker goroutine defers WaitGroup.Done()", "a worker can exit without signalling: wait() hangs")
			}
			for _, b := range scan.Blocks {
				ret, ok := b.Instrs[len(b.Instrs)-1].(*ssa.Return)
				if !ok || !canReach(g, ret) {
					continue
				}
				okDom := false
				how := ""
				eachInstr(scan, func(in ssa.Instruction) {
					ci, isCall := in.(ssa.CallInstruction)
					if isCall && dominates(in, ret) {
						if fs, ok := calleesOf(ci.Common()); ok {
							for _, f := range fs {
								if f.Parent() != nil && rootFn(f) == scan && containsWait(f) {
									okDom, how = true, "WaitGroup.Wait()"
								}
							}
						}
					}
					// receive loop
					if u, isRecv := in.(*ssa.UnOp); isRecv && u.Op == token.ARROW {
						x, h := loopRangeOf(in.Block())
						if x != nil && x == spawnX && h != nil && h.Dominates(b) && h != g.Block() {
							if lx, lh := loopRangeOf(g.Block()); lx == x && lh != h {
								okDom, how = true, "the loop receiving one result per spawned worker"
							}
						}
					}
				})
				r.check(okDom, fmt.Sprintf("%s:return after spawn (%s)", relName(scan), retShape(ret)), ret.Pos(), scan,
					"return after the workers were spawned is dominated by "+how, "returns while workers may still be running")
			}
		}
	}

}

// c13r7: the matcher workers do not write into published items.
func c13r7(c *Ctx, r *Report) {
	l := c.L
	r.rule("C13-R7", "B (writer census over the call graph of the workers)", "P1",
		"no function reachable from the worker goroutines of Matcher.scan stores into a field of an Item or of its util.Chars that was not allocated by that function: published items are shared by pointer between snapshots, the chunk list copies them (ChunkList.Snapshot) without synchronising with the workers",
		"a lazily memoised field written by a worker races with the copy the coordinator takes of the same chunk under --tail: torn memo (length known but 0) kept for good, data race on shared memory")
	scan := l.Fn("fzf", "(*Matcher).scan")
	tItem := l.Named("fzf", "Item")
	tChars := l.Named("util", "Chars")
	if scan == nil || tItem == nil || tChars == nil {
		r.unest("anchors", token.NoPos, nil, "anchors Matcher.scan / Item / util.Chars", "cannot resolve")
		return
	}
	// worker closures: functions started by `go` in scan
	var roots []*ssa.Function
	eachInstr(scan, func(in ssa.Instruction) {
		if g, ok := in.(*ssa.Go); ok {
			if fns, ok := resolveFuncs(g.Call.Value); ok {
				roots = append(roots, fns...)
			}
		}
	})
	r.floor("worker goroutines of scan", len(roots), 1)
	cg := l.CallGraph()
	seen := map[*ssa.Function]bool{}
	var work []*ssa.Function
	for _, f := range roots {
		work = append(work, f)
	}
	for len(work) > 0 {
		f := work[len(work)-1]
		work = work[:len(work)-1]
		if f == nil || seen[f] || f.Blocks == nil {
			continue
		}
		seen[f] = true
		if n := cg.Nodes[f]; n != nil {
			for _, e := range n.Out {
				if g := e.Callee.Func; g != nil && g.Pkg != nil && isModulePkg(g.Pkg.Pkg) {
					work = append(work, g)
				}
			}
		}
		for _, an := range f.AnonFuncs {
			work = append(work, an)
		}
	}
	isShared := func(t types.Type) bool {
		t = deref(t)
		return types.Identical(t, tItem) || types.Identical(t, tChars)
	}
	nFn := 0
	var fns []*ssa.Function
	for f := range seen {
		fns = append(fns, f)
	}
	sort.Slice(fns, func(i, j int) bool { return fns[i].String() < fns[j].String() })
	for _, f := range fns {
		nFn++
		eachInstr(f, func(in ssa.Instruction) {
			st, ok := in.(*ssa.Store)
			if !ok {
				return
			}
			fa, ok := st.Addr.(*ssa.FieldAddr)
			if !ok || !isShared(fa.X.Type()) {
				return
			}
			// base of the object
			base := fa.X
			for {
				if f2, ok := base.(*ssa.FieldAddr); ok {
					base = f2.X
					continue
				}
				break
			}
			if a, ok := base.(*ssa.Alloc); ok && a.Parent() == f {
				return // an object of this call (a temporary Chars, a Result under construction)
			}
			fld := deref(fa.X.Type()).Underlying().(*types.Struct).Field(fa.Field)
			key := fmt.Sprintf("%s:store %s.%s", relName(f), deref(fa.X.Type()).(*types.Named).Obj().Name(), fld.Name())
			r.bad(key, st.Pos(), f, "workers only read published items", "a worker writes "+fld.Name()+" of a published item (lazy memo) while ChunkList.Snapshot may be copying that item")
		})
	}
	r.note(fmt.Sprintf("functions reachable from the scan workers: %d", nFn))
	r.floor("functions reachable from the scan workers", nFn, 10)
}

// c13r8: the writer of a chunk runs under the list's lock.
func c13r8(c *Ctx, r *Report) {
	l := c.L
	r.rule("C13-R8", "C (lockset at call sites of the owned object's writer)", "P1",
		"Chunk has no lock of its own: its fields are written only by Chunk.push (and by ChunkList.Snapshot on private copies, C13-R6), and every call of Chunk.push is made while ChunkList.mutex is held — the same lock under which Snapshot copies the last chunk",
		"the item builder fills a slot while Snapshot copies the chunk: lost or half-built items, two pushers on one slot (index out of range)")
	push := l.Fn("fzf", "(*Chunk).push")
	tChunk := l.Named("fzf", "Chunk")
	if push == nil || tChunk == nil {
		r.unest("anchors", token.NoPos, nil, "anchors Chunk.push / Chunk", "cannot resolve")
		return
	}
	la := analyseLocks(l, map[string]bool{"Terminal": true})
	nCalls := 0
	for _, fn := range l.AllFuncs() {
		eachInstr(fn, func(in ssa.Instruction) {
			call, ok := in.(*ssa.Call)
			if !ok || !callIs(call.Common(), push) {
				return
			}
			nCalls++
			held := la.sets[fn][in]
			ok2 := false
			var ks []string
			for k := range held {
				ks = append(ks, k)
				if strings.HasPrefix(k, "ChunkList.") {
					ok2 = true
				}
			}
			sort.Strings(ks)
			r.check(ok2, relName(fn)+":Chunk.push under the list lock", in.Pos(), fn, "Chunk.push is called with ChunkList.mutex held", fmt.Sprintf("Chunk.push is called with locks %v held: the slot is filled outside the list lock", ks))
		})
	}
	r.floor("call sites of Chunk.push", nCalls, 1)
	// writers of Chunk fields
	for _, fn := range l.AllFuncs() {
		if fn.Pkg != l.pkg("fzf") {
			continue
		}
		eachInstr(fn, func(in ssa.Instruction) {
			st, ok := in.(*ssa.Store)
			if !ok {
				return
			}
			base := st.Addr
			isChunkField := false
			for {
				switch x := base.(type) {
				case *ssa.FieldAddr:
					if types.Identical(deref(x.X.Type()), tChunk) {
						isChunkField = true
					}
					base = x.X
					continue
				case *ssa.IndexAddr:
					base = x.X
					continue
				}
				break
			}
			if !isChunkField {
				return
			}
			if a, ok := base.(*ssa.Alloc); ok && a.Parent() == fn {
				return // a private copy
			}
			r.check(fn == push, relName(fn)+":writes a Chunk field", st.Pos(), fn, "only Chunk.push writes into a chunk that is not a private copy", "a chunk shared with readers is written outside Chunk.push")
		})
	}
}
