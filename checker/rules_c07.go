package main

import (
	"fmt"
	"go/token"
	"go/types"
	"sort"
	"strings"

	"golang.org/x/tools/go/ssa"
)

func init() {
	register(&propDef{
		id:  "C07",
		run: runC07,
		explanation: "Structural clauses of the output contract: (R1) an item reaches a printer (Options.Printer, Terminal.printer, Options.Output) only through Item.AsString / Item.acceptNth — never through Item.text directly; " +
			"(R2) within every printing function the framing order query -> expect -> print queue -> items is respected by CFG reachability; (R3) exit-code constants are 0/1/2/130 and each render-loop exit path returns the code the property states (close: 0 iff something was printed, else 1; quit 130; fatal 2; print-query 0), filter mode returns 0 iff found, main passes Run's code to os.Exit unchanged; " +
			"(R4) the terminal is restored (tui.Close) before the exit code closure prints; (R5) the --with-nth item builder stores the original bytes on every accepting path.",
		notDecided: "byte-for-byte equality of stdout with the input records; NUL/newline termination; selection order values; --ansi stripping",
	})
}

func runC07(c *Ctx, r *Report) {
	defer round8(c, r, "C07")
	l := c.L
	defer c18r8(c, r) // print-query prints the query as it was when the action ran
	defer c07r7(c, r)
	defer c07r8(c, r)
	defer c07r11(c, r)
	defer c10r7(c, r) // the printed field ends where the displayed field ends
	fPrinterO := l.Field("fzf", "Options", "Printer")
	fPrinterT := l.Field("fzf", "Terminal", "printer")
	fOutput := l.Field("fzf", "Options", "Output")
	fItemText := l.Field("fzf", "Item", "text")
	asString := l.Fn("fzf", "(*Item).AsString")
	acceptNth := l.Fn("fzf", "(*Item).acceptNth")
	if fPrinterO == nil || fPrinterT == nil || fOutput == nil || fItemText == nil || asString == nil || acceptNth == nil {
		r.rule("C07-R1", "D", "P1", "anchors", "")
		r.unest("anchors", token.NoPos, nil, "anchors Options.Printer / Terminal.printer / Options.Output / Item.text / AsString / acceptNth", "cannot resolve")
		return
	}
	type sink struct {
		in  ssa.Instruction
		arg ssa.Value
		fn  *ssa.Function
	}
	var sinks []sink
	for _, f := range l.AllFuncs() {
		eachInstr(f, func(in ssa.Instruction) {
			switch x := in.(type) {
			case ssa.CallInstruction:
				if fld, _ := loadedField(x.Common().Value); fld == fPrinterO || fld == fPrinterT {
					sinks = append(sinks, sink{in, x.Common().Args[0], f})
				}
			case *ssa.Send:
				if fld, _ := loadedField(x.Chan); fld == fOutput {
					sinks = append(sinks, sink{in, x.X, f})
				}
			}
		})
	}
	isSanitizer := func(v ssa.Value) bool {
		call, ok := v.(*ssa.Call)
		if !ok {
			return false
		}
		cal := call.Common().StaticCallee()
		return cal == asString || cal == acceptNth
	}
	classify := func(s sink) (class string, raw bool, slice map[ssa.Value]bool) {
		slice = backwardSliceIP(s.arg, isSanitizer, 3)
		hasItem, hasQuery, hasExpect, hasQueue := false, false, false, false
		for v := range slice {
			if isSanitizer(v) {
				hasItem = true
			}
			if fld, _ := fieldOf(v); fld != nil {
				switch {
				case fld == fItemText:
					raw = true
				case fld == l.Field("fzf", "Terminal", "input") || fld == l.Field("fzf", "Options", "Query") || fld == l.Field("fzf", "Options", "Filter"):
					hasQuery = true
				case fld == l.Field("fzf", "Terminal", "pressed"):
					hasExpect = true
				case fld == l.Field("fzf", "Terminal", "printQueue"):
					hasQueue = true
				}
			}
		}
		if _, isConst := s.arg.(*ssa.Const); isConst {
			hasExpect = true // the only constant ever printed is the empty --expect line
		}
		switch {
		case hasItem || raw:
			class = "item"
		case hasQueue:
			class = "queue"
		case hasExpect:
			class = "expect"
		case hasQuery:
			class = "query"
		default:
			class = "other"
		}
		return
	}

	// ---------------- R1 ----------------
	r.rule("C07-R1", "D (backward slice with sanitisers, inter-procedural through local closures)", "P1",
		"no argument of Options.Printer / Terminal.printer / a send on Options.Output is derived from Item.text except through Item.AsString or Item.acceptNth",
		"with --with-nth the transformed text is printed instead of the original record")
	type cls struct {
		s     sink
		class string
	}
	var classified []cls
	for _, s := range sinks {
		class, raw, _ := classify(s)
		classified = append(classified, cls{s, class})
		key := fmt.Sprintf("%s:Printer arg <- Item.text", relName(s.fn))
		if raw {
			r.bad(key, s.in.Pos(), s.fn, "printer argument ("+class+")", "derived from Item.text without passing Item.AsString / Item.acceptNth")
		} else {
			r.ok(fmt.Sprintf("%s:printer(%s)", relName(s.fn), class), s.in.Pos(), s.fn, "printer argument of class `"+class+"` does not read Item.text directly")
		}
		if class == "other" && s.fn.Parent() != nil {
			// the printer wrapper `opts.Printer = func(str){ opts.Output <- str }` forwards its parameter
		}
	}
	r.floor("printer sinks", len(sinks), 10)

	// ---------------- R2 ----------------
	r.rule("C07-R2", "A (CFG reachability between classified printer calls)", "P1",
		"in every function that prints, no item line can be followed by a query/expect/queue line, no queue line by a query/expect line and no expect line by a query line",
		"--print-query / --expect lines no longer come first")
	rank := map[string]int{"query": 0, "expect": 1, "queue": 2, "item": 3}
	byFn := map[*ssa.Function][]cls{}
	for _, c := range classified {
		if _, ok := rank[c.class]; ok {
			byFn[c.s.fn] = append(byFn[c.s.fn], c)
		}
	}
	var fnsSorted []*ssa.Function
	for f := range byFn {
		fnsSorted = append(fnsSorted, f)
	}
	sort.Slice(fnsSorted, func(i, j int) bool { return fnsSorted[i].String() < fnsSorted[j].String() })
	pairs := 0
	for _, f := range fnsSorted {
		cs := byFn[f]
		for _, a := range cs {
			for _, b := range cs {
				if rank[a.class] <= rank[b.class] {
					continue
				}
				pairs++
				// a is later-class; it must not be able to reach b
				if canReach(a.s.in, b.s.in) {
					r.bad(fmt.Sprintf("%s:%s before %s", relName(f), a.class, b.class), a.s.in.Pos(), f,
						fmt.Sprintf("%s line can be printed before a %s line", a.class, b.class),
						fmt.Sprintf("the %s print at %s is reachable from the %s print", b.class, l.pos(b.s.in.Pos()), a.class))
				} else {
					r.ok(fmt.Sprintf("%s:%s after %s", relName(f), a.class, b.class), a.s.in.Pos(), f,
						fmt.Sprintf("no %s line after the %s line at this site", b.class, a.class))
				}
			}
		}
	}
	r.floor("ordered pairs of printer calls", pairs, 6)

	// ---------------- R3 ----------------
	r.rule("C07-R3", "E (constants) + A (path conditions)", "P1",
		"ExitOk/ExitNoMatch/ExitError/ExitInterrupt == 0/1/2/130; each render-loop request kind exits with the documented code; filter mode returns ExitOk iff found; main hands Run's code to os.Exit unchanged",
		"wrong exit status (the tests compare against the same constants, so a changed constant passes the suite)")
	want := map[string]int64{"ExitOk": 0, "ExitNoMatch": 1, "ExitError": 2, "ExitInterrupt": 130}
	for _, n := range []string{"ExitOk", "ExitNoMatch", "ExitError", "ExitInterrupt"} {
		v, ok := constInt(l.Const("fzf", n))
		r.check(ok && v == want[n], "const "+n, l.Const("fzf", n).Pos(), nil, fmt.Sprintf("%s == %d (documented exit status)", n, want[n]), fmt.Sprintf("is %d", v))
	}
	loop := l.Fn("fzf", "(*Terminal).Loop")
	output := l.Fn("fzf", "(*Terminal).output")
	if loop == nil || output == nil {
		r.unest("anchors loop", token.NoPos, nil, "anchors Terminal.Loop / Terminal.output", "cannot resolve")
	} else {
		// find the `exit` closure: the closure in Loop's tree that stores `running=false`... identify structurally:
		// the closure taking one func() int parameter that calls (tui.Renderer).Close.
		var exitFn *ssa.Function
		for _, f := range withClosures(loop) {
			if f.Signature.Params().Len() == 1 && f.Parent() != nil {
				if sg, ok := f.Signature.Params().At(0).Type().Underlying().(*types.Signature); ok && sg.Params().Len() == 0 && sg.Results().Len() == 1 {
					exitFn = f
				}
			}
		}
		if exitFn == nil {
			r.unest(relName(loop)+":exit closure", token.NoPos, loop, "render loop's exit(func() int) closure", "not found")
		} else {
			reqWant := map[string][]int64{"reqQuit": {130}, "reqFatal": {2}, "reqPrintQuery": {0}, "reqClose": {0, 1}}
			reqVal := map[int64]string{}
			for n := range reqWant {
				if v, ok := constInt(l.Const("fzf", n)); ok {
					reqVal[v] = n
				} else {
					r.unest("const "+n, token.NoPos, nil, "request constant "+n, "cannot resolve")
				}
			}
			seenReq := map[string]bool{}
			for _, f := range withClosures(loop) {
				var pc *PathConds
				eachInstr(f, func(in ssa.Instruction) {
					call, ok := in.(*ssa.Call)
					if !ok {
						return
					}
					fs, ok2 := calleesOf(call.Common())
					if !ok2 || len(fs) != 1 || fs[0] != exitFn {
						return
					}
					if pc == nil {
						pc = pathConds(f)
					}
					// which request? literal (req == K) true in every disjunct
					var which string
					for k, name := range reqVal {
						kk := k
						holds, _ := pc.Implies(in.Block(), func(lits []Lit) bool {
							return hasLit(lits, func(a ssa.Value, v bool) bool {
								x, op, n, ok := cmpInt(a)
								_ = x
								return ok && n == kk && ((op == token.EQL && v) || (op == token.NEQ && !v)) && isEventTypeVal(x)
							})
						})
						if holds {
							which = name
						}
					}
					cl, okc := resolveFuncs(call.Call.Args[0])
					if !okc || len(cl) != 1 {
						r.unest(relName(f)+":exit arg", in.Pos(), f, "code closure passed to exit()", "cannot resolve")
						return
					}
					codes, detail := returnInts(cl[0], output)
					if which == "" {
						r.info(relName(f)+":exit other", in.Pos(), f, fmt.Sprintf("exit() under another request returns %v", codes))
						return
					}
					seenReq[which] = true
					okc2 := sameSet(codes, reqWant[which])
					if which == "reqClose" {
						okc2 = okc2 && detail == "0 iff output() true"
					}
					r.check(okc2, relName(loop)+":exit code for "+which, in.Pos(), f,
						fmt.Sprintf("%s exits with %v (%s)", which, reqWant[which], detail), fmt.Sprintf("returns %v (%s)", codes, detail))
				})
			}
			for n := range reqWant {
				if !seenReq[n] {
					r.unest(relName(loop)+":exit site "+n, token.NoPos, loop, "exit() call under request "+n, "not found")
				}
			}
		}
	}
	// filter mode + main
	run := l.Fn("fzf", "Run")
	if run != nil {
		var found *ssa.Alloc
		eachInstr(run, func(in ssa.Instruction) {
			if a, ok := in.(*ssa.Alloc); ok && a.Comment == "found" {
				found = a
			}
		})
		if found == nil {
			r.unest(relName(run)+":found", token.NoPos, run, "filter-mode `found` flag", "not found")
		} else {
			pc := pathConds(run)
			n := 0
			for _, b := range run.Blocks {
				ret, ok := b.Instrs[len(b.Instrs)-1].(*ssa.Return)
				if !ok {
					continue
				}
				code, isc := constIntVal(retResult(ret, 0))
				if !isc {
					continue
				}
				// is this return guarded by a load of `found`?
				for _, wantV := range []bool{true, false} {
					w := wantV
					holds, reach := pc.Implies(b, func(lits []Lit) bool {
						return hasLit(lits, func(a ssa.Value, v bool) bool {
							u, ok := a.(*ssa.UnOp)
							return ok && u.Op == token.MUL && cellRoot(u.X) == ssa.Value(found) && v == w
						})
					})
					if holds && reach {
						n++
						exp := int64(1)
						if w {
							exp = 0
						}
						r.check(code == exp, fmt.Sprintf("%s:filter exit found=%v", relName(run), w), ret.Pos(), run,
							fmt.Sprintf("filter mode returns %d when found=%v", exp, w), fmt.Sprintf("returns %d", code))
					}
				}
			}
			r.floor("filter-mode returns guarded by `found`", n, 2)
		}
	}
	mainFn := l.Fn("main", "main")
	exitMain := l.Fn("main", "exit")
	if mainFn == nil || exitMain == nil || run == nil {
		r.unest("anchors main", token.NoPos, nil, "anchors main.main / main.exit", "cannot resolve")
	} else {
		okPass := false
		eachInstr(mainFn, func(in ssa.Instruction) {
			call, ok := in.(*ssa.Call)
			if !ok || call.Common().StaticCallee() != exitMain {
				return
			}
			if ex, ok := call.Call.Args[0].(*ssa.Extract); ok && ex.Index == 0 {
				if c2, ok := ex.Tuple.(*ssa.Call); ok && c2.Common().StaticCallee() == run {
					okPass = true
				}
			}
		})
		r.check(okPass, "main.main:exit(Run code)", mainFn.Pos(), mainFn, "main passes Run's first result to exit()", "Run's code is not what reaches exit()")
		// exit(code): os.Exit(code) on every path with the parameter
		okExit := true
		n := 0
		eachInstr(exitMain, func(in ssa.Instruction) {
			if cc, ok := isCall(in, "os.Exit"); ok {
				n++
				if cc.Args[0] != ssa.Value(exitMain.Params[0]) {
					okExit = false
				}
			}
		})
		noRet := true
		for _, b := range exitMain.Blocks {
			if _, ok := b.Instrs[len(b.Instrs)-1].(*ssa.Return); ok {
				// a return is fine only if os.Exit dominates it
				dom := false
				eachInstr(exitMain, func(in ssa.Instruction) {
					if _, ok := isCall(in, "os.Exit"); ok && dominates(in, b.Instrs[len(b.Instrs)-1]) {
						dom = true
					}
				})
				if !dom {
					noRet = false
				}
			}
		}
		r.check(okExit && n > 0 && noRet, "main.exit:os.Exit(code)", exitMain.Pos(), exitMain, "exit() calls os.Exit with its code parameter on every path", "code altered or a path returns without os.Exit")
	}

	// ---------------- R4 ----------------
	r.rule("C07-R4", "A (dominance)", "P1",
		"in the render loop's exit closure the call that restores the terminal (Renderer.Close) dominates the call of the code closure (which prints)",
		"results are printed into the alternate screen / raw-mode terminal and lost")
	if loop != nil {
		for _, f := range withClosures(loop) {
			if f.Signature.Params().Len() != 1 || f.Parent() == nil {
				continue
			}
			if _, ok := f.Signature.Params().At(0).Type().Underlying().(*types.Signature); !ok {
				continue
			}
			var closeCall, codeCall ssa.Instruction
			eachInstr(f, func(in ssa.Instruction) {
				ci, ok := in.(ssa.CallInstruction)
				if !ok {
					return
				}
				if ci.Common().IsInvoke() && ci.Common().Method.Name() == "Close" && strings.HasSuffix(ci.Common().Method.FullName(), "tui.Renderer).Close") {
					closeCall = in
				}
				if ci.Common().Value == ssa.Value(f.Params[0]) {
					codeCall = in
				}
			})
			if codeCall == nil {
				continue
			}
			r.check(closeCall != nil && dominates(closeCall, codeCall), relName(f)+":Close before getCode", codeCall.Pos(), f,
				"tui.Close() dominates the call of the printing closure", "the code closure can run before the terminal is restored")
		}
	}

	c06r1(c, r) // printed text is the input record: items must not be overwritten after being read
	c09r1(c, r) // selections are printed in the order they were made: re-selecting must not re-stamp

	c07r5(c, r)
	c06r6(c, r) // what is printed is what was read: no alias of an item's runes is edited in place
	c15r7(c, r) // a selection made before a reload must not print records of the old list
	c13r6(c, r) // selected items are held by pointer: Snapshot must not shift items inside a shared chunk
	c07r6(c, r)
}

// c07r5: the --with-nth builder keeps the record (shared with C06).
func c07r5(c *Ctx, r *Report) {
	l := c.L
	run := l.Fn("fzf", "Run")
	// ---------------- R5 ----------------
	r.rule("C07-R5", "A (must-pass-through)", "P1",
		"in the item builder that transforms the text (--with-nth), every path returning true stores the record's bytes into Item.origText",
		"AsString falls back to the transformed/trimmed text: the printed line is not the input record")
	fOrig := l.Field("fzf", "Item", "origText")
	if run != nil && fOrig != nil {
		n := 0
		for _, f := range withClosures(run) {
			if f.Parent() == nil || f.Signature.Params().Len() != 2 || f.Signature.Results().Len() != 1 {
				continue
			}
			// builder closures: func(*Item, []byte) bool
			if !strings.HasSuffix(f.Signature.Params().At(0).Type().String(), ".Item") {
				continue
			}
			hasStore := false
			eachInstr(f, func(in ssa.Instruction) {
				if st, ok := in.(*ssa.Store); ok {
					if fld, _ := fieldOf(st.Addr); fld == fOrig {
						hasStore = true
					}
				}
			})
			if !hasStore {
				r.info(relName(f)+":builder without origText", f.Pos(), f, "item builder that keeps Item.text as the original (no --with-nth)")
				continue
			}
			n++
			entry := f.Blocks[0].Instrs[0]
			isStore := func(in ssa.Instruction) bool {
				st, ok := in.(*ssa.Store)
				if !ok {
					return false
				}
				fld, _ := fieldOf(st.Addr)
				return fld == fOrig
			}
			retTrue := func(in ssa.Instruction) bool {
				ret, ok := in.(*ssa.Return)
				if !ok {
					return false
				}
				cb, isc := constBool(retResult(ret, 0))
				return !isc || cb
			}
			var goal ssa.Instruction
			if isStore(entry) {
				goal = nil
			} else {
				goal = feasiblePathAvoiding(entry, retTrue, isStore, nil)
			}
			r.check(goal == nil, relName(f)+":origText on accept", f.Pos(), f, "every accepting path of the --with-nth builder stores Item.origText", "a path returns true without storing the original bytes")
		}
		r.floor("item builders that store origText", n, 1)
	}
}

func isEventTypeVal(v ssa.Value) bool {
	return strings.HasSuffix(v.Type().String(), "util.EventType")
}

// returnInts: set of constant ints a closure returns; for the close case also recognise `0 iff output()`.
func returnInts(f *ssa.Function, output *ssa.Function) ([]int64, string) {
	var codes []int64
	detail := "constant"
	pc := pathConds(f)
	iff := true
	sawOutput := false
	for _, b := range f.Blocks {
		ret, ok := b.Instrs[len(b.Instrs)-1].(*ssa.Return)
		if !ok {
			continue
		}
		k, isc := constIntVal(retResult(ret, 0))
		if !isc {
			return nil, "non-constant return"
		}
		codes = append(codes, k)
		for _, d := range pc.At(b) {
			for _, lt := range d {
				if call, ok := lt.Atom.(*ssa.Call); ok && call.Common().StaticCallee() == output {
					sawOutput = true
					if (k == 0) != lt.Val {
						iff = false
					}
				}
			}
		}
	}
	if sawOutput {
		if iff {
			detail = "0 iff output() true"
		} else {
			detail = "not `0 iff output()`"
		}
	}
	sort.Slice(codes, func(i, j int) bool { return codes[i] < codes[j] })
	return codes, detail
}

func sameSet(a, b []int64) bool {
	m := map[int64]bool{}
	for _, x := range a {
		m[x] = true
	}
	n := map[int64]bool{}
	for _, x := range b {
		n[x] = true
		if !m[x] {
			return false
		}
	}
	return len(m) == len(n)
}
