package main

import (
	"fmt"
	"go/token"
	"go/types"
	"regexp/syntax"
	"sort"

	"golang.org/x/tools/go/ssa"
)

// c17r11: constant indexes in the option parsers are provably in range.
//
// "never a crash": s[k] with a constant k on a slice panics when len(s) <= k. For every such access in a
// function reachable from ParseOptions the rule looks for a proof of len(s) > k from
//   - the producer of s (strings.Split/SplitN/Fields-like: at least one element; make with a constant
//     length; a composite literal; FindStringIndex/FindStringSubmatchIndex results that were tested non-nil),
//   - a length test of the same slice on every path to the access (==, !=, <, <=, >, >= against constants,
//     including the arms of `switch len(s)`),
//   - for a phi, a proof for each incoming value; for a slice kept in a local variable, a length test of
//     that variable with no assignment in between.
func c17r11(c *Ctx, r *Report) {
	l := c.L
	r.rule("C17-R11", "I (length lower bounds from producers and path conditions)", "P1",
		"in every function of package fzf reachable from ParseOptions, each constant index s[k] on a slice is dominated by facts that give len(s) > k: the producer guarantees it, or a length test of the same slice (or of the local variable holding it, not reassigned since) holds on every path",
		"a particular option value makes the parser index an empty or short slice: Go panic with a stack trace instead of an error message and exit status 2")
	po := l.Fn("fzf", "ParseOptions")
	if po == nil {
		r.unest("anchors", token.NoPos, nil, "anchor ParseOptions", "cannot resolve")
		return
	}
	seen := reachableFns(po)
	var fns []*ssa.Function
	for fn := range seen {
		if fn.Pkg == l.pkg("fzf") {
			fns = append(fns, fn)
		}
	}
	sort.Slice(fns, func(i, j int) bool { return fns[i].String() < fns[j].String() })
	nSites := 0
	for _, fn := range fns {
		var pc *PathConds
		eachInstr(fn, func(in ssa.Instruction) {
			ia, ok := in.(*ssa.IndexAddr)
			if !ok {
				return
			}
			if _, ok := ia.X.Type().Underlying().(*types.Slice); !ok {
				return
			}
			k, isc := constIntVal(ia.Index)
			if !isc {
				return
			}
			if pc == nil {
				pc = pathConds(fn)
			}
			nSites++
			ok2, why := provenLen(fn, pc, ia.X, k+1, in.Block(), 0)
			key := fmt.Sprintf("%s:%s[%d]", relName(fn), ia.X.Name(), k)
			if ok2 {
				r.ok(key, ia.Pos(), fn, "len > index: "+why)
			} else {
				r.unest(key, ia.Pos(), fn, fmt.Sprintf("len(%s) > %d on every path", ia.X.Name(), k), "no producer guarantee and no dominating length test found ("+why+")")
			}
		})
	}
	r.floor("constant slice indexes in the option parsers", nSites, 30)
}

// lenFactsAt collects, from the path condition at block b (and its dominators), lower bounds on len(x)
// for values x; result: value -> minimal length known.
func lenFactsAt(pc *PathConds, b *ssa.BasicBlock) map[ssa.Value]int64 {
	facts := map[ssa.Value]int64{}
	for d := b; d != nil; d = d.Idom() {
		ds := pc.At(d)
		if len(ds) == 0 {
			continue
		}
		// per disjunct lower bounds, then take the minimum over disjuncts (must hold on all)
		var per []map[ssa.Value]int64
		for _, dj := range ds {
			m := map[ssa.Value]int64{}
			for _, lt := range dj {
				x, op, kk, ok := cmpInt(lt.Atom)
				if !ok {
					// s != nil / s == nil
					if bo, ok := lt.Atom.(*ssa.BinOp); ok && (bo.Op == token.NEQ || bo.Op == token.EQL) {
						if cst, ok := bo.Y.(*ssa.Const); ok && cst.IsNil() {
							if (bo.Op == token.NEQ) == lt.Val {
								if m[bo.X] < 1 {
									m[bo.X] = -1 // marker: non-nil
								}
							}
						}
					}
					continue
				}
				call, isCall := x.(*ssa.Call)
				if !isCall || calleeName(call.Common()) != "builtin.len" {
					continue
				}
				s := call.Call.Args[0]
				var lb int64 = 0
				v := lt.Val
				switch op {
				case token.EQL:
					if v {
						lb = kk
					} else if kk == 0 {
						lb = 1
					}
				case token.NEQ:
					if !v {
						lb = kk
					} else if kk == 0 {
						lb = 1
					}
				case token.GTR:
					if v {
						lb = kk + 1
					}
				case token.GEQ:
					if v {
						lb = kk
					}
				case token.LSS:
					if !v {
						lb = kk
					}
				case token.LEQ:
					if !v {
						lb = kk + 1
					}
				}
				if lb > m[s] {
					m[s] = lb
				}
			}
			per = append(per, m)
		}
		for s, lb := range per[0] {
			min := lb
			for _, m := range per[1:] {
				if m[s] < min || (min == -1 && m[s] != -1) {
					min = m[s]
				}
				if _, ok := m[s]; !ok {
					min = 0
				}
			}
			if min == -1 {
				if facts[s] == 0 {
					facts[s] = -1
				}
			} else if min > facts[s] {
				facts[s] = min
			}
		}
	}
	return facts
}

func provenLen(fn *ssa.Function, pc *PathConds, s ssa.Value, need int64, at *ssa.BasicBlock, depth int) (bool, string) {
	if depth > 4 {
		return false, "too deep"
	}
	facts := lenFactsAt(pc, at)
	sameCell := func(a, b ssa.Value) bool {
		ua, ok1 := a.(*ssa.UnOp)
		ub, ok2 := b.(*ssa.UnOp)
		if !ok1 || !ok2 || ua.Op != token.MUL || ub.Op != token.MUL || ua.X != ub.X {
			return false
		}
		// no store to the cell between the two loads: conservatively, none anywhere that a is not dominating
		cell := ua.X
		if cell.Referrers() == nil {
			return true
		}
		for _, ref := range *cell.Referrers() {
			if st, ok := ref.(*ssa.Store); ok && st.Addr == cell {
				// a store is harmless if it dominates both loads (it happened before both)
				if !(dominates(st, ua) && dominates(st, ub)) {
					return false
				}
			}
		}
		return true
	}
	for x, lb := range facts {
		if (x == s || sameCell(x, s)) && lb >= need {
			return true, fmt.Sprintf("length test gives len >= %d", lb)
		}
	}
	nonNil := false
	for x, lb := range facts {
		if (x == s || sameCell(x, s)) && lb == -1 {
			nonNil = true
		}
	}
	// an element of a regexp FindAll* result
	if u, ok := s.(*ssa.UnOp); ok && u.Op == token.MUL {
		if ia, ok := u.X.(*ssa.IndexAddr); ok {
			if call, ok := ia.X.(*ssa.Call); ok {
				nm := calleeName(call.Common())
				groups := func() (int64, bool) {
					// receiver: regexp.MustCompile(<constant>)
					recv := call.Call.Args[0]
					if u2, ok := recv.(*ssa.UnOp); ok { // local variable holding the regexp
						if cell := cellRoot(u2.X); cell != nil {
							for _, st := range storesToCell(cell) {
								recv = st.Val
							}
						}
					}
					rc, ok := recv.(*ssa.Call)
					if !ok || !(calleeName(rc.Common()) == "regexp.MustCompile") {
						return 0, false
					}
					pat, isc := constString(rc.Call.Args[0])
					if !isc {
						return 0, false
					}
					re, err := syntax.Parse(pat, syntax.Perl)
					if err != nil {
						return 0, false
					}
					return int64(re.MaxCap()), true
				}
				switch nm {
				case "(*regexp.Regexp).FindAllStringIndex", "(*regexp.Regexp).FindAllIndex":
					if need <= 2 {
						return true, "elements of FindAllStringIndex are pairs"
					}
				case "(*regexp.Regexp).FindAllStringSubmatch", "(*regexp.Regexp).FindAllSubmatch":
					if g, ok := groups(); ok && g+1 >= need {
						return true, fmt.Sprintf("elements of FindAllStringSubmatch have 1+%d entries for this constant pattern", g)
					}
				}
			}
		}
		// a local variable: every value ever stored into it is long enough
		if cell := cellRoot(u.X); cell != nil {
			if _, isAlloc := cell.(*ssa.Alloc); isAlloc {
				sts := storesToCell(cell)
				all := len(sts) > 0
				for _, st := range sts {
					f2 := st.Parent()
					ok2, _ := provenLen(f2, pathConds(f2), st.Val, need, st.Block(), depth+1)
					if !ok2 {
						all = false
					}
				}
				if all {
					return true, "every value assigned to the variable is long enough"
				}
			}
		}
	}
	switch x := s.(type) {
	case *ssa.Call:
		nm := calleeName(x.Common())
		switch nm {
		case "strings.Split", "strings.SplitN", "strings.SplitAfter", "strings.SplitAfterN":
			if need <= 1 {
				// SplitN(s, sep, 0) returns nil: only n != 0 guarantees an element
				if nm == "strings.SplitN" || nm == "strings.SplitAfterN" {
					if n, isc := constIntVal(x.Call.Args[2]); !isc || n == 0 {
						return false, "SplitN with n == 0 may return nil"
					}
				}
				if nm == "strings.Split" || nm == "strings.SplitAfter" {
					if sep, isc := constString(x.Call.Args[1]); isc && sep == "" {
						return false, "Split with an empty separator of an empty string is empty"
					}
				}
				return true, nm + " returns at least one element"
			}
			if need == 2 && (nm == "strings.SplitN" || nm == "strings.Split") {
				// the separator is known to occur: a dominating strings.Index*/Contains test on the same string
				sep, _ := constString(x.Call.Args[1])
				if n, isc := constIntVal(x.Call.Args[len(x.Call.Args)-1]); nm == "strings.Split" || (isc && (n >= 2 || n < 0)) {
					for d := x.Block(); d != nil; d = d.Idom() {
						for _, dj := range pc.At(d) {
							if hasLit(dj, func(a ssa.Value, v bool) bool {
								y, op, kk, ok := cmpInt(a)
								if !ok {
									if c2, ok := a.(*ssa.Call); ok && calleeName(c2.Common()) == "strings.Contains" && v {
										sp, _ := constString(c2.Call.Args[1])
										return c2.Call.Args[0] == x.Call.Args[0] && sp == sep
									}
									return false
								}
								c2, isCall := y.(*ssa.Call)
								if !isCall || c2.Call.Args[0] != x.Call.Args[0] {
									return false
								}
								nm2 := calleeName(c2.Common())
								var sp string
								switch nm2 {
								case "strings.Index":
									sp, _ = constString(c2.Call.Args[1])
								case "strings.IndexRune", "strings.IndexByte":
									if k2, isc := constIntVal(c2.Call.Args[1]); isc {
										sp = string(rune(k2))
									}
								default:
									return false
								}
								if sp != sep {
									return false
								}
								return (op == token.GTR && v && kk >= -1) || (op == token.GEQ && v && kk >= 0) || (op == token.LSS && !v && kk >= 0) || (op == token.NEQ && v && kk == -1)
							}) {
								return true, "the separator is known to occur (dominating strings.Index test): two elements"
							}
						}
					}
				}
			}
		case "(*regexp.Regexp).FindStringIndex", "(*regexp.Regexp).FindIndex":
			if nonNil && need <= 2 {
				return true, "non-nil result of FindStringIndex has two elements"
			}
		}
	case *ssa.MakeSlice:
		if n, isc := constIntVal(x.Len); isc && n >= need {
			return true, "make with a constant length"
		}
	case *ssa.Slice:
		// a[:] of an array (composite literal / varargs)
		if p, ok := x.X.Type().Underlying().(*types.Pointer); ok {
			if arr, ok := p.Elem().Underlying().(*types.Array); ok && x.Low == nil && x.High == nil && arr.Len() >= need {
				return true, "slice of a whole array literal"
			}
		}
	case *ssa.Convert:
		// []rune(str) / []byte(str): no bound by itself
	case *ssa.Phi:
		all := true
		why := ""
		for i, e := range x.Edges {
			if e == s {
				continue
			}
			ok, w := provenLen(fn, pc, e, need, x.Block().Preds[i], depth+1)
			if !ok {
				all = false
				why = "incoming value " + e.Name() + ": " + w
			}
		}
		if all {
			return true, "every incoming value is long enough"
		}
		return false, why
	}
	return false, "producer " + describe(s)
}
