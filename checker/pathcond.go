package main

import (
	"go/token"
	"go/types"
	"sort"
	"strings"

	"golang.org/x/tools/go/ssa"
)

// Path conditions: for every basic block, a DNF formula over atomic branch conditions (SSA bool values
// with a polarity) that holds whenever control enters the block. Disjuncts are merged at joins, bounded
// by maxDisj (beyond that a block collapses to the intersection of all incoming conjunctions, which is
// weaker and therefore sound for "must hold" queries). Both shapes of short-circuit conditions are
// handled: branch-threaded ones fall out of the edge facts, phi-materialised ones (`t = phi[true, b]`)
// through per-edge phi facts and aliases.

const maxDisj = 48

type alias struct {
	phi, src int32
	neg      bool
}

type Conj struct {
	lits  []int32 // sorted; id*2 + (1 if true)
	alias []alias // unresolved bool-phi aliases (phi == src xor neg)
}

type PathConds struct {
	fn     *ssa.Function
	ids    map[ssa.Value]int32
	vals   []ssa.Value
	in     map[*ssa.BasicBlock][]Conj
	coll   map[*ssa.BasicBlock]bool
	domKil map[*ssa.BasicBlock]map[int32]bool
}

func (pc *PathConds) id(v ssa.Value) int32 {
	if i, ok := pc.ids[v]; ok {
		return i
	}
	i := int32(len(pc.vals))
	pc.ids[v] = i
	pc.vals = append(pc.vals, v)
	return i
}

// normCond strips boolean negations: returns the atom and whether the original is its negation.
func normCond(v ssa.Value) (ssa.Value, bool) {
	neg := false
	for {
		u, ok := v.(*ssa.UnOp)
		if !ok || u.Op != token.NOT {
			return v, neg
		}
		v = u.X
		neg = !neg
	}
}

func (c Conj) get(id int32) (bool, bool) {
	i := sort.Search(len(c.lits), func(i int) bool { return c.lits[i] >= id*2 })
	if i < len(c.lits) && c.lits[i]/2 == id {
		return c.lits[i]%2 == 1, true
	}
	return false, false
}

// with returns c plus literal (id,val); ok=false if contradictory.
func (c Conj) with(id int32, val bool) (Conj, bool) {
	if cur, known := c.get(id); known {
		return c, cur == val
	} else {
		l := id * 2
		if val {
			l++
		}
		n := make([]int32, 0, len(c.lits)+1)
		i := sort.Search(len(c.lits), func(i int) bool { return c.lits[i] >= l })
		n = append(n, c.lits[:i]...)
		n = append(n, l)
		n = append(n, c.lits[i:]...)
		c = Conj{n, c.alias}
	}
	// resolve aliases of this phi
	for _, a := range c.alias {
		if a.phi == id {
			var ok bool
			c, ok = c.with(a.src, val != a.neg)
			if !ok {
				return c, false
			}
		}
	}
	return c, true
}

func (c Conj) key() string {
	var sb strings.Builder
	for _, l := range c.lits {
		sb.WriteByte(byte(l))
		sb.WriteByte(byte(l >> 8))
		sb.WriteByte(byte(l >> 16))
		sb.WriteByte(',')
	}
	for _, a := range c.alias {
		sb.WriteByte('|')
		sb.WriteByte(byte(a.phi))
		sb.WriteByte(byte(a.phi >> 8))
		sb.WriteByte(byte(a.src))
		sb.WriteByte(byte(a.src >> 8))
		if a.neg {
			sb.WriteByte('!')
		}
	}
	return sb.String()
}

func subset(a, b []int32) bool { // a ⊆ b (both sorted)
	i := 0
	for _, x := range a {
		for i < len(b) && b[i] < x {
			i++
		}
		if i >= len(b) || b[i] != x {
			return false
		}
	}
	return true
}

func intersect(a, b []int32) []int32 {
	var out []int32
	i := 0
	for _, x := range a {
		for i < len(b) && b[i] < x {
			i++
		}
		if i < len(b) && b[i] == x {
			out = append(out, x)
		}
	}
	return out
}

func defBlock(v ssa.Value) *ssa.BasicBlock {
	if in, ok := v.(ssa.Instruction); ok {
		return in.Block()
	}
	return nil
}

func pathConds(fn *ssa.Function) *PathConds {
	pc := &PathConds{fn: fn, ids: map[ssa.Value]int32{}, in: map[*ssa.BasicBlock][]Conj{}, coll: map[*ssa.BasicBlock]bool{}}
	if len(fn.Blocks) == 0 {
		return pc
	}
	pc.in[fn.Blocks[0]] = []Conj{{}}
	// reverse post-order
	var rpo []*ssa.BasicBlock
	seen := map[*ssa.BasicBlock]bool{}
	var dfs func(b *ssa.BasicBlock)
	dfs = func(b *ssa.BasicBlock) {
		seen[b] = true
		for _, s := range b.Succs {
			if !seen[s] {
				dfs(s)
			}
		}
		rpo = append(rpo, b)
	}
	dfs(fn.Blocks[0])
	for i, j := 0, len(rpo)-1; i < j; i, j = i+1, j-1 {
		rpo[i], rpo[j] = rpo[j], rpo[i]
	}

	edgeOut := func(p, b *ssa.BasicBlock) []Conj {
		var out []Conj
		for _, c := range pc.in[p] {
			if n, ok := pc.transfer(c, p, b); ok {
				out = append(out, n)
			}
		}
		return out
	}

	merge := func(b *ssa.BasicBlock, all []Conj) []Conj {
		// dedupe + subsumption
		uniq := map[string]bool{}
		var cs []Conj
		for _, c := range all {
			k := c.key()
			if !uniq[k] {
				uniq[k] = true
				cs = append(cs, c)
			}
		}
		sort.Slice(cs, func(i, j int) bool { return len(cs[i].lits) < len(cs[j].lits) })
		var out []Conj
		for _, c := range cs {
			red := false
			for _, o := range out {
				if len(o.alias) == 0 && subset(o.lits, c.lits) {
					red = true
					break
				}
			}
			if !red {
				out = append(out, c)
			}
		}
		if len(out) > maxDisj || (pc.coll[b] && len(out) > 1) {
			pc.coll[b] = true
			inter := out[0].lits
			for _, c := range out[1:] {
				inter = intersect(inter, c.lits)
			}
			out = []Conj{{lits: inter}}
		}
		return out
	}

	keyOf := func(cs []Conj) string {
		ks := make([]string, len(cs))
		for i, c := range cs {
			ks[i] = c.key()
		}
		sort.Strings(ks)
		return string(rune('0'+len(ks)%64)) + "#" + strings.Join(ks, ";")
	}

	for iter := 0; iter < 50; iter++ {
		changed := false
		for _, b := range rpo {
			if b == fn.Blocks[0] {
				continue
			}
			var all []Conj
			for _, p := range b.Preds {
				all = append(all, edgeOut(p, b)...)
			}
			n := merge(b, all)
			if keyOf(n) != keyOf(pc.in[b]) {
				pc.in[b] = n
				changed = true
			}
		}
		if !changed {
			break
		}
	}
	return pc
}

func isBoolType(v ssa.Value) bool {
	b, ok := v.Type().Underlying().(*types.Basic)
	return ok && b.Kind() == types.Bool
}

// Lit is a decoded literal.
type Lit struct {
	Atom ssa.Value
	Val  bool
}

func (pc *PathConds) decode(c Conj) []Lit {
	out := make([]Lit, 0, len(c.lits))
	for _, l := range c.lits {
		out = append(out, Lit{pc.vals[l/2], l%2 == 1})
	}
	return out
}

// At returns the disjuncts holding on entry to b (nil = unreachable).
func (pc *PathConds) At(b *ssa.BasicBlock) [][]Lit {
	var out [][]Lit
	for _, c := range pc.in[b] {
		out = append(out, pc.decode(c))
	}
	return out
}

// Implies: the path condition at block b implies pred, i.e. every disjunct has pred true.
// Unreachable blocks return (true, false).
func (pc *PathConds) Implies(b *ssa.BasicBlock, pred func(lits []Lit) bool) (holds bool, reachable bool) {
	ds := pc.At(b)
	if len(ds) == 0 {
		return true, false
	}
	for _, d := range ds {
		if !pred(d) {
			return false, true
		}
	}
	return true, true
}

// hasLit: some literal satisfies m.
func hasLit(lits []Lit, m func(atom ssa.Value, val bool) bool) bool {
	for _, l := range lits {
		if m(l.Atom, l.Val) {
			return true
		}
	}
	return false
}

// transfer pushes one conjunction along the CFG edge p->b: adds the branch literal, drops literals that
// become stale on (re-)entry of b's dominance region, adds the facts implied by b's bool phis.
// ok=false: the edge is infeasible under c.
func (pc *PathConds) transfer(c Conj, p, b *ssa.BasicBlock) (Conj, bool) {
	ok := true
	if ifi, isIf := p.Instrs[len(p.Instrs)-1].(*ssa.If); isIf && p.Succs[0] != p.Succs[1] {
		atom, neg := normCond(ifi.Cond)
		want := (b == p.Succs[0])
		if cb, isConst := constBool(atom); isConst {
			if (cb != neg) != want {
				return c, false
			}
		} else {
			c, ok = c.with(pc.id(atom), want != neg)
			if !ok {
				return c, false
			}
		}
	}
	pidx := -1
	for i, q := range b.Preds {
		if q == p {
			pidx = i
		}
	}
	var kept []int32
	killed := false
	for _, l := range c.lits {
		db := defBlock(pc.vals[l/2])
		if db != nil && b.Dominates(db) {
			killed = true
			continue
		}
		kept = append(kept, l)
	}
	var keptAl []alias
	for _, a := range c.alias {
		db := defBlock(pc.vals[a.phi])
		db2 := defBlock(pc.vals[a.src])
		if (db != nil && b.Dominates(db)) || (db2 != nil && b.Dominates(db2)) {
			killed = true
			continue
		}
		keptAl = append(keptAl, a)
	}
	if killed {
		c = Conj{kept, keptAl}
	}
	for _, in := range b.Instrs {
		phi, isPhi := in.(*ssa.Phi)
		if !isPhi {
			break
		}
		if !isBoolType(phi) || pidx < 0 {
			continue
		}
		atom, neg := normCond(phi.Edges[pidx])
		pid := pc.id(phi)
		if cb, isConst := constBool(atom); isConst {
			c, ok = c.with(pid, cb != neg)
		} else {
			aid := pc.id(atom)
			if v, known := c.get(aid); known {
				c, ok = c.with(pid, v != neg)
			} else {
				al := append(append([]alias{}, c.alias...), alias{pid, aid, neg})
				c = Conj{c.lits, al}
			}
		}
		if !ok {
			return c, false
		}
	}
	return c, true
}

// feasiblePathAvoiding is pathAvoiding with flag awareness: paths are walked together with the branch
// facts collected since `start` (bool phis and their aliases included), and an edge that contradicts
// them is not taken. Bounded by the number of distinct (block, facts) states.
func feasiblePathAvoiding(start ssa.Instruction, isGoal, isBlock func(ssa.Instruction) bool, edgeOK func(from, to *ssa.BasicBlock) bool) ssa.Instruction {
	pc := &PathConds{fn: start.Parent(), ids: map[ssa.Value]int32{}, in: map[*ssa.BasicBlock][]Conj{}, coll: map[*ssa.BasicBlock]bool{}}
	type item struct {
		b *ssa.BasicBlock
		i int
		c Conj
	}
	seen := map[string]bool{}
	work := []item{{start.Block(), instrIndex(start) + 1, Conj{}}}
	steps := 0
	for len(work) > 0 {
		it := work[len(work)-1]
		work = work[:len(work)-1]
		steps++
		if steps > 200000 {
			// give up on flag awareness: fall back to the path-insensitive answer (conservative)
			return pathAvoiding(start, isGoal, isBlock, edgeOK)
		}
		blocked := false
		for i := it.i; i < len(it.b.Instrs); i++ {
			in := it.b.Instrs[i]
			if isBlock(in) {
				blocked = true
				break
			}
			if isGoal(in) {
				return in
			}
		}
		if blocked {
			continue
		}
		for _, s := range it.b.Succs {
			if edgeOK != nil && !edgeOK(it.b, s) {
				continue
			}
			n, ok := pc.transfer(it.c, it.b, s)
			if !ok {
				continue
			}
			k := string(rune(s.Index)) + "#" + n.key()
			if !seen[k] {
				seen[k] = true
				work = append(work, item{s, 0, n})
			}
		}
	}
	return nil
}

// ImpliesEdge: the facts holding when control flows along the edge from->to imply pred.
func (pc *PathConds) ImpliesEdge(from, to *ssa.BasicBlock, pred func(lits []Lit) bool) (holds bool, feasible bool) {
	any := false
	for _, c := range pc.in[from] {
		n, ok := pc.transfer(c, from, to)
		if !ok {
			continue
		}
		any = true
		if !pred(pc.decode(n)) {
			return false, true
		}
	}
	return true, any
}

// ImpliesDom: pred is implied at b or at one of b's dominators. A fact established at a dominator D
// still holds at b: every path to b passes D after the last (re)definition of the SSA values the fact
// mentions (their definitions dominate D). Used where the DNF at b itself was collapsed.
func (pc *PathConds) ImpliesDom(b *ssa.BasicBlock, pred func(lits []Lit) bool) bool {
	for d := b; d != nil; d = d.Idom() {
		if holds, reach := pc.Implies(d, pred); holds && reach {
			return true
		}
	}
	return false
}
