package main

import (
	"fmt"
	"go/token"
	"go/types"

	"golang.org/x/tools/go/ssa"
)

// c02r5: byte searches of the ASCII pre-filter come in case pairs.
//
// The pre-filter (asciiFuzzyIndex / trySkip) narrows the part of the line the real matcher looks at by
// searching the raw bytes for pattern characters. The pattern is lower-cased for case-insensitive
// matching, the line is not: every search for a pattern byte b must therefore be accompanied by a search
// for b-32 (the upper-case letter) over the same bytes, or lines that match only through an upper-case
// letter are cut off.
func c02r5(c *Ctx, r *Report) {
	l := c.L
	r.rule("C02-R5", "E (sibling search sites) + D (provenance)", "P1",
		"in every function of package algo that searches raw input bytes for a non-constant byte b (bytes.IndexByte / bytes.LastIndexByte / an element comparison), there is a sibling search in the same function for a value derived from b-32 (the upper-case variant)",
		"case-insensitive matching misses lines in which the letter occurs only in upper case at the position that bounds the search window")
	isByte := func(t types.Type) bool {
		b, ok := t.Underlying().(*types.Basic)
		return ok && b.Kind() == types.Uint8
	}
	nBase := 0
	for _, fn := range l.AllFuncs() {
		if fn.Pkg != l.pkg("algo") {
			continue
		}
		type site struct {
			v  ssa.Value
			in ssa.Instruction
		}
		var sites []site
		eachInstr(fn, func(in ssa.Instruction) {
			if cc, ok := isCall(in, "bytes.IndexByte", "bytes.LastIndexByte"); ok {
				v := callArgs(cc)[1]
				if _, isc := v.(*ssa.Const); !isc {
					sites = append(sites, site{v, in})
				}
				return
			}
			b, ok := in.(*ssa.BinOp)
			if !ok || (b.Op != token.EQL && b.Op != token.NEQ) || !isByte(b.X.Type()) {
				return
			}
			for _, pair := range [][2]ssa.Value{{b.X, b.Y}, {b.Y, b.X}} {
				elem, v := pair[0], pair[1]
				if _, isc := v.(*ssa.Const); isc {
					continue
				}
				// elem: an element of a []byte
				isElem := false
				switch x := elem.(type) {
				case *ssa.UnOp:
					if ia, ok := x.X.(*ssa.IndexAddr); ok && x.Op == token.MUL {
						if sl, ok := ia.X.Type().Underlying().(*types.Slice); ok && isByte(sl.Elem()) {
							isElem = true
						}
					}
				case *ssa.Index:
					isElem = true
				}
				if isElem {
					if _, velem := v.(*ssa.UnOp); !velem { // not element == element
						sites = append(sites, site{v, in})
					}
				}
			}
		})
		if len(sites) == 0 {
			continue
		}
		// variant-of: values whose definition contains (x - 32)
		folded := func(v ssa.Value) []ssa.Value {
			var bases []ssa.Value
			for w := range backwardSlice(v, nil, nil) {
				if b, ok := w.(*ssa.BinOp); ok && b.Op == token.SUB && isConstInt(b.Y, 32) {
					bases = append(bases, b.X)
				}
			}
			return bases
		}
		for _, s := range sites {
			if len(folded(s.v)) > 0 {
				continue // a variant site
			}
			nBase++
			paired := false
			for _, o := range sites {
				for _, base := range folded(o.v) {
					if base == s.v {
						paired = true
					}
				}
			}
			key := fmt.Sprintf("%s:search for %s has an upper-case sibling", relName(fn), s.v.Name())
			r.check(paired, key, s.in.Pos(), fn, "the bytes are also searched for the value - 32", "only the lower-case byte is searched for: an upper-case occurrence is not seen")
		}
	}
	r.floor("byte searches for a pattern character", nBase, 2)
}
