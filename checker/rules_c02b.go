package main

import (
	"fmt"
	"go/token"
	"go/types"

	"golang.org/x/tools/go/ssa"
)

// c02r5: byte searches of the ASCII pre-filter come in case pairs.
//
// The pre-filter (asciiFuzzyIndex / trySkip) narrows the part of the line the real matcher looks at by
// searching the raw bytes for pattern characters. The pattern is lower-cased for case-insensitive
// matching, the line is not: every search for a pattern byte b must therefore be accompanied by a search
// for b-32 (the upper-case letter) over the same bytes, or lines that match only through an upper-case
// letter are cut off.
func c02r5(c *Ctx, r *Report) {
	l := c.L
	r.rule("C02-R5", "E (sibling search sites) + D (provenance)", "P1",
		"in every function of package algo that searches raw input bytes for a non-constant byte b (bytes.IndexByte / bytes.LastIndexByte / an element comparison), there is a sibling search in the same function for a value derived from b-32 (the upper-case variant), and where the base search is a call, the sibling is not control dependent on its result (other than through a test of that result against 0: found at the first position)",
		"case-insensitive matching misses lines in which the letter occurs only in upper case at the position that bounds the search window")
	isByte := func(t types.Type) bool {
		b, ok := t.Underlying().(*types.Basic)
		return ok && b.Kind() == types.Uint8
	}
	nBase := 0
	for _, fn := range l.AllFuncs() {
		if fn.Pkg != l.pkg("algo") {
			continue
		}
		type site struct {
			v  ssa.Value
			in ssa.Instruction
		}
		var sites []site
		eachInstr(fn, func(in ssa.Instruction) {
			if cc, ok := isCall(in, "bytes.IndexByte", "bytes.LastIndexByte"); ok {
				v := callArgs(cc)[1]
				if _, isc := v.(*ssa.Const); !isc {
					sites = append(sites, site{v, in})
				}
				return
			}
			b, ok := in.(*ssa.BinOp)
			if !ok || (b.Op != token.EQL && b.Op != token.NEQ) || !isByte(b.X.Type()) {
				return
			}
			for _, pair := range [][2]ssa.Value{{b.X, b.Y}, {b.Y, b.X}} {
				elem, v := pair[0], pair[1]
				if _, isc := v.(*ssa.Const); isc {
					continue
				}
				// elem: an element of a []byte
				isElem := false
				switch x := elem.(type) {
				case *ssa.UnOp:
					if ia, ok := x.X.(*ssa.IndexAddr); ok && x.Op == token.MUL {
						if sl, ok := ia.X.Type().Underlying().(*types.Slice); ok && isByte(sl.Elem()) {
							isElem = true
						}
					}
				case *ssa.Index:
					isElem = true
				}
				if isElem {
					if _, velem := v.(*ssa.UnOp); !velem { // not element == element
						sites = append(sites, site{v, in})
					}
				}
			}
		})
		if len(sites) == 0 {
			continue
		}
		var cds map[*ssa.BasicBlock]map[ssa.Value]bool
		// variant-of: values whose definition contains (x - 32)
		folded := func(v ssa.Value) []ssa.Value {
			var bases []ssa.Value
			for w := range backwardSlice(v, nil, nil) {
				if b, ok := w.(*ssa.BinOp); ok && b.Op == token.SUB && isConstInt(b.Y, 32) {
					bases = append(bases, b.X)
				}
			}
			return bases
		}
		for _, s := range sites {
			if len(folded(s.v)) > 0 {
				continue // a variant site
			}
			nBase++
			paired := false
			for _, o := range sites {
				for _, base := range folded(o.v) {
					if base == s.v {
						paired = true
					}
				}
			}
			key := fmt.Sprintf("%s:search for %s has an upper-case sibling", relName(fn), s.v.Name())
			r.check(paired, key, s.in.Pos(), fn, "the bytes are also searched for the value - 32", "only the lower-case byte is searched for: an upper-case occurrence is not seen")
			// the sibling runs whatever the first search found: the EARLIER of the two occurrences bounds the
			// window, so "only if the lower-case letter was not found" is not enough (round-7 mutant C03a7)
			if base, isVal := s.in.(*ssa.Call); isVal && paired {
				if cds == nil {
					cds = controlConds(fn)
				}
				for _, o := range sites {
					isSib := false
					for _, b2 := range folded(o.v) {
						if b2 == s.v {
							isSib = true
						}
					}
					if !isSib {
						continue
					}
					dep := ""
					for cond := range cds[o.in.Block()] {
						// "found at the very first position" is the one outcome after which nothing earlier can exist
						if bo, ok := cond.(*ssa.BinOp); ok && (bo.Op == token.EQL || bo.Op == token.NEQ) && (isConstInt(bo.Y, 0) || isConstInt(bo.X, 0)) {
							continue
						}
						for w := range backwardSlice(cond, nil, nil) {
							if w == ssa.Value(base) {
								dep = l.pos(cond.Pos())
							}
						}
					}
					// ... and it looks only in FRONT of the lower-case hit: its haystack is cut at that hit, otherwise a
					// later upper-case occurrence replaces an earlier lower-case one (round-2 mutant C01c2)
					if oc, isCall := o.in.(*ssa.Call); isCall {
						cut := false
						for w := range backwardSlice(oc.Call.Args[0], nil, nil) {
							if sl, ok := w.(*ssa.Slice); ok && sl.High != nil {
								for v := range backwardSlice(sl.High, nil, nil) {
									if v == ssa.Value(base) {
										cut = true
									}
								}
							}
						}
						r.check(cut, key+" confined to the text before the lower-case hit", o.in.Pos(), fn, "the haystack of the upper-case search ends at the lower-case hit", "the upper-case search covers the whole window: a later upper-case occurrence overrides an earlier lower-case one")
					}
					r.check(dep == "", key+" that runs unconditionally", o.in.Pos(), fn, "the upper-case search does not depend on the outcome of the lower-case search", fmt.Sprintf("the upper-case search is control dependent on the result of the lower-case search (condition at %s): when both cases occur, the later one can win", dep))
				}
			}
		}
	}
	r.floor("byte searches for a pattern character", nBase, 2)
}

// c02r6: the folded text the later phases read is the text the first phase compared.
//
// FuzzyMatchV2 folds each character (case, accents) in a local and decides "this character matches
// the pattern" on that local; phases 3 and 4 compare the pattern against the array T again. Every
// folded value the local can hold at the comparison must therefore have been stored back into T.
func c02r6(c *Ctx, r *Report) {
	l := c.L
	r.rule("C02-R6", "D (value agreement between a local and the array it came from)", "P1",
		"in every function of package algo that ranges over a carved rune array T, modifies the element in a local and compares the local with a pattern character: each value the local can have at that comparison is the element as loaded or a value that was stored back into T at the same index",
		"phase 2 finds a match on the folded character while phases 3/4 see the unfolded one: bogus match ranges, index out of range in the back-trace")
	a32 := l.Fn("algo", "alloc32")
	if a32 == nil {
		r.unest("anchors", token.NoPos, nil, "anchor alloc32", "cannot resolve")
		return
	}
	nCmp := 0
	for _, fn := range l.AllFuncs() {
		if fn.Pkg != l.pkg("algo") {
			continue
		}
		carved := map[ssa.Value]bool{}
		eachInstr(fn, func(in ssa.Instruction) {
			if ex, ok := in.(*ssa.Extract); ok && ex.Index == 1 {
				if call, ok := ex.Tuple.(*ssa.Call); ok && call.Common().StaticCallee() == a32 {
					carved[ex] = true
				}
			}
		})
		if len(carved) == 0 {
			continue
		}
		// element loads T[i] and stores T[i] = v, keyed by (T, i)
		type cell struct{ arr, idx ssa.Value }
		loads := map[ssa.Value]cell{}
		stored := map[cell]map[ssa.Value]bool{}
		eachInstr(fn, func(in ssa.Instruction) {
			switch x := in.(type) {
			case *ssa.UnOp:
				if ia, ok := x.X.(*ssa.IndexAddr); ok && x.Op == token.MUL && carved[ia.X] {
					loads[x] = cell{ia.X, ia.Index}
				}
			case *ssa.Store:
				if ia, ok := x.Addr.(*ssa.IndexAddr); ok && carved[ia.X] {
					k := cell{ia.X, ia.Index}
					if stored[k] == nil {
						stored[k] = map[ssa.Value]bool{}
					}
					stored[k][x.Val] = true
				}
			}
		})
		if len(stored) == 0 {
			continue
		}
		// comparisons local == <pattern character> where the local derives from an element load
		eachInstr(fn, func(in ssa.Instruction) {
			b, ok := in.(*ssa.BinOp)
			if !ok || b.Op != token.EQL {
				return
			}
			for _, side := range []ssa.Value{b.X, b.Y} {
				phi, ok := side.(*ssa.Phi)
				if !ok {
					continue
				}
				// which cell does it come from?
				var from *cell
				seen := map[ssa.Value]bool{}
				var find func(v ssa.Value, d int)
				find = func(v ssa.Value, d int) {
					if seen[v] || d > 6 {
						return
					}
					seen[v] = true
					if c, ok := loads[v]; ok {
						cc := c
						from = &cc
						return
					}
					switch x := v.(type) {
					case *ssa.Phi:
						for _, e := range x.Edges {
							find(e, d+1)
						}
					case *ssa.BinOp:
						find(x.X, d+1)
					case *ssa.Call:
						for _, a := range x.Call.Args {
							find(a, d+1)
						}
					}
				}
				find(phi, 0)
				if from == nil || stored[*from] == nil {
					continue
				}
				nCmp++
				okAll := true
				var missing ssa.Value
				vis := map[ssa.Value]bool{}
				var check func(v ssa.Value) bool
				check = func(v ssa.Value) bool {
					if vis[v] {
						return true
					}
					vis[v] = true
					if c, ok := loads[v]; ok && c == *from {
						return true
					}
					if stored[*from][v] {
						return true
					}
					if p, ok := v.(*ssa.Phi); ok {
						for _, e := range p.Edges {
							if !check(e) {
								return false
							}
						}
						return true
					}
					missing = v
					return false
				}
				okAll = check(phi)
				key := fmt.Sprintf("%s:compared character %s is what the array holds", relName(fn), phi.Name())
				if okAll {
					r.ok(key, b.Pos(), fn, "every folded value of the compared local was stored back into the array")
				} else {
					r.bad(key, b.Pos(), fn, "folded values are stored back", fmt.Sprintf("the value %s (%s) can reach the comparison without having been stored into the array: later phases compare against the unfolded character", missing.Name(), l.pos(missing.Pos())))
				}
			}
		})
	}
	r.floor("comparisons of a folded local taken from a carved rune array", nCmp, 1)
}

// c02r8: every place that folds a character of the line does it the same way.
//
// The pattern is lower-cased and normalised once, by the caller; each matcher folds the characters of
// the line itself, in seven functions and eight loops. They must agree: lower-case (also beyond ASCII)
// when the match is case-insensitive, THEN strip accents when normalisation is on, and the second step
// must not depend on the first having been requested.
func c02r8(c *Ctx, r *Report) {
	l := c.L
	r.rule("C02-R8", "E (sibling agreement of the folding pipelines)", "P1",
		"in package algo, every normalizeRune applied to a character of the line (a value from Chars.Get or from the carved text array) receives the lower-cased character — its input passes through unicode.To/ToLower under !caseSensitive — is not itself an input of a lower-casing step, and is not conditional on caseSensitive",
		"one loop finds a match that a sibling loop (the scorer, the shrink loop, the back-trace) cannot reproduce for accented or non-ASCII capital letters: fewer positions than pattern characters, negative scores, index out of range")
	norm := l.Fn("algo", "normalizeRune")
	if norm == nil {
		r.unest("anchors", token.NoPos, nil, "anchor normalizeRune", "cannot resolve")
		return
	}
	get := "(*" + modPath + "/src/util.Chars).Get"
	toRunes := "(*" + modPath + "/src/util.Chars).ToRunes"
	a32 := l.Fn("algo", "alloc32")
	isLower := func(v ssa.Value) (nonASCII bool, ok bool) {
		switch x := v.(type) {
		case *ssa.Call:
			switch calleeName(x.Common()) {
			case "unicode.To", "unicode.ToLower":
				return true, true
			}
		case *ssa.BinOp:
			if x.Op == token.ADD && isConstInt(x.Y, 32) {
				return false, true
			}
		}
		return false, false
	}
	n := 0
	for _, fn := range l.AllFuncs() {
		if fn.Pkg != l.pkg("algo") {
			continue
		}
		var csParam *ssa.Parameter
		for _, p := range fn.Params {
			if p.Name() == "caseSensitive" {
				csParam = p
			}
		}
		var pc *PathConds
		carved := map[ssa.Value]bool{}
		eachInstr(fn, func(in ssa.Instruction) {
			if ex, ok := in.(*ssa.Extract); ok && ex.Index == 1 {
				if call, ok := ex.Tuple.(*ssa.Call); ok && call.Common().StaticCallee() == a32 {
					carved[ex] = true
				}
			}
		})
		isTextChar := func(v ssa.Value) bool {
			for w := range backwardSlice(v, func(*ssa.CallCommon) bool { return true }, nil) {
				if call, ok := w.(*ssa.Call); ok && (calleeName(call.Common()) == get || calleeName(call.Common()) == toRunes) {
					return true
				}
				if u, ok := w.(*ssa.UnOp); ok && u.Op == token.MUL {
					if ia, ok := u.X.(*ssa.IndexAddr); ok && carved[ia.X] {
						return true
					}
				}
			}
			return false
		}
		var sites []*ssa.Call
		eachInstr(fn, func(in ssa.Instruction) {
			if call, ok := in.(*ssa.Call); ok && call.Common().StaticCallee() == norm && isTextChar(call.Call.Args[0]) {
				sites = append(sites, call)
			}
		})
		for _, site := range sites {
			n++
			if pc == nil {
				pc = pathConds(fn)
			}
			key := fmt.Sprintf("%s:normalizeRune(%s)", relName(fn), site.Call.Args[0].Name())
			// (1) input is the lower-cased character
			lowered := false
			for w := range backwardSlice(site.Call.Args[0], func(*ssa.CallCommon) bool { return true }, nil) {
				if nonASCII, ok := isLower(w); ok && nonASCII {
					lowered = true
				}
			}
			// (2) not an input of a lower-casing step
			feedsLower := false
			eachInstr(fn, func(in ssa.Instruction) {
				v, ok := in.(ssa.Value)
				if !ok {
					return
				}
				if _, ok := isLower(v); !ok {
					return
				}
				var ops []ssa.Value
				switch x := v.(type) {
				case *ssa.Call:
					ops = x.Call.Args
				case *ssa.BinOp:
					ops = []ssa.Value{x.X}
				}
				for _, op := range ops {
					for w := range backwardSlice(op, func(*ssa.CallCommon) bool { return true }, nil) {
						if w == ssa.Value(site) {
							feedsLower = true
						}
					}
				}
			})
			// (3) not conditional on caseSensitive
			condCS := false
			if csParam != nil {
				for d := site.Block(); d != nil; d = d.Idom() {
					ds := pc.At(d)
					if len(ds) == 0 {
						continue
					}
					for _, lt := range ds[0] {
						if lt.Atom != ssa.Value(csParam) {
							continue
						}
						common := true
						for _, dj := range ds[1:] {
							if !hasLit(dj, func(a ssa.Value, v bool) bool { return a == lt.Atom && v == lt.Val }) {
								common = false
							}
						}
						if common {
							condCS = true
						}
					}
				}
			}
			why := ""
			switch {
			case !lowered:
				why = "its input never passed a non-ASCII lower-casing step (unicode.To / unicode.ToLower)"
			case feedsLower:
				why = "its result is lower-cased afterwards: accents are stripped before the case is folded"
			case condCS:
				why = "it runs only when the match is case-(in)sensitive"
			}
			r.check(why == "", key, site.Pos(), fn, "lower-case first (also beyond ASCII), then normalise, independently of caseSensitive", why)
		}
	}
	r.floor("normalizeRune applied to characters of the line", n, 8)
	c02r9(c, r)
}
