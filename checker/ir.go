package main

import (
	"fmt"
	"go/constant"
	"go/token"
	"go/types"
	"strings"

	"golang.org/x/tools/go/ssa"
)

// ---------- object lookup (by object, never by text position) ----------

// Fn resolves "Run", "(*Terminal).Loop", "Range.IsFull" in the package with the given alias.
func (l *Loaded) Fn(pkg, name string) *ssa.Function {
	sp := l.pkg(pkg)
	if sp == nil {
		return nil
	}
	if !strings.Contains(name, ".") {
		return sp.Func(name)
	}
	ptr := false
	recv, meth := "", ""
	if strings.HasPrefix(name, "(*") {
		ptr = true
		i := strings.Index(name, ").")
		recv, meth = name[2:i], name[i+2:]
	} else {
		i := strings.Index(name, ".")
		recv, meth = name[:i], name[i+1:]
	}
	obj := sp.Pkg.Scope().Lookup(recv)
	if obj == nil {
		return nil
	}
	var t types.Type = obj.Type()
	if ptr {
		t = types.NewPointer(t)
	}
	o, _, _ := types.LookupFieldOrMethod(t, true, sp.Pkg, meth)
	f, ok := o.(*types.Func)
	if !ok {
		return nil
	}
	return l.Prog.FuncValue(f)
}

func (l *Loaded) Named(pkg, name string) *types.Named {
	sp := l.pkg(pkg)
	if sp == nil {
		return nil
	}
	obj := sp.Pkg.Scope().Lookup(name)
	if obj == nil {
		return nil
	}
	n, _ := obj.Type().(*types.Named)
	return n
}

func (l *Loaded) Field(pkg, typ, field string) *types.Var {
	n := l.Named(pkg, typ)
	if n == nil {
		return nil
	}
	st, ok := n.Underlying().(*types.Struct)
	if !ok {
		return nil
	}
	for i := 0; i < st.NumFields(); i++ {
		if st.Field(i).Name() == field {
			return st.Field(i)
		}
	}
	return nil
}

func (l *Loaded) Const(pkg, name string) *types.Const {
	sp := l.pkg(pkg)
	if sp == nil {
		return nil
	}
	c, _ := sp.Pkg.Scope().Lookup(name).(*types.Const)
	return c
}

func (l *Loaded) Global(pkg, name string) *ssa.Global {
	sp := l.pkg(pkg)
	if sp == nil {
		return nil
	}
	g, _ := sp.Members[name].(*ssa.Global)
	return g
}

func constInt(c *types.Const) (int64, bool) {
	if c == nil {
		return 0, false
	}
	return constant.Int64Val(constant.ToInt(c.Val()))
}

// ---------- function trees ----------

func withClosures(fn *ssa.Function) []*ssa.Function {
	var out []*ssa.Function
	var rec func(f *ssa.Function)
	rec = func(f *ssa.Function) {
		out = append(out, f)
		for _, a := range f.AnonFuncs {
			rec(a)
		}
	}
	if fn != nil {
		rec(fn)
	}
	return out
}

func rootFn(fn *ssa.Function) *ssa.Function {
	for fn.Parent() != nil {
		fn = fn.Parent()
	}
	return fn
}

func eachInstr(fn *ssa.Function, f func(ssa.Instruction)) {
	for _, b := range fn.Blocks {
		for _, in := range b.Instrs {
			f(in)
		}
	}
}

// ---------- values ----------

// fieldOfAddr: if v is &x.f (FieldAddr) or x.f (Field) returns the field var and the base.
func fieldOf(v ssa.Value) (*types.Var, ssa.Value) {
	switch v := v.(type) {
	case *ssa.FieldAddr:
		st := deref(v.X.Type()).Underlying().(*types.Struct)
		return st.Field(v.Field), v.X
	case *ssa.Field:
		st := v.X.Type().Underlying().(*types.Struct)
		return st.Field(v.Field), v.X
	}
	return nil, nil
}

func deref(t types.Type) types.Type {
	if p, ok := t.Underlying().(*types.Pointer); ok {
		return p.Elem()
	}
	return t
}

// loadOfField: v is `*(&x.f)` or x.f ; returns field.
func loadedField(v ssa.Value) (*types.Var, ssa.Value) {
	if u, ok := v.(*ssa.UnOp); ok && u.Op == token.MUL {
		return fieldOf(u.X)
	}
	if f, ok := v.(*ssa.Field); ok {
		return fieldOf(f)
	}
	return nil, nil
}

func isConstInt(v ssa.Value, n int64) bool {
	c, ok := v.(*ssa.Const)
	if !ok || c.Value == nil {
		return false
	}
	if c.Value.Kind() != constant.Int {
		return false
	}
	x, ok := constant.Int64Val(c.Value)
	return ok && x == n
}

func constBool(v ssa.Value) (bool, bool) {
	c, ok := v.(*ssa.Const)
	if !ok || c.Value == nil || c.Value.Kind() != constant.Bool {
		return false, false
	}
	return constant.BoolVal(c.Value), true
}

func constIntVal(v ssa.Value) (int64, bool) {
	c, ok := v.(*ssa.Const)
	if !ok || c.Value == nil || c.Value.Kind() != constant.Int {
		return 0, false
	}
	return constant.Int64Val(c.Value)
}

func constString(v ssa.Value) (string, bool) {
	c, ok := v.(*ssa.Const)
	if !ok || c.Value == nil || c.Value.Kind() != constant.String {
		return "", false
	}
	return constant.StringVal(c.Value), true
}

// stripConv removes conversions / ChangeType / MakeInterface wrappers.
func stripConv(v ssa.Value) ssa.Value {
	for {
		switch x := v.(type) {
		case *ssa.Convert:
			v = x.X
		case *ssa.ChangeType:
			v = x.X
		case *ssa.MakeInterface:
			v = x.X
		case *ssa.ChangeInterface:
			v = x.X
		default:
			return v
		}
	}
}

// ---------- calls ----------

func staticCallee(in ssa.Instruction) *ssa.Function {
	c, ok := in.(ssa.CallInstruction)
	if !ok {
		return nil
	}
	return c.Common().StaticCallee()
}

// calleeName gives "pkgpath.Func", "(*pkgpath.T).M", or for interface invokes "(pkgpath.I).M".
func calleeName(c *ssa.CallCommon) string {
	if c.IsInvoke() {
		return c.Method.FullName()
	}
	if f := c.StaticCallee(); f != nil {
		if f.Object() != nil {
			return f.Object().(*types.Func).FullName()
		}
		return f.String()
	}
	if b, ok := c.Value.(*ssa.Builtin); ok {
		return "builtin." + b.Name()
	}
	return ""
}

func isCall(in ssa.Instruction, names ...string) (*ssa.CallCommon, bool) {
	c, ok := in.(ssa.CallInstruction)
	if !ok {
		return nil, false
	}
	n := calleeName(c.Common())
	for _, w := range names {
		if n == w {
			return c.Common(), true
		}
	}
	return c.Common(), false
}

// callArgs returns the arguments including the receiver as args[0] for method calls (both static and invoke).
func callArgs(c *ssa.CallCommon) []ssa.Value {
	if c.IsInvoke() {
		return append([]ssa.Value{c.Value}, c.Args...)
	}
	return c.Args
}

// ---------- closures and captured cells ----------

// bindingOf maps a free variable of a closure to the value bound by the enclosing function's MakeClosure.
func bindingOf(fv *ssa.FreeVar) ssa.Value {
	cl := fv.Parent()
	par := cl.Parent()
	if par == nil {
		return nil
	}
	idx := -1
	for i, f := range cl.FreeVars {
		if f == fv {
			idx = i
		}
	}
	if idx < 0 {
		return nil
	}
	var out ssa.Value
	eachInstr(par, func(in ssa.Instruction) {
		if mc, ok := in.(*ssa.MakeClosure); ok && mc.Fn == cl && idx < len(mc.Bindings) {
			out = mc.Bindings[idx]
		}
	})
	return out
}

// cellRoot follows free variables up to the Alloc (or parameter/global) that is the storage cell.
func cellRoot(v ssa.Value) ssa.Value {
	for i := 0; i < 20; i++ {
		fv, ok := v.(*ssa.FreeVar)
		if !ok {
			return v
		}
		b := bindingOf(fv)
		if b == nil {
			return v
		}
		v = b
	}
	return v
}

// storesToCell returns every Store instruction (in the whole function tree of the cell's owner)
// whose address is the cell.
func storesToCell(cell ssa.Value) []*ssa.Store {
	cell = cellRoot(cell)
	var owner *ssa.Function
	switch c := cell.(type) {
	case *ssa.Alloc:
		owner = c.Parent()
	case *ssa.Parameter:
		owner = c.Parent()
	default:
		return nil
	}
	var out []*ssa.Store
	for _, f := range withClosures(rootFn(owner)) {
		eachInstr(f, func(in ssa.Instruction) {
			if st, ok := in.(*ssa.Store); ok && cellRoot(st.Addr) == cell {
				out = append(out, st)
			}
		})
	}
	return out
}

// loadsOfCell returns every load (UnOp *) from the cell in the function tree.
func loadsOfCell(cell ssa.Value) []*ssa.UnOp {
	cell = cellRoot(cell)
	var owner *ssa.Function
	switch c := cell.(type) {
	case *ssa.Alloc:
		owner = c.Parent()
	default:
		return nil
	}
	var out []*ssa.UnOp
	for _, f := range withClosures(rootFn(owner)) {
		eachInstr(f, func(in ssa.Instruction) {
			if u, ok := in.(*ssa.UnOp); ok && u.Op == token.MUL && cellRoot(u.X) == cell {
				out = append(out, u)
			}
		})
	}
	return out
}

// resolveFuncs resolves a callable value to the set of source functions it may denote, following
// MakeClosure, loads from single-owner local cells, phis and free variables. ok=false if unknown.
func resolveFuncs(v ssa.Value) (fns []*ssa.Function, ok bool) {
	seen := map[ssa.Value]bool{}
	ok = true
	var rec func(v ssa.Value)
	rec = func(v ssa.Value) {
		if seen[v] {
			return
		}
		seen[v] = true
		switch x := v.(type) {
		case *ssa.Function:
			fns = append(fns, x)
		case *ssa.MakeClosure:
			fns = append(fns, x.Fn.(*ssa.Function))
		case *ssa.Phi:
			for _, e := range x.Edges {
				rec(e)
			}
		case *ssa.FreeVar:
			if b := bindingOf(x); b != nil {
				rec(b)
			} else {
				ok = false
			}
		case *ssa.UnOp:
			if x.Op != token.MUL {
				ok = false
				return
			}
			cell := cellRoot(x.X)
			if _, isAlloc := cell.(*ssa.Alloc); !isAlloc {
				ok = false
				return
			}
			sts := storesToCell(cell)
			if len(sts) == 0 {
				ok = false
			}
			for _, st := range sts {
				rec(st.Val)
			}
		case *ssa.ChangeType:
			rec(x.X)
		case *ssa.Const:
			// nil func value: contributes nothing
		default:
			ok = false
		}
	}
	rec(v)
	return
}

// calleesOf resolves a call instruction to source functions (static, closure variables); ok=false when
// the callee is dynamic and unresolved (interface invoke or unknown func value).
func calleesOf(c *ssa.CallCommon) ([]*ssa.Function, bool) {
	if c.IsInvoke() {
		return nil, false
	}
	if f := c.StaticCallee(); f != nil {
		return []*ssa.Function{f}, true
	}
	if _, ok := c.Value.(*ssa.Builtin); ok {
		return nil, true
	}
	return resolveFuncs(c.Value)
}

// ---------- order / dominance ----------

func instrIndex(in ssa.Instruction) int {
	for i, x := range in.Block().Instrs {
		if x == in {
			return i
		}
	}
	return -1
}

// dominates: every path from function entry to b passes a (a executed before b).
func dominates(a, b ssa.Instruction) bool {
	if a.Parent() != b.Parent() {
		return false
	}
	if a.Block() == b.Block() {
		return instrIndex(a) < instrIndex(b)
	}
	return a.Block().Dominates(b.Block())
}

// edgeDominates reports whether the CFG edge from->to dominates block x:
// every path from entry to x uses that edge.
func edgeDominates(from, to, x *ssa.BasicBlock) bool {
	if !to.Dominates(x) {
		return false
	}
	for _, p := range to.Preds {
		if p == from {
			continue
		}
		if !to.Dominates(p) { // another way into `to` that is not a back edge from inside its own region
			return false
		}
	}
	// from->to must be a real edge
	for _, s := range from.Succs {
		if s == to {
			return true
		}
	}
	return false
}

// reachable blocks from a block (forward).
func reachFrom(b *ssa.BasicBlock) map[*ssa.BasicBlock]bool {
	seen := map[*ssa.BasicBlock]bool{}
	var st []*ssa.BasicBlock
	st = append(st, b.Succs...)
	for len(st) > 0 {
		x := st[len(st)-1]
		st = st[:len(st)-1]
		if seen[x] {
			continue
		}
		seen[x] = true
		st = append(st, x.Succs...)
	}
	return seen
}

// canReach: is there a CFG path from just after instruction a to instruction b (same function)?
func canReach(a, b ssa.Instruction) bool {
	if a.Parent() != b.Parent() {
		return false
	}
	if a.Block() == b.Block() && instrIndex(a) < instrIndex(b) {
		return true
	}
	return reachFrom(a.Block())[b.Block()]
}

// pathAvoiding searches a CFG path starting right after `start` that reaches an instruction for which
// isGoal is true without executing an instruction for which isBlock is true. Returns the goal reached
// (nil if none): "every path from start to a goal passes a blocker" <=> result == nil.
// skipBackEdges: treat edges to a block that dominates the current one as leaving the region (per-iteration rules).
func pathAvoiding(start ssa.Instruction, isGoal, isBlock func(ssa.Instruction) bool, edgeOK func(from, to *ssa.BasicBlock) bool) ssa.Instruction {
	type item struct {
		b *ssa.BasicBlock
		i int
	}
	seen := map[*ssa.BasicBlock]bool{}
	work := []item{{start.Block(), instrIndex(start) + 1}}
	for len(work) > 0 {
		it := work[len(work)-1]
		work = work[:len(work)-1]
		blocked := false
		for i := it.i; i < len(it.b.Instrs); i++ {
			in := it.b.Instrs[i]
			if isBlock(in) {
				blocked = true
				break
			}
			if isGoal(in) {
				return in
			}
		}
		if blocked {
			continue
		}
		for _, s := range it.b.Succs {
			if edgeOK != nil && !edgeOK(it.b, s) {
				continue
			}
			if !seen[s] {
				seen[s] = true
				work = append(work, item{s, 0})
			}
		}
	}
	return nil
}

func isReturn(in ssa.Instruction) bool { _, ok := in.(*ssa.Return); return ok }

// ---------- misc ----------

func fnName(f *ssa.Function) string {
	if f == nil {
		return "<nil>"
	}
	return f.String()
}

func relName(f *ssa.Function) string {
	return strings.ReplaceAll(fnName(f), modPath+"/src", "fzf")
}

func describe(v ssa.Value) string {
	if v == nil {
		return "<nil>"
	}
	return fmt.Sprintf("%s = %s", v.Name(), v.String())
}

// retResult returns result i of a Return, looking through the defer-spill shape
// (`*r = v; rundefers; t = *r; return t`): the value stored last in the same block is returned.
func retResult(ret *ssa.Return, i int) ssa.Value {
	v := ret.Results[i]
	u, ok := v.(*ssa.UnOp)
	if !ok || u.Op != token.MUL {
		return v
	}
	al, ok := u.X.(*ssa.Alloc)
	if !ok {
		return v
	}
	instrs := ret.Block().Instrs
	for k := len(instrs) - 1; k >= 0; k-- {
		if st, ok := instrs[k].(*ssa.Store); ok && st.Addr == ssa.Value(al) {
			return st.Val
		}
	}
	return v
}

// callIs: the call's callee is target, directly or through a compiler-generated wrapper
// (bound method value `f := x.M`, method expression thunk) that does nothing but call target.
func callIs(c *ssa.CallCommon, target *ssa.Function) bool {
	if target == nil {
		return false
	}
	if c.StaticCallee() == target {
		return true
	}
	fs, _ := calleesOf(c)
	for _, f := range fs {
		if f == target {
			return true
		}
		if f.Synthetic != "" && containsCallTo(f, target) {
			return true
		}
	}
	return false
}
