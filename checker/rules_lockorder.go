package main

import (
	"fmt"
	"go/token"
	"go/types"
	"sort"
	"strings"

	"golang.org/x/tools/go/ssa"
)

// Lock order (round 9). Two goroutines that take the same two locks in opposite orders can block each other
// for good. The graph below has one node per lock (a sync.Mutex / RWMutex field of a module type, a local mutex,
// or the lock of one EventBox INSTANCE — the three boxes of the program have disjoint users, so they are told
// apart by where they were created) and an edge A -> B for every place where B may be acquired while A is held:
// directly, in a callee (VTA call graph, `go` statements excluded), or in a callback that an EventBox method
// runs under the box's lock (Wait, Update). A cycle is reported with one witness per edge.
//
// D58: the reader held ChunkList.mutex (Push) while the item builder posted EvtHeader (EventBox lock), and the
// coordinator took ChunkList.mutex (Snapshot) inside eventBox.Wait's callback: with --header-lines, a keystroke
// at the moment a header line arrives froze fzf.

type lockEdge struct {
	from, to string
	fn       *ssa.Function
	pos      token.Pos
	via      string
}

type boxNamer struct {
	l      *Loaded
	neb    *ssa.Function
	siteOf map[*types.Var]string
	main   string
}

func newBoxNamer(l *Loaded) *boxNamer {
	bn := &boxNamer{l: l, neb: l.Fn("util", "NewEventBox"), siteOf: map[*types.Var]string{}}
	if bn.neb == nil {
		return bn
	}
	fromNeb := func(v ssa.Value) string {
		for w := range backwardSlice(v, nil, nil) {
			if call, ok := w.(*ssa.Call); ok && call.Common().StaticCallee() == bn.neb {
				return bn.siteName(call)
			}
		}
		return ""
	}
	for _, fn := range l.AllFuncs() {
		if fn.Pkg == nil || !isModulePkg(fn.Pkg.Pkg) {
			continue
		}
		eachInstr(fn, func(in ssa.Instruction) {
			switch x := in.(type) {
			case *ssa.Store:
				if fld, _ := fieldOf(x.Addr); fld != nil {
					if s := fromNeb(x.Val); s != "" {
						bn.siteOf[fld] = s
					}
				}
			case ssa.CallInstruction:
				if cal := x.Common().StaticCallee(); cal != nil && cal.Pkg != nil && isModulePkg(cal.Pkg.Pkg) && !isBoxMethod(cal) {
					for _, a := range x.Common().Args {
						if s := fromNeb(a); s != "" {
							bn.main = s // the box that is handed to the constructors of its users
						}
					}
				}
			}
		})
	}
	return bn
}

// siteName names an EventBox by the function that creates it (and the ordinal of the creation in it).
func (bn *boxNamer) siteName(call *ssa.Call) string {
	fn := call.Parent()
	k, n := 0, 0
	eachInstr(fn, func(in ssa.Instruction) {
		if c2, ok := in.(*ssa.Call); ok && c2.Common().StaticCallee() == bn.neb {
			n++
			if c2 == call {
				k = n
			}
		}
	})
	if n == 1 {
		return "the box created in " + relName(fn)
	}
	return fmt.Sprintf("box #%d created in %s", k, relName(fn))
}

func isBoxMethod(f *ssa.Function) bool {
	if f == nil || f.Signature.Recv() == nil {
		return false
	}
	nn, ok := deref(f.Signature.Recv().Type()).(*types.Named)
	return ok && nn.Obj().Name() == "EventBox" && isModulePkg(nn.Obj().Pkg())
}

// instance names the EventBox a receiver expression denotes.
func (bn *boxNamer) instance(recv ssa.Value) string {
	recv = stripConv(recv)
	if fld, _ := loadedField(recv); fld != nil {
		if s, ok := bn.siteOf[fld]; ok {
			return s
		}
		return bn.main // assigned from a constructor parameter
	}
	for w := range backwardSlice(recv, nil, nil) {
		if call, ok := w.(*ssa.Call); ok && call.Common().StaticCallee() == bn.neb {
			return bn.siteName(call)
		}
	}
	return bn.main
}

type lockOrder struct {
	edges []lockEdge
	nodes map[string]bool
}

func buildLockOrder(l *Loaded) *lockOrder {
	la := analyseLocks(l, map[string]bool{})
	bn := newBoxNamer(l)
	cg := l.CallGraph()
	boxKey := func(inst string) string { return "EventBox.cond.L(" + inst + ")" }
	var fns []*ssa.Function
	for _, f := range l.AllFuncs() {
		if f.Blocks != nil && f.Pkg != nil && isModulePkg(f.Pkg.Pkg) && !isBoxMethod(f) {
			fns = append(fns, f)
		}
	}
	isFn := map[*ssa.Function]bool{}
	for _, f := range fns {
		isFn[f] = true
	}
	type acq struct {
		key string
		in  ssa.Instruction
	}
	type callSite struct {
		in      ssa.Instruction
		callees []*ssa.Function
		extra   string // a box lock held in addition while the callees run (callbacks of Wait / Update)
	}
	direct := map[*ssa.Function][]acq{}
	calls := map[*ssa.Function][]callSite{}
	for _, f := range fns {
		eachInstr(f, func(in ssa.Instruction) {
			if op, ok := lockOpOf(in); ok && op.acquire {
				direct[f] = append(direct[f], acq{strings.TrimSuffix(op.key, "#R"), in})
				return
			}
			ci, ok := in.(ssa.CallInstruction)
			if !ok {
				return
			}
			if _, isGo := in.(*ssa.Go); isGo {
				return
			}
			cal := ci.Common().StaticCallee()
			if isBoxMethod(cal) {
				inst := bn.instance(ci.Common().Args[0])
				direct[f] = append(direct[f], acq{boxKey(inst), in})
				// callbacks run under the box's lock
				var cbs []*ssa.Function
				for _, a := range ci.Common().Args[1:] {
					if _, isSig := a.Type().Underlying().(*types.Signature); isSig {
						if fs, _ := resolveFuncs(a); len(fs) > 0 {
							cbs = append(cbs, fs...)
						}
					}
				}
				if len(cbs) > 0 {
					calls[f] = append(calls[f], callSite{in, cbs, boxKey(inst)})
				}
				return
			}
			var callees []*ssa.Function
			if cal != nil {
				callees = []*ssa.Function{cal}
			} else if nd := cg.Nodes[f]; nd != nil {
				for _, e := range nd.Out {
					if e.Site == ci && e.Callee != nil {
						callees = append(callees, e.Callee.Func)
					}
				}
			}
			var keep []*ssa.Function
			for _, g := range callees {
				if isFn[g] {
					keep = append(keep, g)
				}
			}
			if len(keep) > 0 {
				calls[f] = append(calls[f], callSite{in, keep, ""})
			}
		})
	}
	// entry[f]: locks that may be held when f is entered (union over its call sites); the per-instruction sets
	// are the must-hold sets GIVEN that entry state, so an Unlock inside the callee is honoured.
	entry := map[*ssa.Function]lockState{}
	sets := map[*ssa.Function]map[ssa.Instruction]lockState{}
	for _, f := range fns {
		entry[f] = lockState{}
		for k := range la.entry[f] {
			entry[f][k] = true
		}
	}
	held := func(f *ssa.Function, in ssa.Instruction) []string {
		var hs []string
		for k, v := range sets[f][in] {
			if v {
				hs = append(hs, strings.TrimSuffix(k, "#R"))
			}
		}
		return hs
	}
	dirty := map[*ssa.Function]bool{}
	for _, f := range fns {
		dirty[f] = true
	}
	for round := 0; round < 40; round++ {
		any := false
		for _, f := range fns {
			if !dirty[f] {
				continue
			}
			dirty[f] = false
			any = true
			sets[f] = locksets(f, entry[f])
			for _, cs := range calls[f] {
				hs := held(f, cs.in)
				if cs.extra != "" {
					hs = append(hs, cs.extra)
				}
				for _, g := range cs.callees {
					for _, h := range hs {
						if !entry[g][h] {
							entry[g][h] = true
							dirty[g] = true
						}
					}
				}
			}
		}
		if !any {
			break
		}
	}
	ctx := map[*ssa.Function]map[string]bool{}
	for _, f := range fns {
		ctx[f] = map[string]bool{}
	}
	lo := &lockOrder{nodes: map[string]bool{}}
	seen := map[string]bool{}
	for _, f := range fns {
		for _, a := range direct[f] {
			hs := held(f, a.in)
			for h := range ctx[f] {
				hs = append(hs, h)
			}
			sort.Strings(hs)
			for _, h := range hs {
				if h == a.key || strings.HasPrefix(h, "EventBox.cond.L") && !strings.Contains(h, "(") {
					continue
				}
				k := h + "->" + a.key
				lo.nodes[h], lo.nodes[a.key] = true, true
				if seen[k] {
					continue
				}
				seen[k] = true
				lo.edges = append(lo.edges, lockEdge{h, a.key, f, a.in.Pos(), ""})
			}
		}
	}
	sort.Slice(lo.edges, func(i, j int) bool {
		if lo.edges[i].from != lo.edges[j].from {
			return lo.edges[i].from < lo.edges[j].from
		}
		return lo.edges[i].to < lo.edges[j].to
	})
	return lo
}

// cycles returns the strongly connected components with more than one lock.
func (lo *lockOrder) cycles() [][]string {
	adj := map[string][]string{}
	for _, e := range lo.edges {
		adj[e.from] = append(adj[e.from], e.to)
	}
	index, low := map[string]int{}, map[string]int{}
	on := map[string]bool{}
	var stack []string
	var out [][]string
	n := 0
	var strong func(v string)
	strong = func(v string) {
		n++
		index[v], low[v] = n, n
		stack = append(stack, v)
		on[v] = true
		for _, w := range adj[v] {
			if index[w] == 0 {
				strong(w)
				if low[w] < low[v] {
					low[v] = low[w]
				}
			} else if on[w] && index[w] < low[v] {
				low[v] = index[w]
			}
		}
		if low[v] == index[v] {
			var comp []string
			for {
				w := stack[len(stack)-1]
				stack = stack[:len(stack)-1]
				on[w] = false
				comp = append(comp, w)
				if w == v {
					break
				}
			}
			if len(comp) > 1 {
				sort.Strings(comp)
				out = append(out, comp)
			}
		}
	}
	var nodes []string
	for v := range lo.nodes {
		nodes = append(nodes, v)
	}
	sort.Strings(nodes)
	for _, v := range nodes {
		if index[v] == 0 {
			strong(v)
		}
	}
	return out
}

func c13r11(c *Ctx, r *Report) {
	l := c.L
	r.rule("C13-R11", "C (lock-order graph over the resolved program)", "P1",
		"the relation `B may be acquired while A is held` — over the mutexes of the module's types, local mutexes and the lock of each EventBox instance, through static calls, calls resolved by the VTA graph and the callbacks EventBox.Wait / Update run under the box's lock; `go` statements start with no lock — has no cycle",
		"two goroutines take two locks in opposite orders and block each other for good: fzf freezes (no key, request or signal is handled) and the records still to come never become items")
	lo := buildLockOrder(l)
	cyc := lo.cycles()
	for _, comp := range cyc {
		in := map[string]bool{}
		for _, v := range comp {
			in[v] = true
		}
		var wit []string
		var first lockEdge
		for _, e := range lo.edges {
			if in[e.from] && in[e.to] {
				if first.fn == nil {
					first = e
				}
				wit = append(wit, fmt.Sprintf("%s held while %s is taken in %s (%s)", e.from, e.to, relName(e.fn), l.pos(e.pos)))
			}
		}
		r.bad("lock order:cycle "+strings.Join(comp, " <-> "), first.pos, first.fn, "the locks are always taken in one order", "lock-order cycle: "+strings.Join(wit, "; "))
	}
	if len(cyc) == 0 {
		var es []string
		for _, e := range lo.edges {
			es = append(es, e.from+" -> "+e.to)
		}
		r.ok("lock order:acyclic", token.NoPos, nil, fmt.Sprintf("%d locks, %d ordered pairs, no cycle: %s", len(lo.nodes), len(lo.edges), strings.Join(es, "; ")))
	}
	r.floor("ordered lock pairs (B taken while A is held)", len(lo.edges), 10)
}
