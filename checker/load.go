package main

import (
	"fmt"
	"go/token"
	"go/types"
	"os"
	"sort"
	"strings"

	"golang.org/x/tools/go/callgraph"
	"golang.org/x/tools/go/callgraph/cha"
	"golang.org/x/tools/go/callgraph/vta"
	"golang.org/x/tools/go/packages"
	"golang.org/x/tools/go/ssa"
	"golang.org/x/tools/go/ssa/ssautil"
)

const modPath = "github.com/junegunn/fzf"

// Loaded is one type-checked + SSA-built view of /repo under one build configuration.
type Loaded struct {
	Config string // e.g. "linux/amd64"
	Repo   string
	Fset   *token.FileSet
	Pkgs   []*packages.Package
	ByPath map[string]*packages.Package
	Prog   *ssa.Program
	SSA    map[string]*ssa.Package
	cg     *callgraph.Graph
	funcs  []*ssa.Function // all functions (incl. anonymous) of the module's packages
}

// short package names used by the rules
var pkgAlias = map[string]string{
	"main": modPath,
	"fzf":  modPath + "/src",
	"algo": modPath + "/src/algo",
	"util": modPath + "/src/util",
	"tui":  modPath + "/src/tui",
}

func load(repo, goos, goarch string, tags string) (*Loaded, error) {
	env := append(os.Environ(), "GOFLAGS=-mod=mod", "GOPROXY=off", "GOSUMDB=off", "GOTOOLCHAIN=local",
		"GOWORK=off", "CGO_ENABLED=0", "GOOS="+goos, "GOARCH="+goarch)
	cfg := &packages.Config{
		Mode:  packages.LoadAllSyntax,
		Dir:   repo,
		Env:   env,
		Tests: false,
	}
	if tags != "" {
		cfg.BuildFlags = []string{"-tags=" + tags}
	}
	pkgs, err := packages.Load(cfg, "./...")
	if err != nil {
		return nil, err
	}
	if len(pkgs) == 0 {
		return nil, fmt.Errorf("no packages loaded from %s", repo)
	}
	var errs []string
	packages.Visit(pkgs, nil, func(p *packages.Package) {
		for _, e := range p.Errors {
			errs = append(errs, e.Error())
		}
	})
	if len(errs) > 0 {
		sort.Strings(errs)
		if len(errs) > 10 {
			errs = errs[:10]
		}
		return nil, fmt.Errorf("load/type-check errors (%s/%s):\n  %s", goos, goarch, strings.Join(errs, "\n  "))
	}
	prog, _ := ssautil.AllPackages(pkgs, ssa.InstantiateGenerics)
	prog.Build()
	l := &Loaded{Config: goos + "/" + goarch, Repo: repo, Fset: pkgs[0].Fset, Pkgs: pkgs, Prog: prog,
		ByPath: map[string]*packages.Package{}, SSA: map[string]*ssa.Package{}}
	for _, p := range pkgs {
		l.ByPath[p.PkgPath] = p
		if sp := prog.Package(p.Types); sp != nil {
			l.SSA[p.PkgPath] = sp
		}
	}
	for _, need := range []string{"main", "fzf", "algo", "util", "tui"} {
		if l.SSA[pkgAlias[need]] == nil {
			return nil, fmt.Errorf("package %s not loaded", pkgAlias[need])
		}
	}
	return l, nil
}

func (l *Loaded) pkg(alias string) *ssa.Package {
	if p, ok := pkgAlias[alias]; ok {
		return l.SSA[p]
	}
	return l.SSA[alias]
}

func (l *Loaded) tpkg(alias string) *types.Package { return l.pkg(alias).Pkg }

// AllFuncs returns every function of the module's own packages including nested closures.
func (l *Loaded) AllFuncs() []*ssa.Function {
	if l.funcs != nil {
		return l.funcs
	}
	seen := map[*ssa.Function]bool{}
	var add func(f *ssa.Function)
	add = func(f *ssa.Function) {
		if f == nil || seen[f] {
			return
		}
		seen[f] = true
		l.funcs = append(l.funcs, f)
		for _, a := range f.AnonFuncs {
			add(a)
		}
	}
	for path, sp := range l.SSA {
		if !strings.HasPrefix(path, modPath) {
			continue
		}
		for _, m := range sp.Members {
			switch m := m.(type) {
			case *ssa.Function:
				add(m)
			case *ssa.Type:
				for _, t := range []types.Type{m.Type(), types.NewPointer(m.Type())} {
					ms := l.Prog.MethodSets.MethodSet(t)
					for i := 0; i < ms.Len(); i++ {
						add(l.Prog.MethodValue(ms.At(i)))
					}
				}
			}
		}
	}
	// keep only functions with source in the module (drop wrappers/synthetic)
	var out []*ssa.Function
	for _, f := range l.funcs {
		if f.Synthetic != "" && f.Synthetic != "package initializer" {
			continue
		}
		if f.Blocks == nil {
			continue
		}
		out = append(out, f)
	}
	sort.Slice(out, func(i, j int) bool { return out[i].String() < out[j].String() })
	l.funcs = out
	return out
}

// CallGraph builds the VTA-over-CHA call graph lazily.
func (l *Loaded) CallGraph() *callgraph.Graph {
	if l.cg == nil {
		l.cg = vta.CallGraph(ssautil.AllFunctions(l.Prog), cha.CallGraph(l.Prog))
	}
	return l.cg
}

func (l *Loaded) pos(p token.Pos) string {
	if !p.IsValid() {
		return "?"
	}
	ps := l.Fset.Position(p)
	f := ps.Filename
	if strings.HasPrefix(f, l.Repo+"/") {
		f = f[len(l.Repo)+1:]
	}
	return fmt.Sprintf("%s:%d", f, ps.Line)
}
