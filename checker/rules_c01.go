package main

import (
	"fmt"
	"go/constant"
	"go/token"
	"go/types"
	"sort"
	"strings"

	"golang.org/x/tools/go/ssa"
)

func init() {
	register(&propDef{
		id:  "C01",
		run: runC01,
		explanation: "Structural clauses of exact filtering: (R1) the term-kind registry Pattern.procFun is complete and injective — every termType constant is bound exactly once, the fuzzy kind to the configured algorithm, the others to distinct package-level matchers of package algo, and extendedMatch selects by term.typ; " +
			"(R2) case-sensitivity, normalisation and text handed to the matcher are the per-term values (fields of the term being iterated), and parseTerms derives term.caseSensitive / term.normalize from the individual token; " +
			"(R3) cache scope: chunk-cache Lookup and Add happen only for cacheable patterns, BuildPattern clears `cacheable` for OR alternatives (idx>0), negated terms and non-base term kinds, and buildCacheKey only contributes single, non-negated, base-kind terms.",
		notDecided: "that the printed set equals the documented grammar's set for every (list, query, options): operator classification, AND/OR/negation evaluation, case/accent folding values, --exact / --no-extended reading, escaped spaces",
	})
}

func runC01(c *Ctx, r *Report) {
	defer round8(c, r, "C01")
	l := c.L
	bp := l.Fn("fzf", "BuildPattern")
	em := l.Fn("fzf", "(*Pattern).extendedMatch")
	pt := l.Fn("fzf", "parseTerms")
	iter := l.Fn("fzf", "(*Pattern).iter")
	fProc := l.Field("fzf", "Pattern", "procFun")
	termT := l.Named("fzf", "termType")
	termS := l.Named("fzf", "term")

	// ---------------- R1 ----------------
	r.rule("C01-R1", "E (table agreement)", "P1",
		"every termType constant is a key of exactly one store into Pattern.procFun in BuildPattern; termFuzzy maps to the fuzzyAlgo parameter, the others to pairwise distinct functions of package algo; extendedMatch indexes the table with term.typ",
		"a query using the unbound operator calls a nil function; two operators bound to one matcher become indistinguishable")
	if bp == nil || em == nil || fProc == nil || termT == nil {
		r.unest("anchors", token.NoPos, nil, "anchors BuildPattern / extendedMatch / Pattern.procFun / termType", "cannot resolve")
	} else {
		consts := map[int64]string{}
		sc := l.tpkg("fzf").Scope()
		for _, n := range sc.Names() {
			if cn, ok := sc.Lookup(n).(*types.Const); ok && types.Identical(cn.Type(), termT) {
				v, _ := constant.Int64Val(cn.Val())
				consts[v] = n
			}
		}
		r.floor("termType constants", len(consts), 6)
		bound := map[int64][]ssa.Value{}
		var at = map[int64]token.Pos{}
		eachInstr(bp, func(in ssa.Instruction) {
			mu, ok := in.(*ssa.MapUpdate)
			if !ok || !isLoadOf(mu.Map, fProc) {
				return
			}
			k, isc := constIntVal(mu.Key)
			if !isc {
				r.bad(relName(bp)+":procFun non-constant key", in.Pos(), bp, "store into procFun", "key is not a termType constant")
				return
			}
			bound[k] = append(bound[k], mu.Value)
			at[k] = in.Pos()
		})
		fuzzyV, _ := constInt(l.Const("fzf", "termFuzzy"))
		usedFns := map[*ssa.Function]string{}
		var ks []int64
		for k := range consts {
			ks = append(ks, k)
		}
		sort.Slice(ks, func(i, j int) bool { return ks[i] < ks[j] })
		for _, k := range ks {
			name := consts[k]
			vals := bound[k]
			if len(vals) != 1 {
				r.bad(relName(bp)+":procFun["+name+"]", bp.Pos(), bp, "term kind "+name+" is bound exactly once", fmt.Sprintf("%d bindings", len(vals)))
				continue
			}
			v := vals[0]
			if ct, ok := v.(*ssa.ChangeType); ok {
				v = ct.X
			}
			if k == fuzzyV {
				p, isParam := v.(*ssa.Parameter)
				r.check(isParam && p.Name() == "fuzzyAlgo", relName(bp)+":procFun["+name+"]", at[k], bp, name+" is bound to the configured fuzzy algorithm (parameter fuzzyAlgo)", "bound to something else than the --algo parameter")
				continue
			}
			fn, isFn := v.(*ssa.Function)
			okFn := isFn && fn.Pkg == l.pkg("algo")
			if okFn {
				if prev, dup := usedFns[fn]; dup {
					r.bad(relName(bp)+":procFun["+name+"]", at[k], bp, name+" bound to "+fn.Name(), "same matcher as "+prev)
					continue
				}
				usedFns[fn] = name
			}
			r.check(okFn, relName(bp)+":procFun["+name+"]", at[k], bp, fmt.Sprintf("%s is bound to a package-level matcher (%v)", name, v.Name()), "not a function of package algo")
		}
		// the lookup
		n := 0
		eachInstr(em, func(in ssa.Instruction) {
			lk, ok := in.(*ssa.Lookup)
			if !ok || !isLoadOf(lk.X, fProc) {
				return
			}
			n++
			fld, _ := loadedField(lk.Index)
			r.check(fld != nil && fld.Name() == "typ", relName(em)+":procFun[term.typ]", in.Pos(), em, "the matcher is selected by term.typ", "selected by something else")
		})
		r.floor("procFun lookups in extendedMatch", n, 1)
	}

	// ---------------- R2 ----------------
	r.rule("C01-R2", "D (provenance)", "P1",
		"extendedMatch passes term.caseSensitive / term.normalize / term.text of the term being iterated to Pattern.iter (no Pattern-level field); in parseTerms the values stored in term.caseSensitive and term.normalize are derived from the individual token",
		"smart-case or accent folding decided once per query instead of per term")
	if em == nil || pt == nil || iter == nil || termS == nil {
		r.unest("anchors", token.NoPos, nil, "anchors extendedMatch / parseTerms / Pattern.iter / term", "cannot resolve")
	} else {
		isTermField := func(v ssa.Value, name string) bool {
			fld, base := loadedField(v)
			if fld == nil || fld.Name() != name {
				return false
			}
			n, ok := deref(base.Type()).(*types.Named)
			return ok && n.Obj() == termS.Obj()
		}
		n := 0
		eachInstr(em, func(in ssa.Instruction) {
			call, ok := in.(*ssa.Call)
			if !ok || call.Common().StaticCallee() != iter {
				return
			}
			n++
			a := call.Call.Args
			// (p, pfun, tokens, caseSensitive, normalize, forward, pattern, withPos, slab)
			for _, w := range []struct {
				idx  int
				name string
			}{{3, "caseSensitive"}, {4, "normalize"}, {6, "text"}} {
				r.check(isTermField(a[w.idx], w.name), relName(em)+":iter arg "+w.name, in.Pos(), em, "iter receives term."+w.name, "argument is not the field of the term being iterated")
			}
		})
		r.floor("iter calls in extendedMatch", n, 1)
		// parseTerms: stores into term.{caseSensitive,normalize}
		isTokenElem := func(v ssa.Value) bool {
			u, ok := v.(*ssa.UnOp)
			if !ok || u.Op != token.MUL {
				return false
			}
			ia, ok := u.X.(*ssa.IndexAddr)
			if !ok {
				return false
			}
			// an element of the token list: the result of the call that splits the query (a library split or the
			// module's own splitter), recognised by its []string result computed from parseTerms' query parameter
			call, ok := ia.X.(*ssa.Call)
			if !ok {
				return false
			}
			if sl, isSl := call.Type().Underlying().(*types.Slice); !isSl || !types.Identical(sl.Elem(), types.Typ[types.String]) {
				return false
			}
			for _, a := range call.Call.Args {
				for w := range backwardSlice(a, func(*ssa.CallCommon) bool { return true }, nil) {
					if w == ssa.Value(pt.Params[3]) {
						return true
					}
				}
			}
			return false
		}
		ns := 0
		eachInstr(pt, func(in ssa.Instruction) {
			st, ok := in.(*ssa.Store)
			if !ok {
				return
			}
			fld, base := fieldOf(st.Addr)
			if fld == nil || (fld.Name() != "caseSensitive" && fld.Name() != "normalize") {
				return
			}
			if nn, ok := deref(base.Type()).(*types.Named); !ok || nn.Obj() != termS.Obj() {
				return
			}
			ns++
			dep := false
			for v := range backwardSlice(st.Val, func(*ssa.CallCommon) bool { return true }, nil) {
				if isTokenElem(v) {
					dep = true
				}
			}
			// control dependence through a short-circuit phi
			if !dep {
				if phi, ok := st.Val.(*ssa.Phi); ok {
					for i, e := range phi.Edges {
						_ = i
						for v := range backwardSlice(e, func(*ssa.CallCommon) bool { return true }, nil) {
							if isTokenElem(v) {
								dep = true
							}
						}
					}
				}
			}
			r.check(dep, relName(pt)+":term."+fld.Name()+" per token", st.Pos(), pt, "term."+fld.Name()+" is computed from the token itself", "value does not depend on the individual token (decided once for the whole query)")
		})
		r.floor("stores of term.caseSensitive/normalize in parseTerms", ns, 2)
	}

	c01r3(c, r)
	// shared with C02: 'word' terms must match regardless of the scan direction chosen by --scheme/--tiebreak
	c02r3(c, r)
	c02r5(c, r) // the pre-filter must not hide lines that match through an upper-case letter
	c03r4(c, r) // case folding tables are only filled for a scheme name Init knows
	c01r5(c, r)
	c01r6(c, r)
	c01r7(c, r)
	c01r8(c, r)
	c01r9(c, r)
	c02r12(c, r) // accent folding of the query in --no-extended mode
	c13r3(c, r)  // a leftover worker of a cancelled scan shares its slab with the next scan: wrong matches
	c02r10(c, r) // the pattern side and the text side fold the same letters
	c01r4(c, r)
	c02r8(c, r) // case and accent folding are the same in every matcher
	oneSlabPerWorkerShared(c, r)
	c08r8(c, r) // interactive list: no matching line dropped after going back to an earlier query
}

// c01r5: Pattern.IsEmpty looks at the data of the mode that will do the matching.
func c01r5(c *Ctx, r *Report) {
	l := c.L
	r.rule("C01-R5", "E (sibling agreement on the mode switch)", "P1",
		"MatchItem dispatches on Pattern.extended to extendedMatch or basicMatch; for each value of that flag, every non-constant result of Pattern.IsEmpty that is reachable under it is computed from a field that only the matcher of that mode reads (termSets / text)",
		"a non-empty query counts as empty in one mode: the matcher is bypassed and every line is listed")
	ie := l.Fn("fzf", "(*Pattern).IsEmpty")
	mi := l.Fn("fzf", "(*Pattern).MatchItem")
	fExt := l.Field("fzf", "Pattern", "extended")
	tPat := l.Named("fzf", "Pattern")
	if ie == nil || mi == nil || fExt == nil || tPat == nil {
		r.unest("anchors", token.NoPos, nil, "anchors Pattern.IsEmpty / MatchItem / extended", "cannot resolve")
		return
	}
	isExt := func(a ssa.Value) bool { f, _ := loadedField(a); return f == fExt }
	// matcher per mode: callee of MatchItem under extended == m
	pcM := pathConds(mi)
	fieldsRead := func(fn *ssa.Function) map[*types.Var]bool {
		out := map[*types.Var]bool{}
		eachInstr(fn, func(in ssa.Instruction) {
			if u, ok := in.(*ssa.UnOp); ok && u.Op == token.MUL {
				if f, base := loadedField(u); f != nil && base != nil && types.Identical(deref(base.Type()), tPat) {
					out[f] = true
				}
			}
		})
		return out
	}
	byMode := map[bool]map[*types.Var]bool{}
	eachInstr(mi, func(in ssa.Instruction) {
		call, ok := in.(*ssa.Call)
		if !ok {
			return
		}
		callee := call.Common().StaticCallee()
		if callee == nil || callee.Signature.Recv() == nil || callee.Pkg != mi.Pkg {
			return
		}
		if recv := callee.Signature.Recv().Type(); !types.Identical(deref(recv), tPat) {
			return
		}
		for _, m := range []bool{true, false} {
			m := m
			if ok, _ := pcM.Implies(in.Block(), func(lits []Lit) bool {
				return hasLit(lits, func(a ssa.Value, v bool) bool { return isExt(a) && v == m })
			}); ok {
				if byMode[m] == nil {
					byMode[m] = map[*types.Var]bool{}
				}
				for f := range fieldsRead(callee) {
					byMode[m][f] = true
				}
			}
		}
	})
	if len(byMode[true]) == 0 || len(byMode[false]) == 0 {
		r.unest("fzf.MatchItem:mode dispatch", mi.Pos(), mi, "a Pattern method called under extended and another under !extended", "not found")
		return
	}
	specific := map[bool]map[*types.Var]bool{true: {}, false: {}}
	for _, m := range []bool{true, false} {
		for f := range byMode[m] {
			if !byMode[!m][f] {
				specific[m][f] = true
			}
		}
	}
	names := func(s map[*types.Var]bool) string {
		var ns []string
		for f := range s {
			ns = append(ns, f.Name())
		}
		sort.Strings(ns)
		return strings.Join(ns, ",")
	}
	pc := pathConds(ie)
	nRet := 0
	for _, b := range ie.Blocks {
		ret, ok := b.Instrs[len(b.Instrs)-1].(*ssa.Return)
		if !ok {
			continue
		}
		res := retResult(ret, 0)
		if _, isc := res.(*ssa.Const); isc {
			continue
		}
		nRet++
		used := map[*types.Var]bool{}
		for v := range backwardSlice(res, func(*ssa.CallCommon) bool { return true }, nil) {
			if f, base := loadedField(v); f != nil && base != nil && types.Identical(deref(base.Type()), tPat) {
				used[f] = true
			}
		}
		for _, m := range []bool{true, false} {
			m := m
			// infeasible if every disjunct says extended == !m
			contradicts, _ := pc.Implies(b, func(lits []Lit) bool {
				return hasLit(lits, func(a ssa.Value, v bool) bool { return isExt(a) && v == !m })
			})
			if contradicts {
				continue
			}
			okM := false
			for f := range used {
				if specific[m][f] {
					okM = true
				}
			}
			r.check(okM, fmt.Sprintf("fzf.IsEmpty:result for extended=%v", m), ret.Pos(), ie, fmt.Sprintf("reachable with extended=%v and computed from {%s}", m, names(specific[m])), fmt.Sprintf("reachable with extended=%v but computed only from {%s}; that mode matches on {%s}", m, names(used), names(specific[m])))
		}
	}
	r.floor("non-constant results of IsEmpty", nRet, 1)
}

// c01r3: cache scope (shared with C08).
func c01r3(c *Ctx, r *Report) {
	l := c.L
	bp := l.Fn("fzf", "BuildPattern")
	termS := l.Named("fzf", "term")
	// ---------------- R3 ----------------
	r.rule("C01-R3", "A (path conditions)", "P1",
		"Pattern.Match returns a ChunkCache.Lookup hit and calls ChunkCache.Add only under p.cacheable; in BuildPattern the tests `idx > 0`, `term.inv` and `term.typ != <base kind>` lead to the block that clears `cacheable`; buildCacheKey appends a term's text only under len(termSet)==1, !inv and (fuzzy or typ==termExact)",
		"results cached for / narrowed by an OR group, a negated term or another term kind: matching lines are dropped or non-matching ones shown after the query is refined")
	match := l.Fn("fzf", "(*Pattern).Match")
	fCacheable := l.Field("fzf", "Pattern", "cacheable")
	if match == nil || fCacheable == nil || bp == nil {
		r.unest("anchors", token.NoPos, nil, "anchors Pattern.Match / Pattern.cacheable", "cannot resolve")
		return
	}
	pc := pathConds(match)
	// a cached list may be RETURNED only for cacheable patterns (calling Lookup is harmless)
	if lookup := l.Fn("fzf", "(*ChunkCache).Lookup"); lookup != nil {
		n := 0
		for _, b := range match.Blocks {
			ret, ok := b.Instrs[len(b.Instrs)-1].(*ssa.Return)
			if !ok {
				continue
			}
			fromLookup := false
			for v := range backwardSlice(retResult(ret, 0), nil, nil) {
				if call, ok := v.(*ssa.Call); ok && call.Common().StaticCallee() == lookup {
					fromLookup = true
				}
			}
			if !fromLookup {
				continue
			}
			n++
			holds, _ := pc.Implies(b, func(lits []Lit) bool {
				return hasLit(lits, func(a ssa.Value, v bool) bool { return v && isLoadOf(a, fCacheable) })
			})
			r.check(holds, relName(match)+":return of Lookup result under cacheable", ret.Pos(), match, "the exact-key cache hit is returned only when p.cacheable", "a cached list (keyed by the cacheable terms only) is returned for a non-cacheable pattern")
		}
		r.floor("returns of a ChunkCache.Lookup result", n, 1)
	}
	for _, w := range []string{"(*ChunkCache).Add"} {
		target := l.Fn("fzf", w)
		n := 0
		eachInstr(match, func(in ssa.Instruction) {
			if staticCallee(in) != target || target == nil {
				return
			}
			n++
			holds, _ := pc.Implies(in.Block(), func(lits []Lit) bool {
				return hasLit(lits, func(a ssa.Value, v bool) bool { return v && isLoadOf(a, fCacheable) })
			})
			r.check(holds, relName(match)+":"+w+" under cacheable", in.Pos(), match, w+" is reached only when p.cacheable", "the chunk cache is consulted/filled for a non-cacheable pattern")
		})
		r.floor(w+" calls in Pattern.Match", n, 1)
	}
	// (b) BuildPattern clears cacheable
	var stored ssa.Value
	eachInstr(bp, func(in ssa.Instruction) {
		if st, ok := in.(*ssa.Store); ok {
			if fld, _ := fieldOf(st.Addr); fld == fCacheable {
				stored = st.Val
			}
		}
	})
	if stored == nil {
		r.unest(relName(bp)+":store cacheable", token.NoPos, bp, "initialisation of Pattern.cacheable", "not found")
	} else {
		phis := map[*ssa.Phi]bool{}
		for v := range backwardSlice(stored, nil, nil) {
			if p, ok := v.(*ssa.Phi); ok {
				phis[p] = true
			}
		}
		clears := func(b *ssa.BasicBlock) bool {
			if len(b.Succs) == 0 {
				return false
			}
			for _, s := range b.Succs {
				okS := false
				for p := range phis {
					if p.Block() != s {
						continue
					}
					for i, pred := range s.Preds {
						if pred == b {
							if cb, isc := constBool(p.Edges[i]); isc && !cb {
								okS = true
							}
						}
					}
				}
				if !okS {
					// a successor that leaves the loop without a phi is fine if the value can no longer be read as true:
					// require a phi everywhere to stay conservative
					return false
				}
			}
			return true
		}
		type atomKind struct {
			name string
			is   func(a ssa.Value) (match bool, truth bool)
		}
		kinds := []atomKind{
			{"OR alternative (idx > 0)", func(a ssa.Value) (bool, bool) {
				x, op, k, ok := cmpInt(a)
				if !ok || k != 0 || (op != token.GTR && op != token.NEQ) {
					return false, false
				}
				for v := range backwardSlice(x, nil, nil) {
					if p, ok := v.(*ssa.Phi); ok && p.Comment == "rangeindex" {
						return true, true
					}
				}
				return false, false
			}},
			{"negated term (term.inv)", func(a ssa.Value) (bool, bool) {
				fld, base := loadedField(a)
				if fld == nil || fld.Name() != "inv" {
					return false, false
				}
				n, ok := deref(base.Type()).(*types.Named)
				return ok && termS != nil && n.Obj() == termS.Obj(), true
			}},
			{"non-base term kind (term.typ != base)", func(a ssa.Value) (bool, bool) {
				b, ok := a.(*ssa.BinOp)
				if !ok || b.Op != token.NEQ {
					return false, false
				}
				fld, _ := loadedField(b.X)
				return fld != nil && fld.Name() == "typ", true
			}},
		}
		for _, k := range kinds {
			n, good := 0, 0
			var at token.Pos
			eachInstr(bp, func(in ssa.Instruction) {
				ifi, ok := in.(*ssa.If)
				if !ok {
					return
				}
				atom, neg := normCond(ifi.Cond)
				m, truth := k.is(atom)
				if !m {
					return
				}
				// only conditions inside the cacheable-deciding loop: the block must reach a phi block
				n++
				at = in.Pos()
				succ := ifi.Block().Succs[0]
				if truth == neg {
					succ = ifi.Block().Succs[1]
				}
				if clears(succ) {
					good++
				}
			})
			if n == 0 {
				r.unest(relName(bp)+":clears cacheable on "+k.name, token.NoPos, bp, "test for "+k.name+" in BuildPattern", "not found")
				continue
			}
			// term.inv is also tested for `sortable`; at least one test per kind must lead to the clearing block,
			// and every typ test must
			need := 1
			if k.name[:3] == "non" {
				need = n
			}
			r.check(good >= need, relName(bp)+":clears cacheable on "+k.name, at, bp, fmt.Sprintf("%s leads to `cacheable = false` (%d of %d tests)", k.name, good, n), "the test no longer clears `cacheable`")
		}
	}
	// (c) buildCacheKey
	bk := l.Fn("fzf", "(*Pattern).buildCacheKey")
	fFuzzy := l.Field("fzf", "Pattern", "fuzzy")
	exactV, _ := constInt(l.Const("fzf", "termExact"))
	if bk == nil || fFuzzy == nil {
		r.unest("anchors buildCacheKey", token.NoPos, nil, "anchor Pattern.buildCacheKey", "cannot resolve")
		return
	}
	pck := pathConds(bk)
	n := 0
	eachInstr(bk, func(in ssa.Instruction) {
		call, ok := in.(*ssa.Call)
		if !ok || calleeName(call.Common()) != "builtin.append" {
			return
		}
		// appended value derived from a term's text
		fromText := false
		for _, a := range call.Call.Args[1:] {
			// (through calls: the text may pass a string function, e.g. an escaping of the key separator)
			for v := range backwardSlice(a, func(*ssa.CallCommon) bool { return true }, nil) {
				if fld, _ := fieldOf(v); fld != nil && fld.Name() == "text" {
					fromText = true
				}
			}
		}
		if !fromText {
			return
		}
		n++
		holds, _ := pck.Implies(in.Block(), func(lits []Lit) bool {
			single := hasLit(lits, func(a ssa.Value, v bool) bool {
				x, op, k, ok := cmpInt(a)
				if !ok || k != 1 {
					return false
				}
				c2, isCall := x.(*ssa.Call)
				return isCall && calleeName(c2.Common()) == "builtin.len" && ((op == token.EQL && v) || (op == token.NEQ && !v))
			})
			notInv := hasLit(lits, func(a ssa.Value, v bool) bool {
				fld, _ := loadedField(a)
				return fld != nil && fld.Name() == "inv" && !v
			})
			base := hasLit(lits, func(a ssa.Value, v bool) bool {
				if isLoadOf(a, fFuzzy) && v {
					return true
				}
				x, op, k, ok := cmpInt(a)
				if !ok || k != exactV {
					return false
				}
				fld, _ := loadedField(x)
				return fld != nil && fld.Name() == "typ" && ((op == token.EQL && v) || (op == token.NEQ && !v))
			})
			return single && notInv && base
		})
		r.check(holds, relName(bk)+":key term guard", in.Pos(), bk, "a term contributes to the cache key only if it is alone in its set, not negated and of the base kind", "OR alternatives / negated / other-kind terms leak into the search-space key")
	})
	r.floor("cache-key appends", n, 1)
}
