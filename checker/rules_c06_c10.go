package main

import (
	"fmt"
	"go/token"
	"go/types"
	"sort"
	"strings"

	"golang.org/x/tools/go/ssa"
)

func init() {
	register(&propDef{
		id:  "C06",
		run: runC06,
		explanation: "Structural clauses of 'every record becomes exactly one unaltered item': (R1) buffer hand-off safety in Reader.feed — the window given to Read is a prefix of a slab that advances by exactly the byte count of each read or is re-allocated, every slice handed to the pusher is a sub-slice of the bytes of that read or an append onto the carry-over buffer, and the carry-over buffer is never re-sliced/reused after its array was handed over; " +
			"(R2) Snapshot hands out private copies of the boundary chunks, made under the lock, and ChunkList.chunks is written only by ChunkList methods; (R3) item builders: every accepting path stores the running ordinal into the item and increments it exactly once, every rejecting (header) path stores nothing into the item and leaves the ordinal alone.",
		notDecided: "record framing for every chunking of the stream (delimiter scan, CR trimming, trailing record), --tail count arithmetic, CountItems",
	})
	register(&propDef{
		id:  "C10",
		run: runC10,
		explanation: "Structural clauses of field expressions: (R1) exactly one implementation interprets Range (only Transform and the Range constructors/printers read Range.begin/end) and all four consumers (--nth, --with-nth, --accept-nth, {N} placeholders) reach it, ParseRange is the only parser of a range expression; " +
			"(R2) Pattern.iter reports match offsets and positions in full-line coordinates: both offset components and every position are shifted by the token's prefixLength; (R3) prefix lengths are accumulated in characters (Chars.Length), the unit the matchers' offsets use.",
		notDecided: "tokenizer partition (fields concatenate back to the line), range resolution arithmetic for negative/out-of-range bounds, delimiter stripping",
	})
}

// ------------------------------------------------------------------------------------------ C06

func isFreshBytes(v ssa.Value) bool {
	switch x := v.(type) {
	case *ssa.MakeSlice:
		return true
	case *ssa.Slice:
		if al, ok := x.X.(*ssa.Alloc); ok && x.Low == nil {
			_ = al
			return true
		}
	}
	return false
}

// c06r1: buffer hand-off safety in Reader.feed (shared with C07 and C13: items must never change after they were read).
func c06r1(c *Ctx, r *Report) {
	l := c.L
	feed := l.Fn("fzf", "(*Reader).feed")
	fPusher := l.Field("fzf", "Reader", "pusher")
	r.rule("C06-R1", "F/A (alias families over phi webs)", "P1",
		"Reader.feed: (a) src.Read gets a prefix slice of the loop-carried slab; (b) the slab's next value is a fresh allocation or slab[k:] with k derived only from Read's byte count; (c) the carry-over buffer's next value is fresh, itself, or append(itself, ..) — never a re-slice of itself; (d) an append onto the carry-over buffer that is handed to the pusher does not also stay the carry-over buffer (unless nothing is appended afterwards)",
		"items keep slices into memory that a later read or a later partial record overwrites: earlier lines change content")
	if feed == nil || fPusher == nil {
		r.unest("anchors", token.NoPos, nil, "anchors Reader.feed / Reader.pusher", "cannot resolve")
	} else {
		// the Read call
		var readCall *ssa.Call
		eachInstr(feed, func(in ssa.Instruction) {
			if call, ok := in.(*ssa.Call); ok && call.Common().IsInvoke() && call.Common().Method.Name() == "Read" {
				readCall = call
			}
		})
		if readCall == nil {
			r.unest(relName(feed)+":Read", token.NoPos, feed, "src.Read call", "not found")
		} else {
			var nRead ssa.Value
			for _, ref := range *readCall.Referrers() {
				if ex, ok := ref.(*ssa.Extract); ok && ex.Index == 0 {
					nRead = ex
				}
			}
			arg, _ := readCall.Call.Args[0].(*ssa.Slice)
			var slabPhi *ssa.Phi
			if arg != nil {
				slabPhi, _ = arg.X.(*ssa.Phi)
			}
			r.check(arg != nil && arg.Low == nil && slabPhi != nil, relName(feed)+":Read window", readCall.Pos(), feed, "Read is given a prefix slice of the loop-carried slab", "Read's buffer is not slab[:k]")
			if slabPhi != nil {
				for i, e := range slabPhi.Edges {
					okE := false
					why := ""
					switch {
					case isFreshBytes(e):
						okE = true
					default:
						if sl, ok := e.(*ssa.Slice); ok && sl.X == ssa.Value(slabPhi) && sl.High == nil && sl.Low != nil {
							// low bound derived only from Read's count
							okLow := false
							pure := true
							for v := range backwardSlice(sl.Low, nil, nil) {
								if v == nRead {
									okLow = true
								}
								switch v.(type) {
								case *ssa.Phi, *ssa.Const, *ssa.Extract:
								case *ssa.Call:
									if v != ssa.Value(readCall) {
										pure = false
									}
								case *ssa.BinOp:
									pure = false
								}
							}
							okE = okLow && pure
							why = "slab is advanced by something other than Read's byte count"
						} else {
							why = "slab is neither re-allocated nor advanced past the bytes just read (the next Read overwrites bytes already handed to the pusher)"
						}
					}
					r.check(okE, fmt.Sprintf("%s:slab edge from block %s", relName(feed), slabPhi.Block().Preds[i].Comment), slabPhi.Pos(), feed, "next slab value is fresh or slab[n:]", why)
				}
			}
			// carry-over family: phis reachable backwards from the first argument of appends whose result reaches the pusher or a phi
			pushed := []ssa.Instruction{}
			eachInstr(feed, func(in ssa.Instruction) {
				if ci, ok := in.(ssa.CallInstruction); ok && isLoadOf(ci.Common().Value, fPusher) {
					pushed = append(pushed, in)
				}
			})
			r.floor("pusher calls in feed", len(pushed), 2)
			// L family: phis of []byte that (transitively) take an append(phi, ...) edge or a fresh [0]byte edge and are not the slab web
			slabWeb := map[ssa.Value]bool{}
			if slabPhi != nil {
				slabWeb[slabPhi] = true
				for changed := true; changed; {
					changed = false
					eachInstr(feed, func(in ssa.Instruction) {
						switch x := in.(type) {
						case *ssa.Slice:
							if slabWeb[x.X] && !slabWeb[x] {
								slabWeb[x] = true
								changed = true
							}
						case *ssa.Phi:
							for _, e := range x.Edges {
								if slabWeb[e] && !slabWeb[x] {
									if _, isSlab := e.(*ssa.Phi); isSlab || true {
										slabWeb[x] = true
										changed = true
									}
								}
							}
						}
					})
				}
			}
			L := map[ssa.Value]bool{}
			eachInstr(feed, func(in ssa.Instruction) {
				call, ok := in.(*ssa.Call)
				if !ok || calleeName(call.Common()) != "builtin.append" {
					return
				}
				if phi, ok := call.Call.Args[0].(*ssa.Phi); ok && !slabWeb[phi] {
					L[phi] = true
				}
			})
			for changed := true; changed; {
				changed = false
				for v := range L {
					phi, ok := v.(*ssa.Phi)
					if !ok {
						continue
					}
					for _, e := range phi.Edges {
						if p2, ok := e.(*ssa.Phi); ok && !L[p2] && !slabWeb[p2] {
							L[p2] = true
							changed = true
						}
					}
					// phis that take v as an edge
					for _, ref := range *phi.Referrers() {
						if p3, ok := ref.(*ssa.Phi); ok && !L[p3] && !slabWeb[p3] {
							L[p3] = true
							changed = true
						}
					}
				}
			}
			r.floor("carry-over (leftover) phi web", len(L), 3)
			aliasL := func(v ssa.Value) bool {
				for d := 0; d < 8; d++ {
					if L[v] {
						return true
					}
					switch x := v.(type) {
					case *ssa.Slice:
						v = x.X
					case *ssa.Call:
						if calleeName(x.Common()) == "builtin.append" {
							v = x.Call.Args[0]
						} else {
							return false
						}
					default:
						return false
					}
				}
				return false
			}
			nEdges := 0
			for v := range L {
				phi := v.(*ssa.Phi)
				for i, e := range phi.Edges {
					nEdges++
					okE := isFreshBytes(e) || L[e]
					why := ""
					if call, ok := e.(*ssa.Call); ok && calleeName(call.Common()) == "builtin.append" && L[call.Call.Args[0]] {
						okE = true
					}
					if sl, ok := e.(*ssa.Slice); ok && aliasL(sl.X) {
						okE = false
						why = "the carry-over buffer is re-sliced and reused: its array may already belong to an item"
					}
					if !okE && why == "" {
						why = "unrecognised definition of the carry-over buffer"
					}
					r.check(okE, fmt.Sprintf("%s:leftover edge %s<-%s", relName(feed), phi.Block().Comment, phi.Block().Preds[i].Comment), phi.Pos(), feed, "carry-over buffer is re-defined by a fresh slice, itself, or an append onto itself", why)
				}
			}
			// (d) pushed appends do not stay the carry-over
			for _, p := range pushed {
				arg := p.(ssa.CallInstruction).Common().Args[0]
				for v := range backwardSlice(arg, nil, func(y ssa.Value) bool {
					c2, ok := y.(*ssa.Call)
					return ok && calleeName(c2.Common()) == "builtin.append"
				}) {
					call, ok := v.(*ssa.Call)
					if !ok || calleeName(call.Common()) != "builtin.append" || !aliasL(call.Call.Args[0]) {
						continue
					}
					kept := false
					for _, ref := range *call.Referrers() {
						if phi, ok := ref.(*ssa.Phi); ok && L[phi] {
							kept = true
						}
					}
					later := false
					if kept {
						eachInstr(feed, func(i2 ssa.Instruction) {
							c3, ok := i2.(*ssa.Call)
							if ok && calleeName(c3.Common()) == "builtin.append" && aliasL(c3.Call.Args[0]) && canReach(p, i2) {
								later = true
							}
						})
					}
					r.check(!(kept && later), fmt.Sprintf("%s:pushed append not kept (%s)", relName(feed), l.pos(call.Pos())), p.Pos(), feed, "an append onto the carry-over buffer that is handed to the pusher is not appended to again", "the same array is pushed as an item and later extended/overwritten as carry-over")
				}
				// pushed value must come from the slab web, the L web, or fresh/append
				okRoot := true
				for v := range backwardSlice(arg, nil, nil) {
					if p2, ok := v.(*ssa.Parameter); ok && p2 != feed.Params[0] {
						okRoot = false
					}
				}
				r.check(okRoot, fmt.Sprintf("%s:pushed value provenance (%s)", relName(feed), l.pos(p.Pos())), p.Pos(), feed, "pushed bytes come from this read's window or the carry-over buffer", "pushed value of unknown provenance")
			}
		}
	}
}

func runC06(c *Ctx, r *Report) {
	defer round8(c, r, "C06")
	l := c.L
	c06r1(c, r)
	defer c13r8(c, r) // a record is built into its slot under the list lock (Snapshot copies the last chunk under it)
	defer c07r5(c, r) // the record's own bytes are kept when the searchable text is a transformation of it
	defer c06r6(c, r) // nobody writes through an alias of an item's rune storage
	defer c13r6(c, r) // --tail trimming writes only into chunks of its own
	defer c06r7(c, r)
	defer c06r8(c, r)
	defer c11r15(c, r) // a reload restarts the numbering and the header diversion
	defer c06r10(c, r)
	defer c08r16(c, r) // --tail: a trimmed snapshot is searched afresh, not served from the merger cache
	defer c06r9(c, r)  // --tail is honoured by every path that loads records
	defer c13r10(c, r) // the item builder (ordinals, header diversion) is serialised

	// ---------------- R2 ----------------
	r.rule("C06-R2", "A + B + C", "P1",
		"Snapshot copies the boundary chunks (see C13-R2) and ChunkList.chunks is stored only by methods of ChunkList",
		"the searchable list changes under a running search")
	snapshotCopies(c, r)
	fChunks := l.Field("fzf", "ChunkList", "chunks")
	if fChunks != nil {
		n := 0
		for _, f := range l.AllFuncs() {
			eachInstr(f, func(in ssa.Instruction) {
				st, ok := in.(*ssa.Store)
				if !ok {
					return
				}
				if fld, _ := fieldOf(st.Addr); fld != fChunks {
					return
				}
				n++
				isMethod := f.Signature.Recv() != nil && strings.HasSuffix(f.Signature.Recv().Type().String(), "ChunkList")
				isCtor := false
				if al, ok := addrRoot(st.Addr).(*ssa.Alloc); ok && al.Parent() == f {
					isCtor = true
				}
				r.check(isMethod || isCtor, relName(f)+":store ChunkList.chunks", st.Pos(), f, "ChunkList.chunks is written by a ChunkList method / constructor", "the chunk list is replaced from outside")
			})
		}
		r.floor("stores to ChunkList.chunks", n, 3)
	}
	if snap := l.Fn("fzf", "(*ChunkList).Snapshot"); snap != nil {
		la := analyseLocks(l, map[string]bool{"Terminal": true})
		chunkT := l.Named("fzf", "Chunk")
		eachInstr(snap, func(in ssa.Instruction) {
			u, ok := in.(*ssa.UnOp)
			if !ok || u.Op != token.MUL {
				return
			}
			nn, ok := u.Type().(*types.Named)
			if !ok || chunkT == nil || nn.Obj() != chunkT.Obj() {
				return
			}
			r.check(la.sets[snap][in]["ChunkList.mutex"], relName(snap)+":chunk copy under lock", in.Pos(), snap, "whole-chunk copy is made while holding ChunkList.mutex", "copied after unlock: a concurrent Push tears the copy")
		})
	}

	// ---------------- R3 ----------------
	r.rule("C06-R3", "A (must-pass-through)", "P1",
		"in each item builder handed to NewChunkList: every path returning true passes the store of the running ordinal into the item's Index and afterwards exactly one increment of the ordinal; every path returning false passes neither an increment nor a store into the item",
		"records are numbered wrongly ({n}, --tail bookkeeping, selection by index) or header lines leave debris in a searchable slot")
	newCL := l.Fn("fzf", "NewChunkList")
	if newCL == nil {
		r.unest("anchors NewChunkList", token.NoPos, nil, "anchor NewChunkList", "cannot resolve")
		return
	}
	nB := 0
	for _, f := range l.AllFuncs() {
		eachInstr(f, func(in ssa.Instruction) {
			call, ok := in.(*ssa.Call)
			if !ok || call.Common().StaticCallee() != newCL {
				return
			}
			fs, _ := resolveFuncs(call.Call.Args[1])
			for _, b := range fs {
				nB++
				checkBuilder(r, b)
			}
		})
	}
	r.floor("item builders", nB, 2)
	c06round2(c, r)
}

func checkBuilder(r *Report, b *ssa.Function) {
	item := b.Params[0]
	// the ordinal cell: the captured cell whose load is stored into <item>...Index
	var ordinal ssa.Value
	var idxStores []ssa.Instruction
	eachInstr(b, func(in ssa.Instruction) {
		st, ok := in.(*ssa.Store)
		if !ok {
			return
		}
		fld, _ := fieldOf(st.Addr)
		if fld == nil || fld.Name() != "Index" || addrRoot(st.Addr) != ssa.Value(item) {
			return
		}
		if u, ok := st.Val.(*ssa.UnOp); ok && u.Op == token.MUL {
			if al, ok := cellRoot(u.X).(*ssa.Alloc); ok {
				ordinal = al
				idxStores = append(idxStores, in)
			}
		}
	})
	if ordinal == nil {
		r.unest(relName(b)+":ordinal", b.Pos(), b, "store of the running ordinal into item.text.Index", "not found")
		return
	}
	var incs []ssa.Instruction
	var itemStores []ssa.Instruction
	eachInstr(b, func(in ssa.Instruction) {
		st, ok := in.(*ssa.Store)
		if !ok {
			return
		}
		if cellRoot(st.Addr) == ordinal {
			if bo, ok := st.Val.(*ssa.BinOp); ok && bo.Op == token.ADD && isConstInt(bo.Y, 1) {
				incs = append(incs, in)
			} else {
				r.bad(relName(b)+":ordinal assigned", st.Pos(), b, "the ordinal is only incremented by one", "other assignment to the ordinal inside the builder")
			}
			return
		}
		if addrRoot(st.Addr) == ssa.Value(item) {
			itemStores = append(itemStores, in)
		}
	})
	r.check(len(incs) == 1 && !inLoop(incs[0].Block()), relName(b)+":single increment", b.Pos(), b, "exactly one `ordinal++`, outside any loop", fmt.Sprintf("%d increments", len(incs)))
	if len(incs) != 1 {
		return
	}
	inc := incs[0]
	entry := b.Blocks[0].Instrs[0]
	retIs := func(want bool) func(ssa.Instruction) bool {
		return func(i ssa.Instruction) bool {
			ret, ok := i.(*ssa.Return)
			if !ok {
				return false
			}
			cb, isc := constBool(retResult(ret, 0))
			if !isc {
				return want // unknown: treat as possibly accepting
			}
			return cb == want
		}
	}
	isInc := func(i ssa.Instruction) bool { return i == inc }
	isIdx := func(i ssa.Instruction) bool {
		for _, s := range idxStores {
			if s == i {
				return true
			}
		}
		return false
	}
	r.check(feasiblePathAvoiding(entry, retIs(true), isInc, nil) == nil, relName(b)+":accept passes ordinal++", inc.Pos(), b, "every accepting path increments the ordinal", "an accepted record does not advance the ordinal")
	r.check(feasiblePathAvoiding(entry, retIs(true), isIdx, nil) == nil, relName(b)+":accept stores Index", inc.Pos(), b, "every accepting path stores the ordinal into the item", "an accepted item keeps a stale/zero index")
	okOrder := true
	for _, s := range idxStores {
		if canReach(inc, s) {
			okOrder = false
		}
	}
	r.check(okOrder, relName(b)+":Index stored before ordinal++", inc.Pos(), b, "the item receives the ordinal before it is incremented", "off-by-one numbering")
	// rejecting paths
	okRej := true
	eachInstr(b, func(i ssa.Instruction) {
		if !retIs(false)(i) {
			return
		}
		if _, isRet := i.(*ssa.Return); !isRet {
			return
		}
		if canReach(inc, i) {
			okRej = false
		}
		for _, s := range itemStores {
			if canReach(s, i) {
				okRej = false
			}
		}
	})
	r.check(okRej, relName(b)+":reject leaves item and ordinal alone", b.Pos(), b, "a rejecting (header) path neither increments the ordinal nor stores into the item", "header diversion consumes an ordinal or writes into the slot")
}

// ------------------------------------------------------------------------------------------ C10

func runC10(c *Ctx, r *Report) {
	defer round8(c, r, "C10")
	l := c.L
	defer func() {
		c10r5(c, r)
		c08r15(c, r) // a change-nth request is not lost to a request that follows it
		c08r17(c, r) // change-nth compares with the value it replaces
		c08r16(c, r) // change-nth is a minor revision: the mergers of the old field selection go with it
		c10r6(c, r)
		c10r7(c, r)
		c10r8(c, r)
		c14r15(c, r) // a range is evaluated over the fields that exist
		if c.thorough() {
			c08r3(c, r) // change-nth invalidates everything that was computed under the old field selection
		}
	}()
	rng := l.Named("fzf", "Range")
	transform := l.Fn("fzf", "Transform")
	parseRange := l.Fn("fzf", "ParseRange")
	r.rule("C10-R1", "B (reader census) + call-graph reachability", "P1",
		"Range.begin/Range.end are read only by the interpreter Transform and by Range's own constructors/printers/comparers; Transform is reachable from Pattern.transformInput (--nth), nthTransformer (--with-nth / --accept-nth templates), replacePlaceholder ({N}) and Item.acceptNth; ParseRange is reachable from splitNth and replacePlaceholder and nothing else builds a Range from text",
		"--nth, --with-nth, --accept-nth and {N} interpret the same expression differently")
	if rng == nil || transform == nil || parseRange == nil {
		r.unest("anchors", token.NoPos, nil, "anchors Range / Transform / ParseRange", "cannot resolve")
		return
	}
	allowed := map[string]string{
		"Transform":          "the interpreter",
		"newRange":           "constructor (normalises 1.. / ..-1)",
		"ParseRange":         "parser",
		"Range.IsFull":       "predicate on the normal form",
		"RangesToString":     "printer",
		"compareRanges":      "equality of two expressions",
		"postProcessOptions": "full-range test to drop a no-op --nth",
	}
	readers := map[string]bool{}
	for _, f := range l.AllFuncs() {
		eachInstr(f, func(in ssa.Instruction) {
			var fld *types.Var
			var base ssa.Value
			switch x := in.(type) {
			case *ssa.FieldAddr:
				fld, base = fieldOf(x)
			case *ssa.Field:
				fld, base = fieldOf(x)
			}
			if fld == nil {
				return
			}
			n, ok := deref(base.Type()).(*types.Named)
			if !ok || n.Obj() != rng.Obj() {
				return
			}
			name := f.Name()
			if f.Signature.Recv() != nil {
				name = "Range." + f.Name()
			}
			root := rootFn(f)
			if root != f {
				name = root.Name()
			}
			if !readers[name] {
				readers[name] = true
				_, ok := allowed[name]
				r.check(ok, "reader "+name, in.Pos(), f, "Range fields are read by "+name+" ("+allowed[name]+")", "a second interpretation of range bounds outside Transform")
			}
		})
	}
	r.floor("functions reading Range.begin/end", len(readers), 4)
	cg := l.CallGraph()
	reach := func(from *ssa.Function, to *ssa.Function) bool {
		seen := map[*ssa.Function]bool{}
		var rec func(f *ssa.Function) bool
		rec = func(f *ssa.Function) bool {
			if f == to {
				return true
			}
			if seen[f] || f == nil {
				return false
			}
			seen[f] = true
			for _, a := range f.AnonFuncs {
				if rec(a) {
					return true
				}
			}
			if n := cg.Nodes[f]; n != nil {
				for _, e := range n.Out {
					if e.Callee.Func.Pkg != nil && isModulePkg(e.Callee.Func.Pkg.Pkg) && rec(e.Callee.Func) {
						return true
					}
				}
			}
			return false
		}
		return rec(from)
	}
	for _, w := range []struct{ name, what string }{
		{"(*Pattern).transformInput", "--nth"}, {"nthTransformer", "--with-nth / --accept-nth"}, {"replacePlaceholder", "{N} placeholders"}, {"(*Item).acceptNth", "--accept-nth printing"},
	} {
		f := l.Fn("fzf", w.name)
		if f == nil {
			r.unest("consumer "+w.name, token.NoPos, nil, "anchor "+w.name, "cannot resolve")
			continue
		}
		r.check(reach(f, transform), "consumer "+w.name+" -> Transform", f.Pos(), f, w.what+" reaches the single Range interpreter Transform", "this consumer no longer goes through Transform")
	}
	for _, w := range []string{"splitNth", "replacePlaceholder"} {
		f := l.Fn("fzf", w)
		if f == nil {
			r.unest("parser user "+w, token.NoPos, nil, "anchor "+w, "cannot resolve")
			continue
		}
		r.check(reach(f, parseRange), "parser user "+w+" -> ParseRange", f.Pos(), f, w+" parses range expressions with ParseRange", "a second parser of range expressions")
	}
	// who constructs a Range from values? only newRange / ParseRange (composite literals elsewhere must be empty)
	for _, f := range l.AllFuncs() {
		eachInstr(f, func(in ssa.Instruction) {
			st, ok := in.(*ssa.Store)
			if !ok {
				return
			}
			fld, base := fieldOf(st.Addr)
			if fld == nil {
				return
			}
			n, ok := deref(base.Type()).(*types.Named)
			if !ok || n.Obj() != rng.Obj() {
				return
			}
			name := rootFn(f).Name()
			r.check(name == "newRange" || name == "ParseRange", "constructor "+name, st.Pos(), f, "Range values are built by newRange", "a Range is built without newRange's normalisation")
		})
	}

	// ---------------- R2 ----------------
	r.rule("C10-R2", "D (provenance)", "P1",
		"Pattern.iter returns Offset{start+prefixLength, end+prefixLength} and adds prefixLength to every element of *pos when positions were requested",
		"with --nth, highlight positions / tiebreak keys refer to the field instead of the full line")
	iter := l.Fn("fzf", "(*Pattern).iter")
	fPrefix := l.Field("fzf", "Token", "prefixLength")
	if iter == nil || fPrefix == nil {
		r.unest("anchors iter", token.NoPos, nil, "anchors Pattern.iter / Token.prefixLength", "cannot resolve")
	} else {
		addsPrefix := func(v ssa.Value) bool {
			b, ok := stripConv(v).(*ssa.BinOp)
			if !ok || b.Op != token.ADD {
				return false
			}
			for _, side := range []ssa.Value{b.X, b.Y} {
				for x := range backwardSlice(side, nil, nil) {
					if fld, _ := fieldOf(x); fld == fPrefix {
						return true
					}
				}
			}
			return false
		}
		n := 0
		for _, b := range iter.Blocks {
			ret, ok := b.Instrs[len(b.Instrs)-1].(*ssa.Return)
			if !ok {
				continue
			}
			// Offset result: loaded from a local [2]int32 array whose elements were stored
			off := retResult(ret, 0)
			u, ok := off.(*ssa.UnOp)
			if !ok {
				continue
			}
			al, ok := u.X.(*ssa.Alloc)
			if !ok {
				continue
			}
			var elems []ssa.Value
			allConst := true
			for _, ref := range *al.Referrers() {
				ia, ok := ref.(*ssa.IndexAddr)
				if !ok {
					continue
				}
				for _, r2 := range *ia.Referrers() {
					if st, ok := r2.(*ssa.Store); ok {
						elems = append(elems, st.Val)
						if _, isc := st.Val.(*ssa.Const); !isc {
							allConst = false
						}
					}
				}
			}
			if allConst {
				continue // the no-match return Offset{-1,-1}
			}
			n++
			okBoth := len(elems) == 2
			for _, e := range elems {
				if !addsPrefix(e) {
					okBoth = false
				}
			}
			r.check(okBoth, relName(iter)+":offset shifted", ret.Pos(), iter, "both components of the returned offset include part.prefixLength", "offset is relative to the field, not the line")
		}
		r.floor("match returns of Pattern.iter", n, 1)
		// positions: a store into (*pos)[idx] of value + prefixLength, in a loop, under pos != nil
		okPos := false
		eachInstr(iter, func(in ssa.Instruction) {
			st, ok := in.(*ssa.Store)
			if !ok {
				return
			}
			if _, isIdx := st.Addr.(*ssa.IndexAddr); !isIdx {
				return
			}
			if addsPrefix(st.Val) && inLoop(st.Block()) {
				okPos = true
			}
		})
		r.check(okPos, relName(iter)+":positions shifted", iter.Pos(), iter, "every element of *pos is incremented by part.prefixLength", "positions are not translated to line coordinates")
	}

	// ---------------- R3 ----------------
	r.rule("C10-R3", "D (unit agreement)", "P1",
		"withPrefixLengths accumulates Token.prefixLength from (*Chars).Length() — characters, the unit of match offsets — not from a byte length",
		"a multi-byte character before the searched field shifts offsets/positions (wrong highlights, index out of range in tiebreak=chunk)")
	wpl := l.Fn("fzf", "withPrefixLengths")
	if wpl == nil {
		r.unest("anchors withPrefixLengths", token.NoPos, nil, "anchor withPrefixLengths", "cannot resolve")
		return
	}
	var acc *ssa.Phi
	eachInstr(wpl, func(in ssa.Instruction) {
		phi, ok := in.(*ssa.Phi)
		if !ok {
			return
		}
		// the accumulator: a phi stored into Token.prefixLength
		for v := range forwardDerived(wpl, []ssa.Value{phi}, nil) {
			if v.Referrers() == nil {
				continue
			}
			for _, ref := range *v.Referrers() {
				if st, ok := ref.(*ssa.Store); ok && st.Val == v {
					if fld, _ := fieldOf(st.Addr); fld == fPrefix {
						acc = phi
					}
				}
			}
		}
	})
	if acc == nil {
		r.unest(relName(wpl)+":accumulator", token.NoPos, wpl, "running prefix length stored into Token.prefixLength", "not found")
		return
	}
	n := 0
	for _, e := range acc.Edges {
		bo, ok := e.(*ssa.BinOp)
		if !ok || bo.Op != token.ADD || (bo.X != ssa.Value(acc) && bo.Y != ssa.Value(acc)) {
			continue // the initial value, not an accumulation step
		}
		delta := bo.Y
		if bo.Y == ssa.Value(acc) {
			delta = bo.X
		}
		n++
		usesLength, usesLen := false, false
		for v := range backwardSlice(delta, func(*ssa.CallCommon) bool { return false }, nil) {
			if call, ok := v.(*ssa.Call); ok {
				nm := calleeName(call.Common())
				if strings.HasSuffix(nm, "util.Chars).Length") {
					usesLength = true
				}
				if nm == "builtin.len" {
					usesLen = true
				}
			}
		}
		r.check(usesLength && !usesLen, relName(wpl)+":accumulate characters", acc.Pos(), wpl, "prefix length grows by Chars.Length() of each token", "grows by a byte length (or something else)")
	}
	r.floor("accumulating edges of the prefix length", n, 1)
	_ = sort.Strings
	c10r4(c, r)
	c08r5(c, r) // --nth tokens cached per item are revision-checked
}
