package main

import (
	"fmt"
	"go/constant"
	"go/token"
	"go/types"
	"math"
	"strings"

	"golang.org/x/tools/go/ssa"
)

func init() {
	register(&propDef{
		id:  "C02",
		run: runC02,
		explanation: "Structural clauses of 'genuine witness, never a crash': (R1) scratch-slab carving is bounded — alloc16/alloc32 reslice the slab only under `slab != nil` and `cap(slab.Ixx) > offset+size` with the slice's high bound being that same offset+size, and fall back to a fresh make(size) otherwise (every unit test passes a nil slab, so only the real program takes the slab path); " +
			"(R2) every key of the accent-folding table lies inside the range that normalizeRune lets through to the table; (R3) the word-boundary bonus of an exact-boundary term is tested only where it was computed, so the term matches in both scan directions (found D9).",
		notDecided: "witness soundness and completeness of the matchers (positions increasing, inside range, matching characters), index arithmetic of V1/V2/exact/prefix/suffix/equal, ASCII pre-filter window",
	})
	register(&propDef{
		id:  "C03",
		run: runC03,
		explanation: "Structural clauses of the scoring model: (R1) the documented constants (16 per match, gap -3/-1) and the relations the source documents between the derived bonuses (boundary = match/2, consecutive = -(gapStart+gapExt), camel = boundary+gapExt, first-char multiplier 2), every scheme assigns boundary bonuses >= bonusBoundary; the unit tests compute their expectations from these very constants; " +
			"(R2) no int16 wrap: with the code's own slab size the longest pattern the O(nm) algorithm accepts keeps (match+maxBonus)*len + extra below MaxInt16, the DP body is reached only when N*M <= cap(slab.I16) for a non-nil slab, and the slabs fzf itself creates have exactly the declared sizes.",
		notDecided: "equality of the optimised dynamic programme with the documented recurrence on every input; optimality of the reported alignment",
	})
	register(&propDef{
		id:          "C05",
		run:         runC05,
		explanation: "Structural clauses of purity: (R1) one scratch slab per worker goroutine, the streaming filter's single slab only under its mutex (shared with C13-R4); (R2) the scratch arrays carved from a slab are pairwise disjoint: in every function calling alloc16/alloc32 the offsets are chained (each call starts at the offset returned by the previous call of the same allocator, the first at 0); (R3) every criterion whose rank key is computed from the match's begin offset is one for which Run requests exact positions.",
		notDecided:  "that every read of a carved array is preceded by a write in the same call (stale scratch cells): needs value reasoning about F/H/C indices; dependence of positions/score on withPos",
	})
}

func runC02(c *Ctx, r *Report) {
	defer round8(c, r, "C02")
	l := c.L
	r.rule("C02-R1", "A (path conditions) + shape", "P1",
		"alloc16/alloc32: the reslice slab.Ixx[offset:offset+size] is reached only under slab != nil and cap(slab.Ixx) > (or >=) offset+size, where the compared sum and the slice's high bound are the same expression over the parameters; the other return is make([]T, size)",
		"a line x pattern larger than the slab panics with slice bounds out of range — only in the real program, tests pass nil slabs")
	for _, name := range []string{"alloc16", "alloc32"} {
		f := l.Fn("algo", name)
		if f == nil {
			r.unest("anchor "+name, token.NoPos, nil, "anchor "+name, "cannot resolve")
			continue
		}
		pc := pathConds(f)
		nSl := 0
		eachInstr(f, func(in ssa.Instruction) {
			sl, ok := in.(*ssa.Slice)
			if !ok {
				return
			}
			fld, base := loadedField(sl.X)
			if fld == nil || !strings.HasPrefix(fld.Name(), "I") {
				return
			}
			nSl++
			sum := func(v ssa.Value) bool {
				b, ok := v.(*ssa.BinOp)
				if !ok || b.Op != token.ADD {
					return false
				}
				isP := func(x ssa.Value) bool { _, ok := x.(*ssa.Parameter); return ok }
				return isP(b.X) && isP(b.Y)
			}
			sameSum := func(a, b ssa.Value) bool {
				x, ok1 := a.(*ssa.BinOp)
				y, ok2 := b.(*ssa.BinOp)
				return ok1 && ok2 && x.Op == y.Op && ((x.X == y.X && x.Y == y.Y) || (x.X == y.Y && x.Y == y.X))
			}
			holds, _ := pc.Implies(in.Block(), func(lits []Lit) bool {
				nonNil := hasLit(lits, func(a ssa.Value, v bool) bool {
					b, ok := a.(*ssa.BinOp)
					if !ok {
						return false
					}
					cn, isc := b.Y.(*ssa.Const)
					return isc && cn.IsNil() && b.X == base && ((b.Op == token.NEQ && v) || (b.Op == token.EQL && !v))
				})
				bounded := hasLit(lits, func(a ssa.Value, v bool) bool {
					b, ok := a.(*ssa.BinOp)
					if !ok {
						return false
					}
					capOf := func(x ssa.Value) bool {
						c2, ok := x.(*ssa.Call)
						if !ok || calleeName(c2.Common()) != "builtin.cap" {
							return false
						}
						f2, _ := loadedField(c2.Call.Args[0])
						return f2 == fld
					}
					switch {
					case capOf(b.X) && sum(b.Y) && sameSum(b.Y, sl.High):
						return ((b.Op == token.GTR || b.Op == token.GEQ) && v) || ((b.Op == token.LSS || b.Op == token.LEQ) && !v)
					case capOf(b.Y) && sum(b.X) && sameSum(b.X, sl.High):
						return ((b.Op == token.LSS || b.Op == token.LEQ) && v) || ((b.Op == token.GTR || b.Op == token.GEQ) && !v)
					}
					return false
				})
				return nonNil && bounded
			})
			r.check(holds && sl.Low != nil, "algo."+name+":bounded reslice", in.Pos(), f, "slab reslice is guarded by slab != nil and cap >= offset+size (the slice's own high bound)", "slab is resliced without the capacity test: panics when a long line x pattern exceeds the slab")
		})
		r.floor("slab reslices in "+name, nSl, 1)
		// fallback
		hasMake := false
		eachInstr(f, func(in ssa.Instruction) {
			if mk, ok := in.(*ssa.MakeSlice); ok {
				if p, ok := mk.Len.(*ssa.Parameter); ok && p.Name() == "size" {
					hasMake = true
				}
			}
		})
		r.check(hasMake, "algo."+name+":heap fallback", f.Pos(), f, "falls back to make(size) when the slab cannot hold the request", "no heap fallback")
	}

	r.rule("C02-R2", "E/H (table within guard)", "P1",
		"all keys of the map literal `normalized` lie in the closed interval [lo, hi] outside which normalizeRune returns its argument unchanged",
		"letters listed in the accent table but outside the fast-path guard are silently not folded")
	nr := l.Fn("algo", "normalizeRune")
	g := l.Global("algo", "normalized")
	if nr == nil || g == nil {
		r.unest("anchors", token.NoPos, nil, "anchors normalizeRune / normalized", "cannot resolve")
		return
	}
	lo, hi := int64(-1), int64(-1)
	pc := pathConds(nr)
	// the lookup in the table happens under r >= lo and r <= hi
	eachInstr(nr, func(in ssa.Instruction) {
		lk, ok := in.(*ssa.Lookup)
		if !ok {
			return
		}
		if u, ok := lk.X.(*ssa.UnOp); !ok || u.X != ssa.Value(g) {
			return
		}
		for _, d := range pc.At(in.Block()) {
			for _, lt := range d {
				x, op, k, ok := cmpInt(lt.Atom)
				if !ok || x != ssa.Value(nr.Params[0]) {
					continue
				}
				switch {
				case op == token.LSS && !lt.Val:
					lo = k
				case op == token.LEQ && !lt.Val:
					lo = k + 1
				case op == token.GEQ && lt.Val:
					lo = k
				case op == token.GTR && !lt.Val:
					hi = k
				case op == token.GEQ && !lt.Val:
					hi = k - 1
				case op == token.LEQ && lt.Val:
					hi = k
				}
			}
		}
	})
	if lo < 0 || hi < 0 {
		r.unest("algo.normalizeRune:guard", nr.Pos(), nr, "range guard around the table lookup", "not recognised")
		return
	}
	minK, maxK, n := int64(math.MaxInt64), int64(-1), 0
	for _, f := range l.AllFuncs() {
		eachInstr(f, func(in ssa.Instruction) {
			mu, ok := in.(*ssa.MapUpdate)
			if !ok {
				return
			}
			// map stored into the global
			isTab := false
			if mm, ok := mu.Map.(*ssa.MakeMap); ok {
				for _, ref := range *mm.Referrers() {
					if st, ok := ref.(*ssa.Store); ok && st.Addr == ssa.Value(g) {
						isTab = true
					}
				}
			}
			if !isTab {
				return
			}
			k, isc := constIntVal(mu.Key)
			if !isc {
				return
			}
			n++
			if k < minK {
				minK = k
			}
			if k > maxK {
				maxK = k
			}
		})
	}
	r.floor("entries of the accent table", n, 300)
	defer c02r3(c, r)
	defer c02r5(c, r)
	defer c02r6(c, r)
	defer c02r8(c, r)
	defer c02r10(c, r)
	defer c02r11(c, r)
	defer c02r12(c, r)
	defer c02r13(c, r)
	defer c02r7(c, r)
	defer c13r3(c, r) // workers of a cancelled scan must be gone before their slabs are handed out again (crash otherwise)
	defer func() {
		r.rule("C02-R4", "H + A (shared with C03-R2)", "P1", "slab-independent bound on the pattern length before the int16 score matrices (and the slab-size headroom of C03-R2)", "matching crashes (index out of range in the back-trace) for a very long pattern when no slab / a larger slab is used")
		sm, _ := constOf(l, "algo", "scoreMatch")
		bb, _ := constOf(l, "algo", "bonusBoundary")
		mult, _ := constOf(l, "algo", "bonusFirstCharMultiplier")
		c03PatternGuard(c, r, sm, bb+2, mult)
	}()
	r.check(n > 0 && minK >= lo && maxK <= hi, "algo.normalized within guard", g.Pos(), nil,
		fmt.Sprintf("%d table keys span [%#x, %#x], inside normalizeRune's guard [%#x, %#x]", n, minK, maxK, lo, hi),
		fmt.Sprintf("keys span [%#x, %#x] but only [%#x, %#x] reaches the table", minK, maxK, lo, hi))
}

func constOf(l *Loaded, pkg, name string) (int64, bool) {
	cn := l.Const(pkg, name)
	if cn == nil {
		return 0, false
	}
	return constant.Int64Val(constant.ToInt(cn.Val()))
}

func runC03(c *Ctx, r *Report) {
	defer round8(c, r, "C03")
	l := c.L
	r.rule("C03-R1", "H (constant relations)", "P1",
		"scoreMatch==16, scoreGapStart==-3, scoreGapExtension==-1; bonusBoundary==scoreMatch/2, bonusNonWord==scoreMatch/2, bonusCamel123==bonusBoundary+scoreGapExtension, bonusConsecutive==-(scoreGapStart+scoreGapExtension), bonusFirstCharMultiplier==2; every value Init stores into bonusBoundaryWhite/Delimiter is >= bonusBoundary",
		"scores no longer follow the documented model; the suite derives its expectations from the same constants and keeps passing")
	get := func(n string) int64 {
		v, ok := constOf(l, "algo", n)
		if !ok {
			r.unest("const "+n, token.NoPos, nil, "constant algo."+n, "cannot resolve")
		}
		return v
	}
	sm, gs, ge := get("scoreMatch"), get("scoreGapStart"), get("scoreGapExtension")
	bb, bn, bc, bcons, mult := get("bonusBoundary"), get("bonusNonWord"), get("bonusCamel123"), get("bonusConsecutive"), get("bonusFirstCharMultiplier")
	chk := func(name string, cond bool, what string) {
		var p token.Pos
		if cn := l.Const("algo", name); cn != nil {
			p = cn.Pos()
		}
		r.check(cond, "const "+name, p, nil, what, "value differs from the documented model")
	}
	chk("scoreMatch", sm == 16, "scoreMatch == 16")
	chk("scoreGapStart", gs == -3, "scoreGapStart == -3")
	chk("scoreGapExtension", ge == -1, "scoreGapExtension == -1")
	chk("bonusBoundary", bb == sm/2, "bonusBoundary == scoreMatch/2")
	chk("bonusNonWord", bn == sm/2, "bonusNonWord == scoreMatch/2")
	chk("bonusCamel123", bc == bb+ge, "bonusCamel123 == bonusBoundary + scoreGapExtension")
	chk("bonusConsecutive", bcons == -(gs+ge), "bonusConsecutive == -(scoreGapStart + scoreGapExtension)")
	chk("bonusFirstCharMultiplier", mult == 2, "bonusFirstCharMultiplier == 2")
	// values assigned to the scheme-dependent bonuses
	maxBonus := bb
	nSt := 0
	for _, gname := range []string{"bonusBoundaryWhite", "bonusBoundaryDelimiter"} {
		g := l.Global("algo", gname)
		if g == nil {
			r.unest("global "+gname, token.NoPos, nil, "global algo."+gname, "cannot resolve")
			continue
		}
		for _, f := range l.AllFuncs() {
			eachInstr(f, func(in ssa.Instruction) {
				st, ok := in.(*ssa.Store)
				if !ok || st.Addr != ssa.Value(g) {
					return
				}
				nSt++
				k, isc := constIntVal(st.Val)
				r.check(isc && k >= bb, fmt.Sprintf("%s:%s = %d", relName(f), gname, k), st.Pos(), f, fmt.Sprintf("%s is assigned the constant %d >= bonusBoundary", gname, k), "non-constant or below the plain boundary bonus")
				if isc && k > maxBonus {
					maxBonus = k
				}
			})
		}
	}
	r.floor("assignments of scheme-dependent boundary bonuses", nSt, 6)

	r.rule("C03-R2", "H (constant inequality) + A", "P1",
		"(scoreMatch+maxBonus)*floor(sqrt(slab16Size)) + maxBonus*(multiplier-1) <= MaxInt16 and likewise for maxPatternLength; FuzzyMatchV2 reaches its slab allocations only when slab == nil or N*M <= cap(slab.I16); every util.MakeSlab call in package fzf passes slab16Size, slab32Size",
		"16-bit scores wrap for long patterns after a 'harmless' enlargement of the slab or removal of the fallback")
	s16, ok1 := constOf(l, "fzf", "slab16Size")
	s32, ok2 := constOf(l, "fzf", "slab32Size")
	mpl, ok3 := constOf(l, "fzf", "maxPatternLength")
	if !ok1 || !ok2 || !ok3 {
		r.unest("consts slab", token.NoPos, nil, "constants slab16Size / slab32Size / maxPatternLength", "cannot resolve")
	} else {
		maxM := int64(math.Floor(math.Sqrt(float64(s16))))
		bound := (sm+maxBonus)*maxM + maxBonus*(mult-1)
		// only needed when FuzzyMatchV2 has no slab-independent bound on the pattern length (judged below)
		if bound <= math.MaxInt16 {
			r.ok("int16 headroom (slab-bounded pattern)", l.Const("fzf", "slab16Size").Pos(), nil,
				fmt.Sprintf("M <= floor(sqrt(%d)) = %d when N*M <= slab: (%d+%d)*%d + %d = %d <= 32767", s16, maxM, sm, maxBonus, maxM, maxBonus*(mult-1), bound))
		} else {
			r.info("int16 headroom (slab-bounded pattern)", l.Const("fzf", "slab16Size").Pos(), nil,
				fmt.Sprintf("the slab alone no longer bounds the pattern enough ((%d+%d)*%d + %d = %d > 32767); the explicit pattern-length guard below must hold", sm, maxBonus, maxM, maxBonus*(mult-1), bound))
		}
		b2 := (sm+maxBonus)*mpl + maxBonus*(mult-1)
		r.check(b2 <= math.MaxInt16, "int16 headroom (interactive pattern limit)", l.Const("fzf", "maxPatternLength").Pos(), nil,
			fmt.Sprintf("interactive queries are truncated to %d runes: (%d+%d)*%d + %d = %d <= 32767", mpl, sm, maxBonus, mpl, maxBonus*(mult-1), b2), "the interactive pattern limit alone allows a wrap")
	}
	c03PatternGuard(c, r, sm, maxBonus, mult)
	v2 := l.Fn("algo", "FuzzyMatchV2")
	a16 := l.Fn("algo", "alloc16")
	fI16 := l.Field("util", "Slab", "I16")
	if v2 == nil || a16 == nil || fI16 == nil {
		r.unest("anchors V2", token.NoPos, nil, "anchors FuzzyMatchV2 / alloc16 / Slab.I16", "cannot resolve")
	} else {
		pc := pathConds(v2)
		n := 0
		eachInstr(v2, func(in ssa.Instruction) {
			if staticCallee(in) != a16 {
				return
			}
			n++
			holds := pc.ImpliesDom(in.Block(), func(lits []Lit) bool {
				return hasLit(lits, func(a ssa.Value, v bool) bool {
					b, ok := a.(*ssa.BinOp)
					if !ok {
						return false
					}
					// slab == nil
					if cn, isc := b.Y.(*ssa.Const); isc && cn.IsNil() {
						if p, ok := b.X.(*ssa.Parameter); ok && p.Name() == "slab" {
							return (b.Op == token.EQL && v) || (b.Op == token.NEQ && !v)
						}
					}
					// N*M > cap(slab.I16) is false — in product form, or in the overflow-free quotient form
					// N > cap(slab.I16)/M
					isCapI16 := func(x ssa.Value) bool {
						c2, ok := x.(*ssa.Call)
						if !ok || calleeName(c2.Common()) != "builtin.cap" {
							return false
						}
						f2, _ := loadedField(c2.Call.Args[0])
						return f2 == fI16
					}
					if mul, ok := b.X.(*ssa.BinOp); ok && mul.Op == token.MUL && isCapI16(b.Y) {
						return (b.Op == token.GTR && !v) || (b.Op == token.LEQ && v)
					}
					if quo, ok := b.Y.(*ssa.BinOp); ok && quo.Op == token.QUO && isCapI16(quo.X) {
						return (b.Op == token.GTR && !v) || (b.Op == token.LEQ && v)
					}
					return false
				})
			})
			r.check(holds, fmt.Sprintf("algo.FuzzyMatchV2:alloc16 #%d after fallback test", n), in.Pos(), v2, "the O(nm) matrices are carved only when slab == nil or N*M <= cap(slab.I16) (else FuzzyMatchV1)", "the V1 fallback for oversized inputs is gone")
		})
		r.floor("alloc16 calls in FuzzyMatchV2", n, 3)
	}
	c03r3(c, r)
	c03r4(c, r)
	c03r5(c, r)
	c03r6(c, r)
	c03r7(c, r)
	c05r9(c, r)  // the recurrence reads only cells of this call: boundary cells of shifted windows are initialised
	c02r5(c, r)  // 'over the whole line': the pre-filter window must not cut off upper-case occurrences
	c13r3(c, r)  // two scans must never fill the same score matrices at once
	c02r8(c, r)  // the scorer folds characters exactly as the loops that found the occurrence
	c05r11(c, r) // the optimal algorithm is used whenever the line fits the (full-size) slab
	mk := l.Fn("util", "MakeSlab")
	r.curRule = "C03-R2"
	nMk := 0
	if mk != nil {
		for _, f := range l.AllFuncs() {
			eachInstr(f, func(in ssa.Instruction) {
				call, ok := in.(*ssa.Call)
				if !ok || call.Common().StaticCallee() != mk {
					return
				}
				nMk++
				a, okA := constIntVal(call.Call.Args[0])
				b, okB := constIntVal(call.Call.Args[1])
				r.check(okA && okB && a == s16 && b == s32, relName(f)+":MakeSlab sizes", in.Pos(), f, "slab created with (slab16Size, slab32Size)", "a slab of another size is created (the headroom inequality above no longer applies)")
			})
		}
	}
	r.floor("MakeSlab call sites", nMk, 3)
}

func runC05(c *Ctx, r *Report) {
	defer round8(c, r, "C05")
	l := c.L
	defer c03r6(c, r) // a scheme is a complete configuration: the score does not depend on the scheme initialised before
	defer c05r12(c, r)
	defer c05r13(c, r)
	defer c06r6(c, r) // matching does not write into the line it matches
	r.rule("C05-R1", "B", "P1",
		"one slab per worker goroutine; Matcher.slab accessed only by scan and the constructor; the streaming filter's slab only under its mutex",
		"two goroutines scribble on one scratch matrix: results depend on scheduling")
	oneSlabPerWorker(c, r)

	r.rule("C05-R2", "A (offset chaining)", "P1",
		"in every function calling alloc16/alloc32, the offset argument of each call is the constant 0 or the offset result of a dominating earlier call of the same allocator, and no two calls share an offset",
		"two scratch arrays overlap (e.g. H and C): scores depend on what the other array holds — only with a real slab, which no unit test supplies")
	for _, an := range []string{"alloc16", "alloc32"} {
		af := l.Fn("algo", an)
		if af == nil {
			r.unest("anchor "+an, token.NoPos, nil, "anchor "+an, "cannot resolve")
			continue
		}
		total := 0
		for _, f := range l.AllFuncs() {
			var calls []*ssa.Call
			eachInstr(f, func(in ssa.Instruction) {
				if call, ok := in.(*ssa.Call); ok && call.Common().StaticCallee() == af {
					calls = append(calls, call)
				}
			})
			if len(calls) == 0 {
				continue
			}
			used := map[ssa.Value]*ssa.Call{}
			zeroSeen := false
			for _, call := range calls {
				total++
				off := call.Call.Args[0]
				key := fmt.Sprintf("%s:%s offset of call at %s", relName(f), an, c.L.pos(call.Pos()))
				if isConstInt(off, 0) {
					r.check(!zeroSeen, key, call.Pos(), f, "first carve starts at offset 0", "two carves start at offset 0: the arrays overlap")
					zeroSeen = true
					continue
				}
				ex, ok := off.(*ssa.Extract)
				okChain := false
				if ok && ex.Index == 0 {
					if prev, ok := ex.Tuple.(*ssa.Call); ok && prev.Common().StaticCallee() == af && dominates(prev, call) {
						okChain = true
					}
				}
				if okChain {
					if other, dup := used[off]; dup {
						r.bad(key, call.Pos(), f, "offset chained from the previous carve", "same offset as the call at "+c.L.pos(other.Pos())+": the arrays overlap")
						continue
					}
					used[off] = call
				}
				r.check(okChain, key, call.Pos(), f, "offset is the end offset returned by the previous carve of the same allocator", "offset is not chained: the array may overlap another one")
			}
		}
		r.floor(an+" call sites", total, 2)
	}
	c05r3(c, r)
	c13r3(c, r)  // a cancelled scan joins its workers before the slabs are reused
	c05r9(c, r)  // no score cell is read that this call did not write
	c05r10(c, r) // ... including the back-trace's look-ahead
	c05r11(c, r)
	c08r13(c, r) // results do not depend on what was searched before a change of --nth / the exclusion list
	c02r5(c, r)  // bytes vs runes: the byte-only pre-filter must not change the result
	c04r3(c, r)  // order purity: merge must agree with the per-partition sort
	c08r5(c, r)  // per-item tokens must not survive a change of --nth
	c08r3(c, r)  // nth/denylist change invalidates caches and bumps the revision
}

// C05-R3: criteria whose rank key is data-derived from the match's begin offset need exact positions.
func c05r3(c *Ctx, r *Report) {
	l := c.L
	r.rule("C05-R3", "E (cross-site agreement, both sides derived from the code)", "P1",
		"every tiebreak criterion whose key buildResult computes (data-wise) from the begin offset of the match is one under which Run requests positions (withPos = true) — without positions the fuzzy matcher reports only an approximate begin offset",
		"the sort key of --tiebreak=pathname/chunk depends on where the first query character happens to occur earlier in the line: ranking differs from the documented one and from runs that request positions")
	br := l.Fn("fzf", "buildResult")
	run := l.Fn("fzf", "Run")
	crit := l.Named("fzf", "criterion")
	fPoints := l.Field("fzf", "Result", "points")
	if br == nil || run == nil || crit == nil || fPoints == nil {
		r.unest("anchors", token.NoPos, nil, "anchors buildResult / Run / criterion / Result.points", "cannot resolve")
		return
	}
	names := map[int64]string{}
	sc := l.tpkg("fzf").Scope()
	for _, n := range sc.Names() {
		if cn, ok := sc.Lookup(n).(*types.Const); ok && types.Identical(cn.Type(), crit) {
			v, _ := constant.Int64Val(cn.Val())
			names[v] = n
		}
	}
	isCritCmp := func(a ssa.Value) (int64, bool) {
		x, op, k, ok := cmpInt(a)
		if !ok || op != token.EQL {
			return 0, false
		}
		if n, isN := x.Type().(*types.Named); !isN || n.Obj() != crit.Obj() {
			return 0, false
		}
		return k, true
	}
	critAt := func(pc *PathConds, from, to *ssa.BasicBlock) map[int64]bool {
		out := map[int64]bool{}
		for _, cj := range pc.in[from] {
			n, ok := pc.transfer(cj, from, to)
			if !ok {
				continue
			}
			// one disjunct: `criterion == a` and `criterion == b` together are infeasible
			here := map[int64]bool{}
			for _, lt := range pc.decode(n) {
				if k, ok := isCritCmp(lt.Atom); ok && lt.Val {
					here[k] = true
				}
			}
			if len(here) > 1 {
				continue
			}
			for k := range here {
				out[k] = true
			}
		}
		return out
	}
	beginDerived := func(v ssa.Value) bool {
		for x := range backwardSlice(v, func(*ssa.CallCommon) bool { return true }, nil) {
			ia, ok := x.(*ssa.IndexAddr)
			if !ok || !isConstInt(ia.Index, 0) {
				continue
			}
			if strings.HasSuffix(deref(ia.X.Type()).String(), ".Offset") {
				return true
			}
		}
		return false
	}
	// A: criteria with a begin-derived key
	A := map[int64]bool{}
	pcb := pathConds(br)
	var walk func(v ssa.Value, seen map[ssa.Value]bool)
	walk = func(v ssa.Value, seen map[ssa.Value]bool) {
		if seen[v] {
			return
		}
		seen[v] = true
		phi, ok := v.(*ssa.Phi)
		if !ok {
			return
		}
		for i, e := range phi.Edges {
			ks := critAt(pcb, phi.Block().Preds[i], phi.Block())
			if len(ks) == 1 && beginDerivedShallow(e, phi, beginDerived) {
				for k := range ks {
					A[k] = true
				}
			}
			walk(e, seen)
		}
	}
	nStores := 0
	eachInstr(br, func(in ssa.Instruction) {
		st, ok := in.(*ssa.Store)
		if !ok {
			return
		}
		ia, ok := st.Addr.(*ssa.IndexAddr)
		if !ok {
			return
		}
		if fld, _ := fieldOf(ia.X); fld != fPoints {
			return
		}
		nStores++
		walk(st.Val, map[ssa.Value]bool{})
	})
	r.floor("rank key stores in buildResult", nStores, 1)
	// B: criteria under which Run sets the variable that becomes Pattern.withPos to true.
	// The variable is found by use: the argument of BuildPattern that BuildPattern stores into Pattern.withPos.
	B := map[int64]bool{}
	pcr := pathConds(run)
	bp := l.Fn("fzf", "BuildPattern")
	fWP := l.Field("fzf", "Pattern", "withPos")
	argIdx := -1
	if bp != nil && fWP != nil {
		eachInstr(bp, func(in ssa.Instruction) {
			st, ok := in.(*ssa.Store)
			if !ok {
				return
			}
			if fld, _ := fieldOf(st.Addr); fld != fWP {
				return
			}
			for i, p := range bp.Params {
				if st.Val == ssa.Value(p) {
					argIdx = i
				}
			}
		})
	}
	var cell ssa.Value
	if argIdx >= 0 {
		for _, f := range withClosures(run) {
			eachInstr(f, func(in ssa.Instruction) {
				call, ok := in.(*ssa.Call)
				if !ok || call.Common().StaticCallee() != bp {
					return
				}
				if u, ok := call.Call.Args[argIdx].(*ssa.UnOp); ok && u.Op == token.MUL {
					cell = cellRoot(u.X)
				}
			})
		}
	}
	if cell == nil {
		r.unest(relName(run)+":withPos variable", token.NoPos, run, "the variable of Run that reaches Pattern.withPos through BuildPattern", "not found")
		return
	}
	for _, st := range storesToCell(cell) {
		if st.Parent() != run {
			continue
		}
		if cb, isc := constBool(st.Val); isc && cb {
			for _, d := range pcr.At(st.Block()) {
				for _, lt := range d {
					if k, ok := isCritCmp(lt.Atom); ok && lt.Val {
						B[k] = true
					}
				}
			}
		}
	}
	r.floor("criteria with a begin-derived key (buildResult)", len(A), 2)
	r.floor("criteria under which Run requests positions", len(B), 2)
	for k := range A {
		r.check(B[k], "positions requested for "+names[k], br.Pos(), br, names[k]+": key is computed from the begin offset and Run sets withPos for it", "key needs the exact begin offset but Run does not request positions for this criterion")
	}
}

// beginDerivedShallow: the edge value is begin-derived without going back through the same phi web's other
// criteria (we only look at the data slice of this edge, stopping at the phi we came from).
func beginDerivedShallow(e ssa.Value, from *ssa.Phi, f func(ssa.Value) bool) bool {
	if _, isPhi := e.(*ssa.Phi); isPhi {
		return false // judged at its own edges
	}
	return f(e)
}

// C03-R3: configure-then-derive ordering inside algo.Init.
func c03r3(c *Ctx, r *Report) {
	l := c.L
	r.rule("C03-R3", "A (ordering of writes and dependent reads)", "P1",
		"in algo.Init every package-level scoring input that Init assigns (bonusBoundaryWhite, bonusBoundaryDelimiter, delimiterChars, initialCharClass, ...) is assigned before anything in Init reads it, directly or through a callee (the loops that derive asciiCharClasses and bonusMatrix): no read of such a global can reach a store of it",
		"the derived tables are built from the previous/default scheme's inputs: --scheme=path scores `,:;|` as delimiters, or bonusMatrix lags one Init behind")
	init := l.Fn("algo", "Init")
	if init == nil {
		r.unest("anchors", token.NoPos, nil, "anchor algo.Init", "cannot resolve")
		return
	}
	// globals of package algo stored in Init
	stores := map[*ssa.Global][]ssa.Instruction{}
	eachInstr(init, func(in ssa.Instruction) {
		if st, ok := in.(*ssa.Store); ok {
			if g, ok := st.Addr.(*ssa.Global); ok && g.Pkg == l.pkg("algo") {
				stores[g] = append(stores[g], in)
			}
		}
	})
	// readers: functions of package algo that load a global (transitively)
	reads := map[*ssa.Function]map[*ssa.Global]bool{}
	var fns []*ssa.Function
	for _, f := range l.AllFuncs() {
		if f.Pkg == l.pkg("algo") {
			fns = append(fns, f)
			reads[f] = map[*ssa.Global]bool{}
			eachInstr(f, func(in ssa.Instruction) {
				if u, ok := in.(*ssa.UnOp); ok && u.Op == token.MUL {
					if g, ok := u.X.(*ssa.Global); ok {
						reads[f][g] = true
					}
				}
				if ia, ok := in.(*ssa.IndexAddr); ok {
					if g, ok := ia.X.(*ssa.Global); ok {
						for _, ref := range *ia.Referrers() {
							if u, ok := ref.(*ssa.UnOp); ok && u.Op == token.MUL {
								reads[f][g] = true
							}
						}
					}
				}
			})
		}
	}
	for changed := true; changed; {
		changed = false
		for _, f := range fns {
			eachInstr(f, func(in ssa.Instruction) {
				if g := staticCallee(in); g != nil && reads[g] != nil {
					for k := range reads[g] {
						if !reads[f][k] {
							reads[f][k] = true
							changed = true
						}
					}
				}
			})
		}
	}
	n := 0
	for g, sts := range stores {
		// read sites inside Init: direct loads and calls of readers
		var rds []ssa.Instruction
		eachInstr(init, func(in ssa.Instruction) {
			if u, ok := in.(*ssa.UnOp); ok && u.Op == token.MUL && u.X == ssa.Value(g) {
				rds = append(rds, in)
			}
			if cal := staticCallee(in); cal != nil && cal != init && reads[cal] != nil && reads[cal][g] {
				rds = append(rds, in)
			}
		})
		if len(rds) == 0 {
			continue
		}
		n++
		bad := ""
		for _, rd := range rds {
			for _, st := range sts {
				if canReach(rd, st) {
					bad = fmt.Sprintf("the read at %s can be followed by the assignment at %s", l.pos(rd.Pos()), l.pos(st.Pos()))
				}
			}
		}
		r.check(bad == "", "algo.Init:"+g.Name()+" set before use", sts[0].Pos(), init, g.Name()+" is assigned before Init derives anything from it", bad)
	}
	r.floor("scoring inputs that Init both assigns and derives tables from", n, 3)
}

// C02-R3 (shared with C01): def-use guard agreement for the boundary bonus in exactMatchNaive.
func c02r3(c *Ctx, r *Report) {
	l := c.L
	r.rule("C02-R3", "A (def-use guard agreement)", "P1",
		"in exactMatchNaive the per-match `bonus` is computed (bonusAt) only when the pattern's first character is being compared (pidx_ == 0); every test of that bonus against bonusBoundary that can reject a character inside the boundaryCheck branch is under the same pidx_ == 0 guard; no comparison inside the boundaryCheck branch uses a raw scan counter (an argument of indexAt) instead of its direction-mirrored value",
		"scanning backward (--scheme=path, --tiebreak=end) the first pattern character is seen last: a test of the not-yet-computed bonus rejects every candidate and 'word' terms match nothing")
	f := l.Fn("algo", "exactMatchNaive")
	bonusAt := l.Fn("algo", "bonusAt")
	bb, okc := constOf(l, "algo", "bonusBoundary")
	if f == nil || bonusAt == nil || !okc {
		r.unest("anchors", token.NoPos, nil, "anchors exactMatchNaive / bonusAt / bonusBoundary", "cannot resolve")
		return
	}
	var boundaryParam *ssa.Parameter
	for _, p := range f.Params {
		if p.Name() == "boundaryCheck" {
			boundaryParam = p
		}
	}
	pc := pathConds(f)
	// the guard atom(s) under which bonusAt is called
	var guardAtoms []ssa.Value
	var bonusCalls []ssa.Value
	eachInstr(f, func(in ssa.Instruction) {
		call, ok := in.(*ssa.Call)
		if !ok || call.Common().StaticCallee() != bonusAt {
			return
		}
		bonusCalls = append(bonusCalls, call)
		for _, d := range pc.At(in.Block()) {
			for _, lt := range d {
				if x, op, k, ok := cmpInt(lt.Atom); ok && k == 0 && op == token.EQL && lt.Val {
					_ = x
					guardAtoms = append(guardAtoms, lt.Atom)
				}
			}
		}
	})
	if len(bonusCalls) == 0 || len(guardAtoms) == 0 || boundaryParam == nil {
		r.unest("algo.exactMatchNaive:bonus definition", f.Pos(), f, "bonusAt call under a `pidx_ == 0` guard", "shape not found")
		return
	}
	isGuard := func(a ssa.Value) bool {
		for _, g := range guardAtoms {
			if g == a {
				return true
			}
			// same comparison on the same operand
			x1, o1, k1, ok1 := cmpInt(g)
			x2, o2, k2, ok2 := cmpInt(a)
			if ok1 && ok2 && x1 == x2 && o1 == o2 && k1 == k2 {
				return true
			}
		}
		return false
	}
	der := forwardDerived(f, bonusCalls, nil)
	n := 0
	eachInstr(f, func(in ssa.Instruction) {
		b, ok := in.(*ssa.BinOp)
		if !ok {
			return
		}
		x, op, k, ok := cmpInt(b)
		if !ok || k != bb || !der[x] || (op != token.GEQ && op != token.LSS && op != token.GTR && op != token.LEQ) {
			return
		}
		// only tests inside the boundaryCheck branch
		inBoundary, _ := pc.Implies(in.Block(), func(lits []Lit) bool {
			return hasLit(lits, func(a ssa.Value, v bool) bool { return a == ssa.Value(boundaryParam) && v })
		})
		if !inBoundary {
			return
		}
		n++
		guarded, _ := pc.Implies(in.Block(), func(lits []Lit) bool {
			return hasLit(lits, func(a ssa.Value, v bool) bool { return v && isGuard(a) })
		})
		r.check(guarded, fmt.Sprintf("algo.exactMatchNaive:boundary bonus test #%d", n), in.Pos(), f, "the boundary-bonus test is evaluated under the guard where the bonus was computed (first pattern character)", "the bonus is tested on every character: in a backward scan it is still zero when the last pattern character is compared")
	})
	r.floor("boundary-bonus tests inside the boundaryCheck branch", n, 1)

	// direction-mirrored indices: inside the boundaryCheck branch positions are tested through indexAt(..)
	indexAt := l.Fn("algo", "indexAt")
	if indexAt == nil {
		r.unest("algo.indexAt", token.NoPos, nil, "anchor indexAt", "cannot resolve")
		return
	}
	raw := map[ssa.Value]bool{} // the scan counters handed to indexAt
	eachInstr(f, func(in ssa.Instruction) {
		if call, ok := in.(*ssa.Call); ok && call.Common().StaticCallee() == indexAt {
			raw[call.Call.Args[0]] = true
		}
	})
	nPos := 0
	eachInstr(f, func(in ssa.Instruction) {
		b, ok := in.(*ssa.BinOp)
		if !ok {
			return
		}
		switch b.Op {
		case token.EQL, token.NEQ, token.LSS, token.LEQ, token.GTR, token.GEQ:
		default:
			return
		}
		inBoundary, _ := pc.Implies(in.Block(), func(lits []Lit) bool {
			return hasLit(lits, func(a ssa.Value, v bool) bool { return a == ssa.Value(boundaryParam) && v })
		})
		if !inBoundary {
			return
		}
		nPos++
		r.check(!raw[b.X] && !raw[b.Y], fmt.Sprintf("algo.exactMatchNaive:position test #%d uses the mirrored index", nPos), in.Pos(), f,
			"positions tested in the boundaryCheck branch are the direction-mirrored ones (indexAt results)", "a word-boundary test compares the raw scan counter: in a backward scan it refers to the other end of the pattern/text")
	})
	r.floor("position tests inside the boundaryCheck branch", nPos, 3)
}

// c03PatternGuard: slab-independent int16 headroom — V2's matrices are reached only for len(pattern) <= K with
// (scoreMatch+maxBonus)*K + maxBonus*(mult-1) <= MaxInt16 (shared with C02: "with/without scratch slab ... never crashes").
func c03PatternGuard(c *Ctx, r *Report, sm, maxBonus, mult int64) {
	l := c.L
	v2 := l.Fn("algo", "FuzzyMatchV2")
	a16 := l.Fn("algo", "alloc16")
	if v2 == nil || a16 == nil {
		return
	}
	pc := pathConds(v2)
	isM := func(x ssa.Value) bool {
		call, ok := x.(*ssa.Call)
		if !ok || calleeName(call.Common()) != "builtin.len" {
			return false
		}
		p, ok := call.Call.Args[0].(*ssa.Parameter)
		return ok && p.Name() == "pattern"
	}
	K := int64(-1)
	var first ssa.Instruction
	eachInstr(v2, func(in ssa.Instruction) {
		if first == nil && staticCallee(in) == a16 {
			first = in
		}
	})
	if first == nil {
		return
	}
	// upper bound on M established at the first carve (at a dominator if needed)
	for d := first.Block(); d != nil && K < 0; d = d.Idom() {
		for _, dj := range pc.At(d) {
			best := int64(-1)
			for _, lt := range dj {
				x, op, k, ok := cmpInt(lt.Atom)
				if !ok || !isM(x) {
					continue
				}
				switch {
				case op == token.GTR && !lt.Val:
					best = k
				case op == token.GEQ && !lt.Val:
					best = k - 1
				case op == token.LEQ && lt.Val:
					best = k
				case op == token.LSS && lt.Val:
					best = k - 1
				}
			}
			if best < 0 {
				K = -1
				break
			}
			if K < 0 || best > K {
				K = best
			}
		}
	}
	if K < 0 {
		r.bad("algo.FuzzyMatchV2:pattern length guard", first.Pos(), v2, "the O(nm) matrices are reached only for a bounded pattern length", "no upper bound on len(pattern) is established before the int16 matrices are carved: without a slab (or with a larger one) a long pattern wraps the scores and the back-trace indexes out of range")
		return
	}
	bound := (sm+maxBonus)*K + maxBonus*(mult-1)
	r.check(bound <= 32767, "algo.FuzzyMatchV2:pattern length guard", first.Pos(), v2,
		fmt.Sprintf("len(pattern) <= %d at the matrices: (%d+%d)*%d + %d = %d <= 32767, whatever slab is passed (nil included)", K, sm, maxBonus, K, maxBonus*(mult-1), bound),
		fmt.Sprintf("len(pattern) may reach %d: worst-case score %d exceeds MaxInt16", K, bound))
}
