package main

import (
	"fmt"
	"go/token"
	"go/types"
	"regexp"
	"sort"
	"strings"

	"golang.org/x/tools/go/ssa"
)

func init() {
	register(&propDef{
		id:  "C14",
		run: runC14,
		explanation: "Structural clauses of 'clean exit': (R1) every DEC private mode the light renderer switches on from Init/Resume (mouse 1000/1002/1006, bracketed paste 2004) is switched off in a function called unconditionally from both Close and Pause, under a guard no stronger than the setter's; raw mode (term.MakeRaw) is undone by term.Restore on the same unconditional paths; ?7l is always followed by ?7h; Close re-shows the cursor under the complement of flush's condition; ?1049 has a may-reset; " +
			"(R2) the render loop can stop only through exit(): previewer told to quit, listener closed, terminal closed, all before `running=false`; after the loop EvtQuit is posted, the preview is killed and the context cancelled; Become is dominated by tui.Close; the fatal paths of the key reader close the terminal; " +
			"(R3) every temp-file list returned by placeholder expansion is removed on every path (or handed to a commandSpec that Reader.restart removes); (R4) every child started through ExecCommand is waited for on the success path, and only process-group leaders are group-killed; (R5) every constant index into the key decoder's input buffer is covered by a proven lower bound of its length (interval analysis along the CFG).",
		notDecided: "absence of panics/hangs for all geometries, inputs and histories (width arithmetic, constrain()); non-constant indexes and value-level behaviour of the key decoder; Windows and tcell renderers (not compiled in this configuration)",
	})
}

var decModeRe = regexp.MustCompile(`\?(\d+)([hl])`)

type modeSite struct {
	mode   int
	on     bool
	fn     *ssa.Function
	in     ssa.Instruction
	guards map[string]bool // "field=true/false" literals holding at the site in every disjunct
}

func stringConstsOf(in ssa.Instruction) []string {
	var out []string
	var buf [12]*ssa.Value
	for _, op := range in.Operands(buf[:0]) {
		if op == nil || *op == nil {
			continue
		}
		if s, ok := constString(*op); ok {
			out = append(out, s)
		}
	}
	return out
}

// fieldGuards: literals `load(recv.field) == bool` common to all disjuncts at the block.
func fieldGuards(pc *PathConds, b *ssa.BasicBlock) map[string]bool {
	var common map[string]bool
	for _, d := range pc.At(b) {
		cur := map[string]bool{}
		for _, lt := range d {
			if fld, _ := loadedField(lt.Atom); fld != nil {
				cur[fmt.Sprintf("%s=%v", fld.Name(), lt.Val)] = true
			}
		}
		if common == nil {
			common = cur
		} else {
			for k := range common {
				if !cur[k] {
					delete(common, k)
				}
			}
		}
	}
	if common == nil {
		common = map[string]bool{}
	}
	return common
}

func guardStr(g map[string]bool) string {
	var ks []string
	for k := range g {
		ks = append(ks, k)
	}
	sort.Strings(ks)
	if len(ks) == 0 {
		return "unconditional"
	}
	return strings.Join(ks, " && ")
}

// mustCalls: functions that are called on every path from fn's entry to each of its returns (transitively).
func mustCalls(l *Loaded, fn *ssa.Function, memo map[*ssa.Function]map[*ssa.Function]bool, depth int) map[*ssa.Function]bool {
	if m, ok := memo[fn]; ok {
		return m
	}
	out := map[*ssa.Function]bool{}
	memo[fn] = out
	if fn.Blocks == nil || depth > 6 {
		return out
	}
	entry := fn.Blocks[0].Instrs[0]
	cands := map[*ssa.Function]bool{}
	eachInstr(fn, func(in ssa.Instruction) {
		if ci, ok := in.(ssa.CallInstruction); ok {
			if _, isDefer := in.(*ssa.Defer); isDefer {
				return
			}
			if _, isGo := in.(*ssa.Go); isGo {
				return
			}
			if fs, ok := calleesOf(ci.Common()); ok {
				for _, g := range fs {
					cands[g] = true
				}
			}
		}
	})
	for g := range cands {
		gg := g
		isCallG := func(in ssa.Instruction) bool {
			ci, ok := in.(ssa.CallInstruction)
			if !ok {
				return false
			}
			if _, isGo := in.(*ssa.Go); isGo {
				return false
			}
			fs, _ := calleesOf(ci.Common())
			for _, x := range fs {
				if x == gg {
					return true
				}
			}
			return false
		}
		first := isCallG(entry)
		if first || pathAvoiding(entry, isReturn, isCallG, nil) == nil {
			out[g] = true
			for h := range mustCalls(l, g, memo, depth+1) {
				out[h] = true
			}
		}
	}
	return out
}

func reachableFns(fn *ssa.Function) map[*ssa.Function]bool {
	seen := map[*ssa.Function]bool{}
	var rec func(f *ssa.Function)
	rec = func(f *ssa.Function) {
		if f == nil || seen[f] || f.Blocks == nil {
			return
		}
		seen[f] = true
		eachInstr(f, func(in ssa.Instruction) {
			if ci, ok := in.(ssa.CallInstruction); ok {
				if fs, ok := calleesOf(ci.Common()); ok {
					for _, g := range fs {
						if g.Pkg != nil && isModulePkg(g.Pkg.Pkg) {
							rec(g)
						}
					}
				}
			}
		})
	}
	rec(fn)
	return seen
}

func runC14(c *Ctx, r *Report) {
	defer round8(c, r, "C14")
	c14r1(c, r)
	c14r2(c, r)
	c14r3(c, r)
	c14r4(c, r)
	c14r5(c, r)
	c14round2(c, r)
	c14r8(c, r)
	c14r9(c, r)
	c14r10(c, r)
	c14r11(c, r)
	c14r12(c, r)
	c14r13(c, r)
	c14r14(c, r)
	c14r15(c, r)
	c14r16(c, r)
	c20r11(c, r) // no preview child survives: the watcher takes a kill request also during the grace period
}

func c14r1(c *Ctx, r *Report) {
	l := c.L
	r.rule("C14-R1", "E (constant tables) + A (must-call, path-condition guards)", "P1",
		"every `?Nh` emitted from code reachable from LightRenderer.Init/Resume has a `?Nl` in a function called on every path of both Close and Pause, under a field guard that is a subset of the setter's; term.MakeRaw <-> term.Restore likewise; ?7l is followed by ?7h on all paths; Close emits ?25h under at most `showCursor==false`",
		"a terminal mode (mouse reporting, bracketed paste, raw mode, hidden cursor, no-wrap) stays on after fzf exits — the 0.61.1 regression")
	initF := l.Fn("tui", "(*LightRenderer).Init")
	resumeF := l.Fn("tui", "(*LightRenderer).Resume")
	closeF := l.Fn("tui", "(*LightRenderer).Close")
	pauseF := l.Fn("tui", "(*LightRenderer).Pause")
	if initF == nil || resumeF == nil || closeF == nil || pauseF == nil {
		r.unest("anchors", token.NoPos, nil, "anchors LightRenderer.Init/Resume/Close/Pause", "cannot resolve")
		return
	}
	var sites []modeSite
	tuiPkg := l.pkg("tui")
	for _, f := range l.AllFuncs() {
		if f.Pkg != tuiPkg {
			continue
		}
		recv := ""
		if f.Signature.Recv() != nil {
			recv = f.Signature.Recv().Type().String()
		}
		if !strings.Contains(recv, "LightRenderer") && !strings.Contains(recv, "LightWindow") {
			continue
		}
		var pc *PathConds
		eachInstr(f, func(in ssa.Instruction) {
			for _, s := range stringConstsOf(in) {
				for _, m := range decModeRe.FindAllStringSubmatch(s, -1) {
					if pc == nil {
						pc = pathConds(f)
					}
					n := 0
					fmt.Sscanf(m[1], "%d", &n)
					sites = append(sites, modeSite{n, m[2] == "h", f, in, fieldGuards(pc, in.Block())})
				}
			}
		})
	}
	r.floor("DEC private mode occurrences in the light renderer", len(sites), 12)
	memo := map[*ssa.Function]map[*ssa.Function]bool{}
	mustClose := mustCalls(l, closeF, memo, 0)
	mustClose[closeF] = true
	mustPause := mustCalls(l, pauseF, memo, 0)
	mustPause[pauseF] = true
	reachInit := reachableFns(initF)
	reachResume := reachableFns(resumeF)
	setModes := map[int][]modeSite{}
	for _, s := range sites {
		if s.on && (reachInit[s.fn] || reachResume[s.fn]) && s.mode != 7 && s.mode != 25 {
			setModes[s.mode] = append(setModes[s.mode], s)
		}
	}
	var modes []int
	for m := range setModes {
		modes = append(modes, m)
	}
	sort.Ints(modes)
	nOn := 0
	for _, m := range modes {
		for _, set := range setModes[m] {
			nOn++
			key := fmt.Sprintf("%s:?%dh", relName(set.fn), m)
			if m == 1049 {
				// may-reset only: --no-clear documents leaving the screen as it is
				has := false
				for _, s := range sites {
					if s.mode == 1049 && !s.on && reachableFns(closeF)[s.fn] {
						has = true
					}
				}
				r.check(has, key, set.in.Pos(), set.fn, "alternate screen ?1049h has a ?1049l reachable from Close (may-reset; --no-clear keeps the screen by design)", "no ?1049l reachable from Close")
				continue
			}
			for _, w := range []struct {
				name string
				must map[*ssa.Function]bool
			}{{"Close", mustClose}, {"Pause", mustPause}} {
				found := false
				why := "no `?" + fmt.Sprint(m) + "l` in any function called on every path of " + w.name
				for _, s := range sites {
					if s.mode != m || s.on || !w.must[s.fn] {
						continue
					}
					sub := true
					for g := range s.guards {
						if !set.guards[g] {
							sub = false
							why = fmt.Sprintf("reset in %s is guarded by `%s`, stronger than the setter's `%s`", relName(s.fn), guardStr(s.guards), guardStr(set.guards))
						}
					}
					if sub {
						found = true
					}
				}
				r.check(found, key+" reset on "+w.name, set.in.Pos(), set.fn,
					fmt.Sprintf("mode ?%d switched on (guard: %s) is switched off on every path of %s", m, guardStr(set.guards), w.name), why)
			}
		}
	}
	r.floor("`?Nh` set sites reachable from Init/Resume", nOn, 4)
	r.exempt("?1049 (alternate screen)", "checked as may-reset only: --no-clear documents leaving the screen as it is")
	// raw mode
	hasRaw := false
	for f := range reachInit {
		eachInstr(f, func(in ssa.Instruction) {
			if _, ok := isCall(in, "golang.org/x/term.MakeRaw"); ok {
				hasRaw = true
			}
		})
	}
	restoreIn := func(must map[*ssa.Function]bool) bool {
		ok := false
		for f := range must {
			if f.Blocks == nil {
				continue
			}
			pc := pathConds(f)
			eachInstr(f, func(in ssa.Instruction) {
				if _, isC := isCall(in, "golang.org/x/term.Restore"); isC {
					if len(fieldGuards(pc, in.Block())) == 0 {
						// the call must itself be on every path of f
						entry := f.Blocks[0].Instrs[0]
						if entry == in || pathAvoiding(entry, isReturn, func(i ssa.Instruction) bool { return i == in }, nil) == nil {
							ok = true
						}
					}
				}
			})
		}
		return ok
	}
	if !hasRaw {
		r.unest("raw mode", token.NoPos, initF, "term.MakeRaw reachable from Init", "not found")
	} else {
		r.check(restoreIn(mustClose), "raw mode restored on Close", closeF.Pos(), closeF, "term.MakeRaw (Init) is undone by term.Restore on every path of Close", "no unconditional term.Restore on Close's paths")
		r.check(restoreIn(mustPause), "raw mode restored on Pause", pauseF.Pos(), pauseF, "term.MakeRaw is undone by term.Restore on every path of Pause", "no unconditional term.Restore on Pause's paths")
	}
	// inverse polarity: ?7l always followed by ?7h
	n7 := 0
	for _, s := range sites {
		if s.mode == 7 && !s.on {
			n7++
			goal := pathAvoiding(s.in, isReturn, func(in ssa.Instruction) bool {
				for _, str := range stringConstsOf(in) {
					if strings.Contains(str, "?7h") {
						return true
					}
				}
				return false
			}, nil)
			sameInstr := false
			for _, str := range stringConstsOf(s.in) {
				if strings.Contains(str, "?7h") && strings.Index(str, "?7h") > strings.Index(str, "?7l") {
					sameInstr = true
				}
			}
			r.check(goal == nil || sameInstr, relName(s.fn)+":?7l..?7h", s.in.Pos(), s.fn, "auto-wrap off (?7l) is followed by ?7h on every path", "a path returns with auto-wrap disabled")
		}
	}
	r.floor("?7l sites", n7, 1)
	// cursor: Close (must path) emits ?25h under at most showCursor==false
	okCur := false
	for _, s := range sites {
		if s.mode == 25 && s.on && mustClose[s.fn] {
			okg := true
			for g := range s.guards {
				if g != "showCursor=false" {
					okg = false
				}
			}
			if okg {
				okCur = true
			}
		}
	}
	r.check(okCur, "cursor shown on Close", closeF.Pos(), closeF, "Close re-shows the cursor (?25h) whenever flush left it hidden (guard at most showCursor==false)", "no such ?25h on Close's unconditional paths")
}

func c14r2(c *Ctx, r *Report) {
	l := c.L
	r.rule("C14-R2", "A/B (dominance, census)", "P1",
		"the render loop's `running` flag is cleared only in exit(), after previewBox.Set(reqQuit) [iff previewer], listener.Close() [iff listening] and tui.Close(); after the loop EvtQuit/killPreview/cancel run on every path; executor.Become is dominated by tui.Close(); failing reads in getBytesInternal close the renderer",
		"fzf exits (or execs) with the terminal in raw mode / a preview child or the listener left behind")
	loop := l.Fn("fzf", "(*Terminal).Loop")
	if loop == nil {
		r.unest("anchors", token.NoPos, nil, "anchor Terminal.Loop", "cannot resolve")
		return
	}
	// the render goroutine: closure of Loop that owns an Alloc named "running"
	var render *ssa.Function
	var running *ssa.Alloc
	for _, f := range withClosures(loop) {
		eachInstr(f, func(in ssa.Instruction) {
			if a, ok := in.(*ssa.Alloc); ok && a.Comment == "running" {
				render, running = f, a
			}
		})
	}
	if render == nil {
		r.unest(relName(loop)+":running", token.NoPos, loop, "render loop's `running` flag", "not found")
		return
	}
	closeName := "(" + modPath + "/src/tui.Renderer).Close"
	setName := "(*" + modPath + "/src/util.EventBox).Set"
	var exitFn *ssa.Function
	nClr := 0
	for _, st := range storesToCell(running) {
		if cb, isc := constBool(st.Val); isc && !cb {
			nClr++
			f := st.Parent()
			if exitFn == nil {
				exitFn = f
			}
			// tui.Close dominates the store
			var closeCall ssa.Instruction
			eachInstr(f, func(in ssa.Instruction) {
				if _, ok := isCall(in, closeName); ok {
					closeCall = in
				}
			})
			r.check(closeCall != nil && dominates(closeCall, st), relName(f)+":running=false after tui.Close", st.Pos(), f, "`running = false` is dominated by tui.Close()", "the loop can stop without restoring the terminal")
			// previewer quit + listener close: present, guarded only by their own existence test, and before the store
			pc := pathConds(f)
			var quitSet, lstClose ssa.Instruction
			eachInstr(f, func(in ssa.Instruction) {
				if cc, ok := isCall(in, setName); ok {
					if fld, _ := loadedField(cc.Args[0]); fld == l.Field("fzf", "Terminal", "previewBox") {
						quitSet = in
					}
				}
				if ci, ok := in.(ssa.CallInstruction); ok && ci.Common().IsInvoke() && ci.Common().Method.Name() == "Close" {
					if fld, _ := loadedField(ci.Common().Value); fld == l.Field("fzf", "Terminal", "listener") {
						lstClose = in
					}
				}
			})
			// the guard of a site = the literals common to every disjunct at its block
			guardOK := func(in ssa.Instruction, allowed func(a ssa.Value, v bool) bool) bool {
				ds := pc.At(in.Block())
				if len(ds) == 0 {
					return false
				}
				for _, lt := range ds[0] {
					common := true
					for _, d := range ds[1:] {
						has := false
						for _, l2 := range d {
							if l2.Atom == lt.Atom && l2.Val == lt.Val {
								has = true
							}
						}
						if !has {
							common = false
						}
					}
					if common && !allowed(lt.Atom, lt.Val) {
						return false
					}
				}
				return true
			}
			hasPrev := l.Fn("fzf", "(*Terminal).hasPreviewer")
			r.check(quitSet != nil && canReach(quitSet, st) && !canReach(st, quitSet) && guardOK(quitSet, func(a ssa.Value, v bool) bool {
				call, ok := a.(*ssa.Call)
				return ok && call.Common().StaticCallee() == hasPrev && v
			}), relName(f)+":previewer told to quit", st.Pos(), f, "previewBox.Set(reqQuit) precedes `running=false`, conditional only on hasPreviewer()", "the previewer goroutine (and its child) is not told to stop on some exit path")
			r.check(lstClose != nil && canReach(lstClose, st) && !canReach(st, lstClose) && guardOK(lstClose, func(a ssa.Value, v bool) bool {
				b, ok := a.(*ssa.BinOp)
				if !ok {
					return false
				}
				fld, _ := loadedField(b.X)
				return fld == l.Field("fzf", "Terminal", "listener") && ((b.Op == token.NEQ && v) || (b.Op == token.EQL && !v))
			}), relName(f)+":listener closed", st.Pos(), f, "listener.Close() precedes `running=false`, conditional only on listener != nil", "the --listen socket stays open on some exit path")
		}
	}
	r.check(nClr == 1, relName(render)+":single clear of running", render.Pos(), render, "`running` is set to false at exactly one site (the exit closure)", fmt.Sprintf("%d sites clear it", nClr))
	// after the loop
	entry := render.Blocks[0].Instrs[0]
	for _, need := range []struct {
		name string
		is   func(ssa.Instruction) bool
	}{
		{"eventBox.Set(EvtQuit)", func(in ssa.Instruction) bool {
			cc, ok := isCall(in, setName)
			if !ok {
				return false
			}
			k, isc := constIntVal(cc.Args[1])
			q, _ := constInt(l.Const("fzf", "EvtQuit"))
			return isc && k == q
		}},
		{"cancel()", func(in ssa.Instruction) bool {
			ci, ok := in.(ssa.CallInstruction)
			if !ok {
				return false
			}
			return strings.Contains(ci.Common().Value.Type().String(), "context.CancelFunc")
		}},
	} {
		goal := pathAvoiding(entry, isReturn, need.is, nil)
		r.check(goal == nil, relName(render)+":after loop "+need.name, render.Pos(), render, "every return of the render goroutine passes "+need.name, "a path leaves the render loop without it")
	}
	// the event that lets the process exit is posted only after the preview kill was delivered:
	// (a) Set(EvtQuit) is dominated by the killPreview call (when a previewer exists),
	// (b) killPreview delivers through a blocking select (no `default`) and then awaits the previewer
	kp := l.Fn("fzf", "(*Terminal).killPreview")
	if kp == nil {
		r.unest(relName(render)+":killPreview", token.NoPos, render, "anchor Terminal.killPreview", "cannot resolve")
	} else {
		var quitSets []ssa.Instruction
		var kpCall ssa.Instruction
		eachInstr(render, func(in ssa.Instruction) {
			if cc, ok := isCall(in, setName); ok {
				k, isc := constIntVal(cc.Args[1])
				q, _ := constInt(l.Const("fzf", "EvtQuit"))
				if isc && k == q {
					quitSets = append(quitSets, in)
				}
			}
			if staticCallee(in) == kp {
				kpCall = in
			}
		})
		okOrder := len(quitSets) > 0 && kpCall != nil
		hasPrev := l.Fn("fzf", "(*Terminal).hasPreviewer")
		for _, quitSet := range quitSets {
			if !okOrder {
				break
			}
			qs := quitSet
			if !canReach(kpCall, qs) || canReach(qs, kpCall) {
				okOrder = false
				break
			}
			// every path to Set(EvtQuit) on which a previewer exists passes killPreview
			entry := render.Blocks[0].Instrs[0]
			skip := feasiblePathAvoiding(entry, func(i ssa.Instruction) bool { return i == qs }, func(i ssa.Instruction) bool { return i == kpCall }, func(from, to *ssa.BasicBlock) bool {
				// do not follow the edge on which hasPreviewer() is false: nothing to kill there
				ifi, ok := from.Instrs[len(from.Instrs)-1].(*ssa.If)
				if !ok {
					return true
				}
				atom, neg := normCond(ifi.Cond)
				call, ok := atom.(*ssa.Call)
				if !ok || call.Common().StaticCallee() != hasPrev {
					return true
				}
				trueEdge := to == from.Succs[0]
				return trueEdge != neg
			})
			if skip != nil {
				okOrder = false
			}
		}
		r.check(okOrder, relName(render)+":quit posted after preview kill", render.Pos(), render, "eventBox.Set(EvtQuit) — after which the process may exit — comes after killPreview() on every path with a previewer", "fzf can exit before the running preview command was killed: the child survives the session")
		blocking, awaits := false, false
		eachInstr(kp, func(in ssa.Instruction) {
			sel, ok := in.(*ssa.Select)
			if !ok {
				return
			}
			sendsKill := false
			for _, st := range sel.States {
				if fld, _ := loadedField(st.Chan); fld != nil && fld.Name() == "killChan" && st.Dir == types.SendOnly {
					sendsKill = true
				}
			}
			if sendsKill && sel.Blocking {
				blocking = true
			}
			if !sendsKill && sel.Blocking {
				for _, st := range sel.States {
					if st.Dir == types.RecvOnly {
						if _, isParam := st.Chan.(*ssa.Parameter); isParam {
							awaits = true
						}
					}
				}
			}
		})
		r.check(blocking, relName(kp)+":kill request is delivered", kp.Pos(), kp, "the kill request is sent with a blocking select (bounded by a timeout), not dropped when the watcher is momentarily busy", "non-blocking send with `default`: the request is lost unless the watcher happens to be waiting")
		r.check(awaits, relName(kp)+":previewer awaited", kp.Pos(), kp, "killPreview then waits for the previewer goroutine to finish (bounded)", "the kill is requested but not awaited: the process can exit before the child is signalled")
	}

	// Become dominated by tui.Close
	nB := 0
	for _, f := range withClosures(loop) {
		eachInstr(f, func(in ssa.Instruction) {
			if _, ok := isCall(in, "(*"+modPath+"/src/util.Executor).Become"); !ok {
				return
			}
			nB++
			dom := false
			eachInstr(f, func(in2 ssa.Instruction) {
				if _, ok := isCall(in2, closeName); ok && dominates(in2, in) {
					dom = true
				}
			})
			r.check(dom, relName(f)+":Become after tui.Close", in.Pos(), f, "executor.Become (exec into another program) is dominated by tui.Close()", "the new program inherits a raw-mode terminal")
		})
	}
	r.floor("Become sites", nB, 1)
	// getBytesInternal fatal paths
	gb := l.Fn("tui", "(*LightRenderer).getBytesInternal")
	lclose := l.Fn("tui", "(*LightRenderer).Close")
	if gb == nil || lclose == nil {
		r.unest("anchors getBytesInternal", token.NoPos, nil, "anchor LightRenderer.getBytesInternal", "cannot resolve")
	} else {
		n := 0
		for _, b := range gb.Blocks {
			ret, ok := b.Instrs[len(b.Instrs)-1].(*ssa.Return)
			if !ok {
				continue
			}
			ev := retResult(ret, 1)
			if cn, isC := ev.(*ssa.Const); isC && cn.IsNil() {
				continue
			}
			n++
			dom := false
			eachInstr(gb, func(in ssa.Instruction) {
				if staticCallee(in) == lclose && dominates(in, ret) {
					dom = true
				}
			})
			r.check(dom, relName(gb)+":error return closes", ret.Pos(), gb, "an error return of the key reader is dominated by r.Close()", "fzf terminates on this error with the terminal not restored")
		}
		r.floor("error returns of getBytesInternal", n, 2)
	}
}

// ---------------------------------------------------------------------------------------------

func c14r3(c *Ctx, r *Report) {
	l := c.L
	r.rule("C14-R3", "B/A (census of expansion call sites, must-pass-through)", "P1",
		"the temp-file list returned by placeholder expansion is, at every call site, passed to removeFiles on every path to exit / to the next expansion, or returned to the caller, or stored in a commandSpec (whose list Reader.restart removes), or dropped only on the `become` path",
		"files created for {f}/{+f} stay in $TMPDIR")
	remove := l.Fn("fzf", "removeFiles")
	base := l.Fn("fzf", "replacePlaceholder")
	fTemp := l.Field("fzf", "commandSpec", "tempFiles")
	actBecome := l.Const("fzf", "actBecome")
	if remove == nil || base == nil || fTemp == nil || actBecome == nil {
		r.unest("anchors", token.NoPos, nil, "anchors removeFiles / replacePlaceholder / commandSpec.tempFiles / actBecome", "cannot resolve")
		return
	}
	// sources: functions whose result #1 ([]string) derives from a source call
	sources := map[*ssa.Function]bool{base: true}
	for changed := true; changed; {
		changed = false
		for _, f := range l.AllFuncs() {
			if sources[f] || f.Signature.Results().Len() != 2 {
				continue
			}
			for _, b := range f.Blocks {
				ret, ok := b.Instrs[len(b.Instrs)-1].(*ssa.Return)
				if !ok {
					continue
				}
				for v := range backwardSlice(retResult(ret, 1), nil, nil) {
					if ex, ok := v.(*ssa.Extract); ok && ex.Index == 1 {
						if call, ok := ex.Tuple.(*ssa.Call); ok && sources[call.Common().StaticCallee()] {
							if !sources[f] {
								sources[f] = true
								changed = true
							}
						}
					}
				}
			}
		}
	}
	becomeV, _ := constInt(actBecome)
	nSites := 0
	for _, f := range l.AllFuncs() {
		var pc *PathConds
		eachInstr(f, func(in ssa.Instruction) {
			call, ok := in.(*ssa.Call)
			if !ok || !sources[call.Common().StaticCallee()] {
				return
			}
			nSites++
			key := relName(f) + ":tempFiles of " + call.Common().StaticCallee().Name()
			var list ssa.Value
			for _, ref := range *call.Referrers() {
				if ex, ok := ref.(*ssa.Extract); ok && ex.Index == 1 {
					list = ex
				}
			}
			// returned to the caller?
			if sources[f] {
				r.ok(key, in.Pos(), f, "list is returned to the caller (wrapper)")
				return
			}
			aliases := map[ssa.Value]bool{}
			if list != nil {
				aliases = forwardAliases(f, list)
			}
			isRemove := func(i ssa.Instruction) bool {
				ci, ok := i.(ssa.CallInstruction)
				if !ok || ci.Common().StaticCallee() != remove {
					return false
				}
				return aliases[ci.Common().Args[0]]
			}
			// stored into a commandSpec?
			stored := false
			for v := range aliases {
				if v.Referrers() == nil {
					continue
				}
				for _, ref := range *v.Referrers() {
					if st, ok := ref.(*ssa.Store); ok && st.Val == v {
						if fld, _ := fieldOf(st.Addr); fld == fTemp {
							stored = true
						}
					}
				}
			}
			if stored {
				r.ok(key, in.Pos(), f, "list is stored in a commandSpec (removed by Reader.restart)")
				return
			}
			if list == nil || len(*list.Referrers()) == 0 {
				// dropped: only allowed on the become path
				if pc == nil {
					pc = pathConds(f)
				}
				onBecome, _ := pc.Implies(in.Block(), func(lits []Lit) bool {
					return hasLit(lits, func(a ssa.Value, v bool) bool {
						_, op, n, ok := cmpInt(a)
						return ok && n == becomeV && ((op == token.EQL && v) || (op == token.NEQ && !v))
					})
				})
				if onBecome {
					r.ok(key, in.Pos(), f, "list dropped on the `become` path (process image is replaced) — exempt site")
				} else {
					r.bad(key, in.Pos(), f, "temp-file list of the expansion is discarded", "never removed")
				}
				return
			}
			// deferred removal after the call covers all exits
			goal := feasiblePathAvoiding(call, func(i ssa.Instruction) bool { return isReturn(i) || i == ssa.Instruction(call) }, func(i ssa.Instruction) bool {
				if d, ok := i.(*ssa.Defer); ok && d.Common().StaticCallee() == remove && aliases[d.Common().Args[0]] {
					return true
				}
				return isRemove(i)
			}, nil)
			if goal == nil {
				r.ok(key, in.Pos(), f, "list reaches removeFiles on every path")
			} else {
				r.bad(key, in.Pos(), f, "temp-file list of the expansion", fmt.Sprintf("a path reaches %s (%s) without removeFiles", l.pos(goal.Pos()), goalKind(goal, call)))
			}
		})
	}
	r.floor("expansion call sites", nSites, 7)
	r.exempt("become", "the expansion on the `become` path keeps its temp files: the process image is replaced and the new program needs them")
	// commandSpec.tempFiles is removed by a reader function
	okRm := false
	for _, f := range l.AllFuncs() {
		eachInstr(f, func(in ssa.Instruction) {
			ci, ok := in.(ssa.CallInstruction)
			if !ok || ci.Common().StaticCallee() != remove {
				return
			}
			for v := range backwardSlice(ci.Common().Args[0], nil, nil) {
				if fld, _ := fieldOf(v); fld == fTemp {
					okRm = true
					r.analysed(f)
				}
			}
		})
	}
	r.check(okRm, "commandSpec.tempFiles consumer", remove.Pos(), remove, "commandSpec.tempFiles is passed to removeFiles somewhere (Reader.restart)", "nothing removes the files of a reload command")
}

func goalKind(goal ssa.Instruction, call ssa.Instruction) string {
	if goal == call {
		return "the next expansion in the same loop"
	}
	return "function exit"
}

// ---------------------------------------------------------------------------------------------

func c14r4(c *Ctx, r *Report) {
	l := c.L
	r.rule("C14-R4", "A (must-pass-through on the success edge) + D (provenance)", "P1",
		"every *exec.Cmd obtained from Executor.ExecCommand is either Run(), or Start()ed and then Wait()ed on every path of the success edge before function exit / the next iteration; every argument of util.KillCommand comes from ExecCommand(_, true)",
		"zombie/orphan children; a group kill aimed at a non-leader would hit fzf's own process group")
	execCmd := l.Fn("util", "(*Executor).ExecCommand")
	kill := l.Fn("util", "KillCommand")
	if execCmd == nil || kill == nil {
		r.unest("anchors", token.NoPos, nil, "anchors Executor.ExecCommand / util.KillCommand", "cannot resolve")
		return
	}
	n := 0
	for _, f := range l.AllFuncs() {
		eachInstr(f, func(in ssa.Instruction) {
			call, ok := in.(*ssa.Call)
			if !ok || call.Common().StaticCallee() != execCmd {
				return
			}
			n++
			al := forwardAliases(f, call)
			var runs, starts, waits []ssa.Instruction
			for _, g := range withClosures(rootFn(f)) {
				eachInstr(g, func(i2 ssa.Instruction) {
					ci, ok := i2.(ssa.CallInstruction)
					if !ok || len(ci.Common().Args) == 0 || !al[ci.Common().Args[0]] {
						return
					}
					if _, isGo := i2.(*ssa.Go); isGo {
						return // `go cmd.Wait()` does not reap before the next iteration
					}
					if _, isDefer := i2.(*ssa.Defer); isDefer {
						return
					}
					switch calleeName(ci.Common()) {
					case "(*os/exec.Cmd).Run":
						runs = append(runs, i2)
					case "(*os/exec.Cmd).Start":
						starts = append(starts, i2)
					case "(*os/exec.Cmd).Wait":
						waits = append(waits, i2)
					}
				})
			}
			key := relName(f) + ":child of ExecCommand"
			if len(starts) == 0 && len(runs) > 0 {
				r.ok(key, in.Pos(), f, "child is run synchronously with Cmd.Run()")
				return
			}
			if len(starts) == 0 {
				r.unest(key, in.Pos(), f, "child command", "neither Run nor Start found on the command")
				return
			}
			for _, st := range starts {
				if st.Parent() != f {
					r.unest(key, st.Pos(), f, "Start in a different function than ExecCommand", "not analysed")
					continue
				}
				stv, _ := st.(ssa.Value)
				isWait := func(i ssa.Instruction) bool {
					for _, w := range waits {
						if w == i {
							return true
						}
					}
					return false
				}
				// failure edges of Start are not followed
				edgeOK := func(from, to *ssa.BasicBlock) bool {
					ifi, ok := from.Instrs[len(from.Instrs)-1].(*ssa.If)
					if !ok || stv == nil {
						return true
					}
					atom, neg := normCond(ifi.Cond)
					b, ok := atom.(*ssa.BinOp)
					if !ok || (b.X != stv && b.Y != stv) {
						return true
					}
					// err == nil  -> success on the true edge ; err != nil -> success on the false edge
					succTrue := (b.Op == token.EQL) != neg
					if succTrue {
						return to == from.Succs[0]
					}
					return to == from.Succs[1]
				}
				goal := pathAvoiding(st, func(i ssa.Instruction) bool { return isReturn(i) || i == ssa.Instruction(call) }, isWait, edgeOK)
				// waits must be in the same function (not in a goroutine)
				sameFn := true
				for _, w := range waits {
					if w.Parent() != f {
						sameFn = false
					}
				}
				if len(runs) > 0 && goal != nil {
					// both Run and Start/Wait variants on different branches: accept when every Start-path is covered or a Run exists after
					goal2 := pathAvoiding(st, func(i ssa.Instruction) bool { return isReturn(i) || i == ssa.Instruction(call) }, func(i ssa.Instruction) bool {
						if isWait(i) {
							return true
						}
						return false
					}, edgeOK)
					goal = goal2
				}
				r.check(goal == nil && sameFn && len(waits) > 0, key+":Start..Wait", st.Pos(), f, "Cmd.Start() is followed by Cmd.Wait() on every path of its success edge, in the same function",
					"a started child is not reaped on some path (or Wait was moved to another goroutine)")
			}
		})
	}
	r.floor("ExecCommand call sites", n, 3)
	nk := 0
	for _, f := range l.AllFuncs() {
		eachInstr(f, func(in ssa.Instruction) {
			ci, ok := in.(ssa.CallInstruction)
			if !ok || ci.Common().StaticCallee() != kill {
				return
			}
			nk++
			leader := false
			all := true
			found := false
			for v := range backwardSlice(ci.Common().Args[0], nil, nil) {
				if call, ok := v.(*ssa.Call); ok && call.Common().StaticCallee() == execCmd {
					found = true
					if cb, isc := constBool(call.Call.Args[2]); isc && cb {
						leader = true
					} else {
						all = false
					}
				}
			}
			r.check(found && leader && all, relName(f)+":KillCommand target", in.Pos(), f, "KillCommand's target was created by ExecCommand(_, setpgid=true)", "group kill of a process that is not a process-group leader (or of unknown origin)")
		})
	}
	r.floor("KillCommand call sites", nk, 3)
	_ = types.Typ
}
