package main

import (
	"fmt"
	"go/token"
	"sort"

	"golang.org/x/tools/go/ssa"
)

// c03r4: the scoring scheme handed to algo.Init is one Init knows.
//
// algo.Init fills the character-class and bonus tables only for the scheme names of its switch and
// reports anything else by a bool that its caller ignores; with an unknown name every table stays zero:
// no case folding of ASCII text in FuzzyMatchV2, no boundary/camelCase bonuses.
func c03r4(c *Ctx, r *Report) {
	l := c.L
	r.rule("C03-R4", "E (vocabulary agreement writer/reader) + A", "P1",
		"every value stored into Options.Scheme is a name algo.Init's switch accepts (or the initial empty string), parseScheme returns on success the very value its switch matched against an accepted name, ParseOptions replaces the empty scheme under no other condition than its emptiness, and Init is called with Options.Scheme",
		"algo.Init silently fails (its result is ignored): all scoring tables stay zero — upper-case ASCII text is no longer folded (lines disappear) and no bonus is applied")
	init := l.Fn("algo", "Init")
	ps := l.Fn("fzf", "parseScheme")
	po := l.Fn("fzf", "ParseOptions")
	fScheme := l.Field("fzf", "Options", "Scheme")
	if init == nil || ps == nil || po == nil || fScheme == nil {
		r.unest("anchors", token.NoPos, nil, "anchors algo.Init / parseScheme / ParseOptions / Options.Scheme", "cannot resolve")
		return
	}
	// (i) accepted names
	accepted := map[string]bool{}
	eachInstr(init, func(in ssa.Instruction) {
		b, ok := in.(*ssa.BinOp)
		if !ok || b.Op != token.EQL || b.X != ssa.Value(init.Params[0]) {
			return
		}
		if s, isc := constString(b.Y); isc {
			accepted[s] = true
		}
	})
	var names []string
	for s := range accepted {
		names = append(names, s)
	}
	sort.Strings(names)
	r.floor("scheme names accepted by algo.Init", len(accepted), 3)
	// (ii) stores
	nSt := 0
	var defaultStores []*ssa.Store
	for _, fn := range l.AllFuncs() {
		if fn.Pkg != l.pkg("fzf") {
			continue
		}
		eachInstr(fn, func(in ssa.Instruction) {
			st, ok := in.(*ssa.Store)
			if !ok {
				return
			}
			if f, _ := fieldOf(st.Addr); f != fScheme {
				return
			}
			nSt++
			key := fmt.Sprintf("%s:Scheme <- %s", relName(fn), describe(st.Val))
			if s, isc := constString(st.Val); isc {
				r.check(s == "" || accepted[s], key, st.Pos(), fn, fmt.Sprintf("constant %q is a name Init accepts", s), fmt.Sprintf("constant %q is not among %v", s, names))
				if s != "" && rootFn(fn) == po {
					defaultStores = append(defaultStores, st)
				}
				return
			}
			if ex, ok := st.Val.(*ssa.Extract); ok && ex.Index == 0 {
				if call, ok := ex.Tuple.(*ssa.Call); ok && call.Common().StaticCallee() == ps {
					r.ok(key, st.Pos(), fn, "result 0 of parseScheme")
					return
				}
			}
			r.unest(key, st.Pos(), fn, "the stored scheme is a constant or parseScheme's result", "unrecognised source of a scheme name")
		})
	}
	r.floor("stores into Options.Scheme", nSt, 3)
	// (iii) parseScheme returns its matched tag
	pc := pathConds(ps)
	nOK := 0
	for _, b := range ps.Blocks {
		ret, ok := b.Instrs[len(b.Instrs)-1].(*ssa.Return)
		if !ok {
			continue
		}
		errRes := retResult(ret, 2)
		if cst, ok := errRes.(*ssa.Const); !ok || !cst.IsNil() {
			continue
		}
		nOK++
		res := retResult(ret, 0)
		matched := false
		var name string
		for _, dj := range pc.At(b) {
			for _, lt := range dj {
				bo, ok := lt.Atom.(*ssa.BinOp)
				if !ok || bo.Op != token.EQL || !lt.Val {
					continue
				}
				if s, isc := constString(bo.Y); isc && bo.X == res {
					matched, name = true, s
				}
			}
		}
		r.check(matched && accepted[name], fmt.Sprintf("fzf.parseScheme:success returns the matched name %q", name), ret.Pos(), ps, "the returned scheme is the value that was compared with an accepted name", "the returned scheme is not the value the switch matched (e.g. the unfolded spelling): Init will not know it")
	}
	r.floor("successful returns of parseScheme", nOK, 3)
	// (iv) the default replaces the empty scheme unconditionally
	okDefault := false
	for _, st := range defaultStores {
		b := st.Block()
		if len(b.Preds) != 1 {
			continue
		}
		iff, ok := b.Preds[0].Instrs[len(b.Preds[0].Instrs)-1].(*ssa.If)
		if !ok {
			continue
		}
		x, op, k, ok := cmpInt(iff.Cond)
		if !ok || k != 0 || (op != token.EQL && op != token.LEQ) {
			continue
		}
		call, isCall := x.(*ssa.Call)
		if !isCall || calleeName(call.Common()) != "builtin.len" {
			continue
		}
		if f, _ := loadedField(call.Call.Args[0]); f != fScheme {
			continue
		}
		// the test itself must not sit under another test of the options (only error checks precede it)
		if iff.Block().Dominates(b) && b.Preds[0].Succs[0] == b {
			okDefault = true
		}
	}
	r.check(okDefault, "fzf.ParseOptions:empty scheme replaced", po.Pos(), po, "an accepted name is stored into Scheme in the block guarded by `len(opts.Scheme) == 0` alone", "the default scheme is stored only under a further condition: Scheme can stay empty")
	// Init's argument
	okArg := false
	for _, fn := range l.AllFuncs() {
		eachInstr(fn, func(in ssa.Instruction) {
			call, ok := in.(*ssa.Call)
			if !ok || call.Common().StaticCallee() != init {
				return
			}
			if f, _ := loadedField(call.Call.Args[0]); f == fScheme {
				okArg = true
			} else if _, isc := constString(call.Call.Args[0]); !isc {
				r.bad(relName(fn)+":Init argument", call.Pos(), fn, "Init gets Options.Scheme", "Init is called with another value")
			}
		})
	}
	r.check(okArg, "algo.Init:called with Options.Scheme", init.Pos(), init, "algo.Init(opts.Scheme)", "no call of Init with Options.Scheme found")
}
