package main

import (
	"fmt"
	"go/token"
	"go/types"
	"strings"

	"golang.org/x/tools/go/ssa"
)

// Round 12 (a short round over eight properties): rules written for the mutants that arrived undetected.

// c07r15: the selection in the order in which it was made is computed from Terminal.selected whenever it is
// needed: the map changes with every select / deselect, also when its size does not (round-12 mutant C07c12
// cached the sorted list and invalidated it by len(t.selected): after deselecting a and selecting b, {+} and the
// printed result still said a).
func c07r15(c *Ctx, r *Report) {
	l := c.L
	r.rule("C07-R15", "B (the ordered selection is rebuilt from the map)", "P1",
		"every slice Terminal.sortSelected returns is built (make / append) in the call, never loaded from a field of the terminal",
		"the printed selection (and {+}) lists items that were deselected, or misses the ones selected since the list was last sorted")
	fn := l.Fn("fzf", "(*Terminal).sortSelected")
	if fn == nil {
		r.unest("anchors", token.NoPos, nil, "anchor Terminal.sortSelected", "cannot resolve")
		return
	}
	n := 0
	eachInstr(fn, func(in ssa.Instruction) {
		ret, ok := in.(*ssa.Return)
		if !ok || len(ret.Results) != 1 {
			return
		}
		n++
		bases := map[ssa.Value]bool{}
		sliceBases(ret.Results[0], map[ssa.Value]bool{}, bases)
		good := true
		why := ""
		for b := range bases {
			switch b.(type) {
			case *ssa.MakeSlice, *ssa.Alloc, *ssa.Const:
			default:
				good = false
				why = describe(b)
			}
		}
		r.check(good, fmt.Sprintf("%s:return #%d is built in the call", relName(fn), n), ret.Pos(), fn,
			"a slice made in the call", "the result is "+why+": a list remembered from an earlier call")
	})
	r.floor("returns of sortSelected", n, 1)
}

// c09r28: History.current answers with the edited text of an entry if there IS one — also when the edit made
// the entry empty (round-12 mutant C09b12 tested len(str) > 0 instead of the comma-ok flag of the lookup: an
// entry erased with kill-line came back when the user returned to it).
func c09r28(c *Ctx, r *Report) {
	l := c.L
	r.rule("C09-R28", "D (presence in the edit map, not the value, decides)", "P1",
		"in History.current, the value looked up in History.modified is returned under the comma-ok flag of that lookup",
		"a recalled history entry that was edited down to nothing shows its old text again")
	fn := l.Fn("fzf", "(*History).current")
	fMod := l.Field("fzf", "History", "modified")
	if fn == nil || fMod == nil {
		r.unest("anchors", token.NoPos, nil, "anchors History.current / History.modified", "cannot resolve")
		return
	}
	pc := pathConds(fn)
	n := 0
	eachInstr(fn, func(in ssa.Instruction) {
		ret, ok := in.(*ssa.Return)
		if !ok || len(ret.Results) != 1 {
			return
		}
		// the value comes from a lookup in History.modified
		var lk *ssa.Lookup
		for v := range backwardSlice(ret.Results[0], nil, nil) {
			if x, ok := v.(*ssa.Lookup); ok {
				if f, _ := loadedField(x.X); f == fMod {
					lk = x
				}
			}
		}
		if lk == nil {
			return
		}
		n++
		good := false
		if lk.CommaOk {
			holds, reach := pc.Implies(ret.Block(), func(lits []Lit) bool {
				for _, lt := range lits {
					if ex, ok := lt.Atom.(*ssa.Extract); ok && ex.Index == 1 && ex.Tuple == ssa.Value(lk) && lt.Val {
						return true
					}
				}
				return false
			})
			good = holds && reach
		}
		r.check(good, fmt.Sprintf("%s:return #%d of an edited entry is decided by its presence", relName(fn), n), ret.Pos(), fn,
			"under the comma-ok flag of the lookup", "whether the edited text is used depends on the text, not on whether the entry was edited")
	})
	r.floor("returns of an edited entry in History.current", n, 1)
}

// c11r28: whether the text of an item is stripped of its escape sequences when it is printed depends on --ansi
// alone: the original line of a --with-nth item can carry sequences in hidden fields although the visible fields
// have no colour (round-12 mutant C11c12 stripped only when item.colors != nil).
func c11r28(c *Ctx, r *Report) {
	l := c.L
	r.rule("C11-R28", "D (strip whenever --ansi is on)", "P1",
		"in Terminal.output and its closures, the stripAnsi argument of every call of Item.AsString / Item.acceptNth is a direct read of Terminal.ansi",
		"with --ansi --with-nth the accepted line is printed with the escape sequences of its hidden fields")
	fn := l.Fn("fzf", "(*Terminal).output")
	fA := l.Field("fzf", "Terminal", "ansi")
	as := l.Fn("fzf", "(*Item).AsString")
	acc := l.Fn("fzf", "(*Item).acceptNth")
	if fn == nil || fA == nil || as == nil || acc == nil {
		r.unest("anchors", token.NoPos, nil, "anchors Terminal.output / Terminal.ansi / Item.AsString / Item.acceptNth", "cannot resolve")
		return
	}
	n := 0
	for _, g := range withClosures(fn) {
		eachInstr(g, func(in ssa.Instruction) {
			call, ok := in.(*ssa.Call)
			if !ok {
				return
			}
			sc := call.Common().StaticCallee()
			if sc != as && sc != acc {
				return
			}
			n++
			f, _ := loadedField(call.Call.Args[1])
			r.check(f == fA, fmt.Sprintf("%s:printed text #%d is stripped iff --ansi", relName(fn), n), call.Pos(), g,
				"stripAnsi = t.ansi", "the text is stripped under "+describe(call.Call.Args[1])+", not under --ansi alone")
		})
	}
	r.floor("texts produced for printing in Terminal.output", n, 2)
}

// c14r25: Pause(true) switches screens before a foreground command runs (fullscreen: leave the alternate screen;
// --height: enter it, so that the command's output does not scroll the shell's screen), and Resume(true) switches
// back. The two are mirror images: each calls both smcup and rmcup, on opposite branches (round-12 mutant C14c12
// dropped rmcup from Resume: with --height the terminal stayed in the alternate screen after execute, also on exit).
func c14r25(c *Ctx, r *Report) {
	l := c.L
	r.rule("C14-R25", "A (pairing: the screen switched in Pause is switched back in Resume)", "P1",
		"LightRenderer.Pause and LightRenderer.Resume each call both smcup and rmcup, one on each branch of the same test of LightRenderer.fullscreen",
		"after a foreground execute(...) under --height the terminal is left in the alternate screen: the shell's screen content is gone when fzf exits")
	sm := l.Fn("tui", "(*LightRenderer).smcup")
	rm := l.Fn("tui", "(*LightRenderer).rmcup")
	fFull := l.Field("tui", "LightRenderer", "fullscreen")
	if sm == nil || rm == nil || fFull == nil {
		r.unest("anchors", token.NoPos, nil, "anchors LightRenderer.smcup / rmcup / fullscreen", "cannot resolve")
		return
	}
	cc := cdCache{}
	n := 0
	for _, name := range []string{"(*LightRenderer).Pause", "(*LightRenderer).Resume"} {
		fn := l.Fn("tui", name)
		if fn == nil {
			r.unest("anchors", token.NoPos, nil, "anchor "+name, "cannot resolve")
			continue
		}
		var hasSm, hasRm, onFull bool
		eachInstr(fn, func(in ssa.Instruction) {
			sc := staticCallee(in)
			if sc != sm && sc != rm {
				return
			}
			if sc == sm {
				hasSm = true
			} else {
				hasRm = true
			}
			for cond := range cc.of(in) {
				if f, _ := loadedField(cond); f == fFull {
					onFull = true
				}
			}
		})
		n++
		r.check(hasSm && hasRm && onFull, relName(fn)+":switches the screen in both modes", fn.Pos(), fn,
			"smcup and rmcup, chosen by fullscreen", "one of the two screen switches is missing: the switch made on the other side is never undone in that mode")
	}
	r.floor("Pause / Resume checked", n, 2)
}

// c15r32: the part of the query right of the cursor gets the width that is left after the part left of it — in
// screen columns, like every other width of the prompt line (round-12 mutant C15a12 subtracted the number of
// runes: with CJK characters left of the cursor the prompt row ran past the window).
func c15r32(c *Ctx, r *Report) {
	l := c.L
	r.rule("C15-R32", "D (widths are display widths)", "P1",
		"in Terminal.updatePromptOffset, the width handed to trimRight is the available width minus a result of Terminal.displayWidth",
		"with wide characters in the query the prompt line is wider than the window and overwrites the border")
	fn := l.Fn("fzf", "(*Terminal).updatePromptOffset")
	tr := l.Fn("fzf", "(*Terminal).trimRight")
	dw := l.Fn("fzf", "(*Terminal).displayWidth")
	if fn == nil || tr == nil || dw == nil {
		r.unest("anchors", token.NoPos, nil, "anchors Terminal.updatePromptOffset / trimRight / displayWidth", "cannot resolve")
		return
	}
	n := 0
	eachInstr(fn, func(in ssa.Instruction) {
		call, ok := in.(*ssa.Call)
		if !ok || call.Common().StaticCallee() != tr {
			return
		}
		n++
		good := false
		if bo, ok := call.Call.Args[2].(*ssa.BinOp); ok && bo.Op == token.SUB {
			if c2, ok := bo.Y.(*ssa.Call); ok && c2.Common().StaticCallee() == dw {
				good = true
			}
		}
		r.check(good, fmt.Sprintf("%s:width left for the text behind the cursor (#%d)", relName(fn), n), call.Pos(), fn,
			"maxWidth - displayWidth(before)", "the width left is computed as "+describe(call.Call.Args[2])+", not from the display width of the text before the cursor")
	})
	r.floor("trimRight calls in updatePromptOffset", n, 1)
}

// c15r33: in --layout=reverse-list the input window and the header window are filled from the bottom up:
// printHeaderImpl numbers the header lines in reverse and relies on Terminal.move to flip them back, for both
// windows alike (round-12 mutant C15b12 dropped the header window from that branch of move: a three-line header in
// its own window came out as HDR-3 / HDR-2 / HDR-1).
func c15r33(c *Ctx, r *Report) {
	l := c.L
	r.rule("C15-R33", "E (both separate windows are addressed bottom-up)", "P1",
		"Terminal.move compares Terminal.window with both Terminal.inputWindow and Terminal.headerWindow",
		"with --layout=reverse-list and a header window of its own, the header lines are drawn in reverse order")
	fn := l.Fn("fzf", "(*Terminal).move")
	fW := l.Field("fzf", "Terminal", "window")
	want := map[string]bool{"inputWindow": false, "headerWindow": false}
	if fn == nil || fW == nil {
		r.unest("anchors", token.NoPos, nil, "anchors Terminal.move / Terminal.window", "cannot resolve")
		return
	}
	eachInstr(fn, func(in ssa.Instruction) {
		bo, ok := in.(*ssa.BinOp)
		if !ok || (bo.Op != token.EQL && bo.Op != token.NEQ) {
			return
		}
		fx, _ := loadedField(stripConv(bo.X))
		fy, _ := loadedField(stripConv(bo.Y))
		if fx == nil || fy == nil {
			return
		}
		if fx == fW {
			if _, ok := want[fy.Name()]; ok {
				want[fy.Name()] = true
			}
		}
		if fy == fW {
			if _, ok := want[fx.Name()]; ok {
				want[fx.Name()] = true
			}
		}
	})
	for _, name := range []string{"inputWindow", "headerWindow"} {
		r.check(want[name], relName(fn)+":"+name+" is told apart from the list window", fn.Pos(), fn,
			"t.window == t."+name+" is tested", "Terminal.move no longer distinguishes the "+name+": its rows are addressed like rows of the list")
	}
}

// c15r34: what the light renderer lets through is decided by comparisons of the rune with constants (C0, C1, ESC,
// NL/CR) — the same characters the width computation counts. A Unicode table (unicode.IsPrint / IsGraphic) draws
// the line elsewhere: it rejects NBSP, U+3000, ZWJ … which are counted (round-12 mutant C15c12: `price 100 EUR`
// was drawn as `price100EUR` and the tail of the row's previous content stayed).
func c15r34(c *Ctx, r *Report) {
	l := c.L
	r.rule("C15-R34", "D (the output filter is a range test)", "P1",
		"in LightRenderer.stderrInternal, no condition on the way to the emission of the decoded rune is the result of a call",
		"characters that are counted as one or two columns are not drawn: the row is shorter than accounted for and keeps cells of its previous content")
	fn := l.Fn("tui", "(*LightRenderer).stderrInternal")
	if fn == nil {
		r.unest("anchors", token.NoPos, nil, "anchor LightRenderer.stderrInternal", "cannot resolve")
		return
	}
	cc := cdCache{}
	n := 0
	eachInstr(fn, func(in ssa.Instruction) {
		st, ok := in.(*ssa.Store)
		if !ok {
			return
		}
		ex, ok := st.Val.(*ssa.Extract)
		if !ok || ex.Index != 0 {
			return
		}
		call, ok := ex.Tuple.(*ssa.Call)
		if !ok || calleeName(call.Common()) != "unicode/utf8.DecodeRune" {
			return
		}
		n++
		good := true
		why := ""
		for cond := range cc.of(st) {
			for v := range backwardSlice(cond, nil, nil) {
				if c2, ok := v.(*ssa.Call); ok && c2 != call {
					if _, isBuiltin := c2.Call.Value.(*ssa.Builtin); !isBuiltin {
						good = false
						why = calleeName(c2.Common())
					}
				}
			}
		}
		r.check(good, fmt.Sprintf("%s:emission #%d is decided by range tests", relName(fn), n), st.Pos(), fn,
			"comparisons with constants only", "whether a character is drawn is decided by "+why+", which does not agree with the characters the width computation counts")
	})
	r.floor("places where stderrInternal emits the decoded rune", n, 1)
}

// c14r26: LightRenderer.Pause switches mouse reporting and bracketed paste off on every path (disableModes is its
// first statement); LightRenderer.Resume is its counterpart and switches them on again on every path (D115: only
// under `clear`: after a background command that ran longer than a second — Pause(false) … Resume(false, false) —
// the terminal sent no more mouse events and pastes were no longer bracketed for the rest of the session).
func c14r26(c *Ctx, r *Report) {
	l := c.L
	r.rule("C14-R26", "A (pairing: the modes switched off in Pause are switched on in Resume)", "P1",
		"every path from the entry of LightRenderer.Resume to a return passes a call of enableModes, and every path through LightRenderer.Pause passes disableModes",
		"after execute-silent / transform of more than a second fzf no longer reacts to the mouse, and a pasted newline acts as Enter")
	en := l.Fn("tui", "(*LightRenderer).enableModes")
	dis := l.Fn("tui", "(*LightRenderer).disableModes")
	if en == nil || dis == nil {
		r.unest("anchors", token.NoPos, nil, "anchors LightRenderer.enableModes / disableModes", "cannot resolve")
		return
	}
	n := 0
	for _, pair := range []struct {
		name string
		want *ssa.Function
	}{{"(*LightRenderer).Pause", dis}, {"(*LightRenderer).Resume", en}} {
		fn := l.Fn("tui", pair.name)
		if fn == nil || len(fn.Blocks) == 0 {
			r.unest("anchors", token.NoPos, nil, "anchor "+pair.name, "cannot resolve")
			continue
		}
		n++
		isWant := func(in ssa.Instruction) bool { return staticCallee(in) == pair.want }
		start := fn.Blocks[0].Instrs[0]
		hit := pathAvoiding(start, isReturn, isWant, nil)
		if isWant(start) {
			hit = nil
		}
		pos := fn.Pos()
		if hit != nil {
			pos = hit.Pos()
		}
		r.check(hit == nil, relName(fn)+":"+pair.want.Name()+" on every path", pos, fn,
			"no path avoids "+pair.want.Name(), "a path through "+relName(fn)+" returns without "+pair.want.Name()+": the modes are left as the other side set them")
	}
	r.floor("Pause / Resume checked", n, 2)
}

// c12r16: what --tmux pastes into the popup script from the environment is either a single-quoted value behind a
// name that matched the identifier pattern, or an exported bash function. bash itself imports a BASH_FUNC_name%%
// entry only if name is an identifier and the value starts with `() {`; fzf has to be at least as strict, because
// it pastes name and value into the script as they are (D116: it checked nothing: an entry named
// `BASH_FUNC_x;touch INJECTED;y%%`, or one whose value was `;touch INJECTED`, was executed by the popup script
// although bash ignores the same entry).
func c12r16(c *Ctx, r *Report) {
	l := c.L
	r.rule("C12-R16", "B (a pasted function entry has an identifier name and a function value)", "P1",
		"in runProxy, the append that pastes name+value of a BASH_FUNC_ entry is control dependent on a match of the name against the identifier pattern and on a prefix test of the value",
		"text of an environment entry is executed as shell syntax by the --tmux re-launch although bash would not import that entry")
	fn := l.Fn("fzf", "runProxy")
	if fn == nil {
		r.unest("anchors", token.NoPos, nil, "anchor runProxy", "cannot resolve")
		return
	}
	cc := cdCache{}
	n := 0
	eachInstr(fn, func(in ssa.Instruction) {
		// name + pair[1]: a string concatenation both of whose operands are not constants, stored into the exports
		bo, ok := in.(*ssa.BinOp)
		if !ok || bo.Op != token.ADD {
			return
		}
		if _, isK := bo.X.(*ssa.Const); isK {
			return
		}
		if _, isK := bo.Y.(*ssa.Const); isK {
			return
		}
		if bt, ok := bo.Type().Underlying().(*types.Basic); !ok || bt.Info()&types.IsString == 0 {
			return
		}
		// only the concatenation in the BASH_FUNC_ branch: it is control dependent on HasPrefix(…, "BASH_FUNC_")
		inBranch, nameOK, valueOK := false, false, false
		for cond := range cc.of(bo) {
			for v := range backwardSlice(cond, nil, nil) {
				call, ok := v.(*ssa.Call)
				if !ok {
					continue
				}
				switch calleeName(call.Common()) {
				case "strings.HasPrefix":
					if s2, ok := constString(call.Call.Args[1]); ok {
						if s2 == "BASH_FUNC_" {
							inBranch = true
						} else if strings.HasPrefix(s2, "()") {
							valueOK = true
						}
					}
				case "(*regexp.Regexp).MatchString":
					// the name cut out of the entry, not the whole entry name
					if _, isSlice := call.Call.Args[1].(*ssa.Slice); isSlice {
						nameOK = true
					}
				}
			}
		}
		if !inBranch {
			return
		}
		n++
		r.check(nameOK && valueOK, fmt.Sprintf("%s:pasted function entry #%d is validated", relName(fn), n), bo.Pos(), fn,
			"name matches the identifier pattern, value starts with `() {`", "name and value of a BASH_FUNC_ entry are pasted into the script unchecked")
	})
	r.floor("BASH_FUNC_ entries pasted by runProxy", n, 1)
}

// c06r18: with --tmux (and --height on Windows) the records of the library's Options.Input channel are relayed to
// the real fzf through a fifo. The real fzf splits what it reads at the INPUT delimiter (--read0), so the relay
// terminates each record with that delimiter — not with the OUTPUT separator --print0 sets (D117: it appended
// Options.PrintSep: with only one of --read0 / --print0 all records reached the real fzf glued into one item).
func c06r18(c *Ctx, r *Report) {
	l := c.L
	r.rule("C06-R18", "E (the relay writes the delimiter the reader reads)", "P1",
		"in runProxy and its closures, the string appended to an item of Options.Input before it is written to the input fifo does not derive from Options.PrintSep and depends on Options.ReadZero",
		"with --tmux and input given through the library's Input channel, --read0 without --print0 (or the reverse) turns all records into one item")
	fn := l.Fn("fzf", "runProxy")
	fPS := l.Field("fzf", "Options", "PrintSep")
	fRZ := l.Field("fzf", "Options", "ReadZero")
	fIn := l.Field("fzf", "Options", "Input")
	if fn == nil || fPS == nil || fRZ == nil || fIn == nil {
		r.unest("anchors", token.NoPos, nil, "anchors runProxy / Options.PrintSep / ReadZero / Input", "cannot resolve")
		return
	}
	n := 0
	for _, g := range withClosures(fn) {
		eachInstr(g, func(in ssa.Instruction) {
			// item + separator, item received from the Input channel
			bo, ok := in.(*ssa.BinOp)
			if !ok || bo.Op != token.ADD {
				return
			}
			if bt, ok := bo.Type().Underlying().(*types.Basic); !ok || bt.Info()&types.IsString == 0 {
				return
			}
			fromChan := false
			for v := range backwardSlice(bo.X, nil, nil) {
				switch x := v.(type) {
				case *ssa.UnOp:
					if x.Op == token.ARROW {
						fromChan = true
					}
				case *ssa.Next:
					fromChan = true
				case *ssa.Range:
					fromChan = true
				}
			}
			if !fromChan {
				return
			}
			n++
			usesPS, usesRZ := false, false
			for v := range backwardSlice(bo.Y, nil, nil) {
				if f, _ := loadedField(v); f == fPS {
					usesPS = true
				}
				if f, _ := loadedField(v); f == fRZ {
					usesRZ = true
				}
			}
			// the separator may be chosen by a branch on ReadZero
			for cond := range (cdCache{}).of(bo) {
				for v := range backwardSlice(cond, nil, nil) {
					if f, _ := loadedField(v); f == fRZ {
						usesRZ = true
					}
				}
			}
			if phi, ok := bo.Y.(*ssa.Phi); ok {
				for _, p := range phi.Block().Preds {
					if iff, ok := p.Instrs[len(p.Instrs)-1].(*ssa.If); ok {
						if f, _ := loadedField(iff.Cond); f == fRZ {
							usesRZ = true
						}
					}
				}
				// the branch that selects the phi may be one block further up
				for _, p := range phi.Block().Preds {
					for _, pp := range p.Preds {
						if iff, ok := pp.Instrs[len(pp.Instrs)-1].(*ssa.If); ok {
							if f, _ := loadedField(iff.Cond); f == fRZ {
								usesRZ = true
							}
						}
					}
				}
			}
			r.check(!usesPS && usesRZ, fmt.Sprintf("%s:record terminator #%d of the input relay", relName(fn), n), bo.Pos(), g,
				"chosen by Options.ReadZero", "the relayed records are terminated with "+describe(bo.Y)+": not the delimiter the real fzf splits its input at")
		})
	}
	r.floor("record terminators written by the input relay", n, 1)
}

// c15r35: --header-lines N reserves N rows from the start (visibleHeaderLines counts Terminal.headerLines), and
// printHeaderImpl paints one row per element of Terminal.header. The two agree only if the slice has N elements
// from the start; the coordinator pads it to N with every update, and NewTerminal has to as well (D118: it started
// empty: with fewer than N input lines the reserved rows were never painted, and after change-header to fewer
// lines an old header line stayed on one of them).
func c15r35(c *Ctx, r *Report) {
	l := c.L
	r.rule("C15-R35", "E (as many header elements as reserved rows)", "P1",
		"in NewTerminal, Terminal.header is initialised with a slice whose length is Options.HeaderLines",
		"a row reserved for --header-lines that no input line has filled keeps whatever was drawn there before")
	fn := l.Fn("fzf", "NewTerminal")
	fH := l.Field("fzf", "Terminal", "header")
	fHL := l.Field("fzf", "Options", "HeaderLines")
	if fn == nil || fH == nil || fHL == nil {
		r.unest("anchors", token.NoPos, nil, "anchors NewTerminal / Terminal.header / Options.HeaderLines", "cannot resolve")
		return
	}
	n := 0
	eachInstr(fn, func(in ssa.Instruction) {
		st, ok := in.(*ssa.Store)
		if !ok {
			return
		}
		if f, _ := fieldOf(st.Addr); f != fH {
			return
		}
		n++
		good := false
		if mk, ok := st.Val.(*ssa.MakeSlice); ok {
			if f, _ := loadedField(mk.Len); f == fHL {
				good = true
			}
		}
		r.check(good, fmt.Sprintf("%s:initial Terminal.header #%d has Options.HeaderLines elements", relName(fn), n), st.Pos(), fn,
			"make([]string, opts.HeaderLines)", "Terminal.header starts as "+describe(st.Val)+": the rows reserved for header lines are not painted until the input has filled them")
	})
	r.floor("initialisations of Terminal.header", n, 1)
}

// c19r20: the walker compares --walker-skip entries with paths that never end in a separator (the separator of a
// directory is appended after the tests), so an entry written with a trailing separator — what shell completion
// produces for a directory — can never match. readFiles therefore removes trailing separators from an entry
// before it classifies it (D119: it did not: `--walker-skip=node_modules/` skipped nothing).
func c19r20(c *Ctx, r *Report) {
	l := c.L
	r.rule("C19-R20", "C (skip entries are normalised like the paths they are compared with)", "P1",
		"in Reader.readFiles, the skip entries are tested with os.IsPathSeparator on their last byte (or trimmed with strings.TrimRight) before they are classified",
		"a skip entry with a trailing separator silently matches nothing: the directory the user wanted to prune is listed")
	fn := l.Fn("fzf", "(*Reader).readFiles")
	if fn == nil || len(fn.Params) < 4 {
		r.unest("anchors", token.NoPos, nil, "anchor Reader.readFiles", "cannot resolve")
		return
	}
	ignores := fn.Params[3]
	found := 0
	eachInstr(fn, func(in ssa.Instruction) {
		call, ok := in.(*ssa.Call)
		if !ok {
			return
		}
		nm := calleeName(call.Common())
		if nm != "os.IsPathSeparator" && nm != "strings.TrimRight" && nm != "strings.TrimSuffix" {
			return
		}
		for v := range backwardSlice(call.Call.Args[0], nil, nil) {
			if v == ssa.Value(ignores) {
				found++
				return
			}
		}
	})
	r.check(found >= 1, relName(fn)+":trailing separators of a skip entry are removed", fn.Pos(), fn,
		"entries are normalised before classification", "a skip entry is classified as written: one with a trailing separator can never match a path")
}

// c15r36: the header can live in a window of its own (--header-border, --header-lines-border, or merely because
// --input-border is set). Showing or hiding the header then adds or removes a window, which only a full redraw
// (resizeWindows) does; a repaint of the existing windows leaves the old header where it was (D120: show-header /
// hide-header / toggle-header requested list, info, prompt and header only: with --input-border the header lines
// stayed on the screen after hide-header, and the list did not get the freed rows).
func c15r36(c *Ctx, r *Report) {
	l := c.L
	r.rule("C15-R36", "A (a header window that has to come or go asks for a full redraw)", "P1",
		"Terminal.Loop has a closure that requests reqFullRedraw under a comparison involving Terminal.hasHeaderWindow, and every path from a store into Terminal.headerVisible to a return passes a call of that closure",
		"hide-header / show-header / toggle-header do nothing on the screen when the header has a window of its own: the state says hidden, the screen shows the header")
	loop := l.Fn("fzf", "(*Terminal).Loop")
	hhw := l.Fn("fzf", "(*Terminal).hasHeaderWindow")
	fHV := l.Field("fzf", "Terminal", "headerVisible")
	kF := l.Const("fzf", "reqFullRedraw")
	if loop == nil || hhw == nil || fHV == nil || kF == nil {
		r.unest("anchors", token.NoPos, nil, "anchors Terminal.Loop / hasHeaderWindow / headerVisible / reqFullRedraw", "cannot resolve")
		return
	}
	vf, _ := constantInt64(kF)
	cc := cdCache{}
	// the closure
	var helper *ssa.Function
	for _, g := range withClosures(loop) {
		eachInstr(g, func(in ssa.Instruction) {
			if !requestsEvent(in, vf) {
				return
			}
			for cond := range cc.of(in) {
				for v := range backwardSlice(cond, func(*ssa.CallCommon) bool { return true }, nil) {
					if call, ok := v.(*ssa.Call); ok && call.Common().StaticCallee() == hhw {
						helper = g
					}
				}
			}
		})
	}
	if !r.check(helper != nil, relName(loop)+":a full redraw is requested when the header window has to come or go", loop.Pos(), loop,
		"req(reqFullRedraw) under a test with hasHeaderWindow()", "no request of a full redraw depends on whether the header window exists") {
		return
	}
	callsHelper := func(in ssa.Instruction) bool {
		call, ok := in.(*ssa.Call)
		if !ok || call.Common().IsInvoke() || call.Common().StaticCallee() != nil {
			return false
		}
		for v := range backwardSlice(call.Call.Value, nil, nil) {
			if mc, ok := v.(*ssa.MakeClosure); ok && mc.Fn == ssa.Value(helper) {
				return true
			}
		}
		return false
	}
	n := 0
	for _, g := range withClosures(loop) {
		eachInstr(g, func(in ssa.Instruction) {
			st, ok := in.(*ssa.Store)
			if !ok {
				return
			}
			if f, _ := fieldOf(st.Addr); f != fHV {
				return
			}
			n++
			hit := pathAvoiding(st, isReturn, callsHelper, nil)
			r.check(hit == nil, fmt.Sprintf("%s:change #%d of the header's visibility may ask for a full redraw", relName(loop), n), st.Pos(), g,
				"the helper is called", "the header is shown or hidden with a repaint of the existing windows only")
		})
	}
	r.floor("stores into Terminal.headerVisible in Terminal.Loop", n, 3)
}

// c15r37: resizeWindows gives the input section a window of its own not only under --input-border but whenever a
// header window exists. Showing or hiding the input then adds or removes that window, which only a full redraw
// does (D121: show-input / hide-input / toggle-input repainted the existing windows only; resizeIfNeeded caught
// the --input-border case alone: with --header-border, show-input drew prompt and info inside the list window,
// above the header box instead of below it).
func c15r37(c *Ctx, r *Report) {
	l := c.L
	r.rule("C15-R37", "A (an input window that has to come or go asks for a full redraw)", "P1",
		"in Terminal.Loop and its closures, every path from a store into Terminal.inputless to a return passes a nil test of Terminal.inputWindow, and a request of reqFullRedraw is control dependent on such a test",
		"after show-input / hide-input with a header window, prompt and info are drawn in the wrong place (or the header rows in reverse order)")
	loop := l.Fn("fzf", "(*Terminal).Loop")
	fLess := l.Field("fzf", "Terminal", "inputless")
	fIW := l.Field("fzf", "Terminal", "inputWindow")
	kF := l.Const("fzf", "reqFullRedraw")
	if loop == nil || fLess == nil || fIW == nil || kF == nil {
		r.unest("anchors", token.NoPos, nil, "anchors Terminal.Loop / inputless / inputWindow / reqFullRedraw", "cannot resolve")
		return
	}
	vf, _ := constantInt64(kF)
	isWinTest := func(in ssa.Instruction) bool {
		bo, ok := in.(*ssa.BinOp)
		if !ok || (bo.Op != token.EQL && bo.Op != token.NEQ) {
			return false
		}
		for _, side := range []ssa.Value{bo.X, bo.Y} {
			if f, _ := loadedField(side); f == fIW {
				return true
			}
		}
		return false
	}
	cc := cdCache{}
	n, redraw := 0, 0
	for _, g := range withClosures(loop) {
		eachInstr(g, func(in ssa.Instruction) {
			if requestsEvent(in, vf) {
				for cond := range cc.of(in) {
					for v := range backwardSlice(cond, nil, nil) {
						if vi, ok := v.(ssa.Instruction); ok && isWinTest(vi) {
							redraw++
						}
					}
				}
			}
			st, ok := in.(*ssa.Store)
			if !ok {
				return
			}
			if f, _ := fieldOf(st.Addr); f != fLess {
				return
			}
			n++
			hit := pathAvoiding(st, isReturn, isWinTest, nil)
			r.check(hit == nil, fmt.Sprintf("%s:change #%d of the input's visibility looks at the input window", relName(loop), n), st.Pos(), g,
				"t.inputWindow is compared with what the layout needs", "the input is shown or hidden with a repaint of the existing windows only")
		})
	}
	r.check(redraw >= 1, relName(loop)+":a full redraw is requested when the input window has to come or go", loop.Pos(), loop,
		"req(reqFullRedraw) under a test of t.inputWindow", "no request of a full redraw depends on whether the input window exists")
	r.floor("stores into Terminal.inputless in the action handlers", n, 3)
}

func round12(c *Ctx, r *Report, prop string) {
	switch prop {
	case "C06":
		c06r18(c, r)
	case "C07":
		c07r15(c, r)
		c11r26(c, r) // the text that is printed is stripped iff --ansi, with or without colours
	case "C09":
		c09r28(c, r)
	case "C11":
		c11r28(c, r)
	case "C12":
		c12r16(c, r)
	case "C19":
		c19r20(c, r)
	case "C14":
		c14r25(c, r)
		c14r26(c, r)
	case "C15":
		c15r32(c, r)
		c15r33(c, r)
		c15r34(c, r)
		c15r35(c, r)
		c15r36(c, r)
		c15r37(c, r)
		c14r22(c, r) // no counted character is filtered out by a wider test than the C0/C1 ranges
	}
}
